(* From wf_program / wf_dist to the hypotheses of the distributed engine, the sequential
   reference seq_exec, and the C05 theorems for every well-formed program, placement, tree,
   protocol choice and schedule. *)
From Coq Require Import ZArith NArith List Bool Arith Lia Permutation.
From PV Require Import Base.Tac PTG.PTGDefs PTG.Engine PTG.PTGProofs
     PTGDist.DistEngine PTGDist.DistProofs PTGDist.DistLocal PTGDist.PTGDistDefs.
Import ListNotations.

Local Notation dedge := (DistEngine.edge tid).

(* ------------------------------------------------------------------ edges *)
Lemma edge_eqb_spec (a b : dedge) : edge_eqb a b = true <-> a = b.
Proof.
  destruct a as [[fa ta] ga], b as [[fb tb] gb]. unfold edge_eqb. cbn [fst snd].
  rewrite !andb_true_iff, !Nat.eqb_eq, tid_eqb_spec. split; [intros [[-> ->] ->]; reflexivity|intros H; inversion H; auto].
Qed.
Definition edge_eq_dec : forall a b : dedge, {a = b} + {a <> b}.
Proof. intros a b. decide equality; [apply Nat.eq_dec|]. decide equality; [apply tid_eq_dec|apply Nat.eq_dec]. Defined.

Lemma ecount_count_occ (e : dedge) l : ecount e l = count_occ edge_eq_dec l e.
Proof.
  unfold ecount. induction l as [|x l IH]; [reflexivity|]. cbn [filter count_occ].
  destruct (edge_eq_dec x e) as [->|Hne].
  - replace (edge_eqb e e) with true by (symmetry; apply edge_eqb_spec; reflexivity). cbn [length]. congruence.
  - destruct (edge_eqb e x) eqn:E; [apply edge_eqb_spec in E; congruence|exact IH].
Qed.

(* the two views of every edge, with the flows (task_ok of wf_program) *)
Lemma wf_edges P : wf_program P = true ->
  (forall t, In t (instances P) -> forall ft p fp, In (ft, p, fp) (pred_edges P t) ->
     In p (instances P) /\ ecount (fp, t, ft) (succ_edges P p) = ecount (ft, p, fp) (pred_edges P t))
  /\ (forall t, In t (instances P) -> forall ft s fs, In (ft, s, fs) (succ_edges P t) ->
     In s (instances P) /\ ecount (fs, t, ft) (pred_edges P s) = ecount (ft, s, fs) (succ_edges P t)).
Proof.
  unfold wf_program. intros H.
  repeat (apply andb_true_iff in H; destruct H as [H ?]).
  rename H1 into Htask.
  assert (Htask' : forall t, In t (instances P) -> task_ok P (instances P) t = true) by (apply forallb_forall; assumption).
  split.
  - intros t Ht ft p fp Hin. specialize (Htask' t Ht). unfold task_ok in Htask'.
    destruct (env_of P t) as [[c env]|]; [|discriminate].
    apply andb_true_iff in Htask'; destruct Htask' as [Htask' _].
    apply andb_true_iff in Htask'; destruct Htask' as [Htask' _].
    apply andb_true_iff in Htask'; destruct Htask' as [Htask' _].
    apply andb_true_iff in Htask'; destruct Htask' as [_ Hpr].
    rewrite forallb_forall in Hpr. specialize (Hpr _ Hin). cbv beta iota in Hpr.
    apply andb_true_iff in Hpr. destruct Hpr as [Hm Hc]. split; [apply mem_In; assumption|apply Nat.eqb_eq; assumption].
  - intros t Ht ft s fs Hin. specialize (Htask' t Ht). unfold task_ok in Htask'.
    destruct (env_of P t) as [[c env]|]; [|discriminate].
    apply andb_true_iff in Htask'; destruct Htask' as [Htask' _].
    apply andb_true_iff in Htask'; destruct Htask' as [Htask' _].
    apply andb_true_iff in Htask'; destruct Htask' as [_ Hsu].
    rewrite forallb_forall in Hsu. specialize (Hsu _ Hin). cbv beta iota in Hsu.
    apply andb_true_iff in Hsu. destruct Hsu as [Hm Hc]. split; [apply mem_In; assumption|apply Nat.eqb_eq; assumption].
Qed.

Lemma count_occ_filter_dec (g : dedge -> bool) l y :
  count_occ edge_eq_dec (filter g l) y = if g y then count_occ edge_eq_dec l y else 0.
Proof.
  induction l as [|a l IH]; [destruct (g y); reflexivity|]. cbn [filter].
  destruct (g a) eqn:Ea; cbn [count_occ]; destruct (edge_eq_dec a y) as [->|Hne]; rewrite ?IH.
  - rewrite Ea. reflexivity.
  - reflexivity.
  - rewrite Ea. reflexivity.
  - reflexivity.
Qed.

Lemma edge_perm P : wf_program P = true -> forall p x, In p (instances P) -> In x (instances P) ->
  Permutation (map (fun e : dedge => (e_oflow tid e, p, e_flow tid e))
                   (filter (fun e => teqb tid tid_eq_dec (e_task tid e) x) (succ_edges P p)))
              (filter (fun e => teqb tid tid_eq_dec (e_task tid e) p) (pred_edges P x)).
Proof.
  intros Hwf p x Hp Hx. destruct (wf_edges P Hwf) as [Hpr Hsu].
  apply (Permutation_count_occ edge_eq_dec). intros [[f q] k].
  rewrite count_occ_filter_dec. unfold DistEngine.e_task at 2. cbn [fst snd].
  assert (Hteq : forall a b, teqb tid tid_eq_dec a b = true <-> a = b).
  { intros a b. unfold DistEngine.teqb. destruct (tid_eq_dec a b); split; congruence. }
  (* left side: the occurrences of (k, x, f) among the successors of p when q = p *)
  assert (HL : count_occ edge_eq_dec (map (fun e : dedge => (e_oflow tid e, p, e_flow tid e))
                 (filter (fun e => teqb tid tid_eq_dec (e_task tid e) x) (succ_edges P p))) (f, q, k)
               = if teqb tid tid_eq_dec q p then count_occ edge_eq_dec (succ_edges P p) (k, x, f) else 0).
  { induction (succ_edges P p) as [|[[k' x'] f'] l IH].
    - cbn. destruct (teqb tid tid_eq_dec q p); reflexivity.
    - cbn [filter]. unfold DistEngine.e_task at 1. cbn [fst snd].
      destruct (teqb tid tid_eq_dec x' x) eqn:Ex.
      + apply Hteq in Ex. subst x'. cbn [map count_occ]. unfold DistEngine.e_oflow at 1, DistEngine.e_flow at 1. cbn [fst snd].
        rewrite IH. destruct (teqb tid tid_eq_dec q p) eqn:Eq.
        * apply Hteq in Eq. subst q.
          destruct (edge_eq_dec (f', p, k') (f, p, k)) as [He|He]; destruct (edge_eq_dec (k', x, f') (k, x, f)) as [He'|He']; try reflexivity.
          -- exfalso. apply He'. inversion He. reflexivity.
          -- exfalso. apply He. inversion He'. reflexivity.
        * destruct (edge_eq_dec (f', p, k') (f, q, k)) as [He|He]; [|reflexivity].
          exfalso. inversion He as [[Hx1 Hx2 Hx3]]. rewrite <- Hx2 in Eq. rewrite (proj2 (Hteq p p) eq_refl) in Eq. discriminate.
      + rewrite IH. destruct (teqb tid tid_eq_dec q p); [|reflexivity]. cbn [count_occ].
        destruct (edge_eq_dec (k', x', f') (k, x, f)) as [He|He]; [|reflexivity].
        exfalso. inversion He as [[Hx1 Hx2 Hx3]]. rewrite Hx2 in Ex. rewrite (proj2 (Hteq x x) eq_refl) in Ex. discriminate. }
  rewrite HL. destruct (teqb tid tid_eq_dec q p) eqn:Eq; [|reflexivity]. apply Hteq in Eq. subst q.
  rewrite <- !ecount_count_occ.
  destruct (in_dec edge_eq_dec (f, p, k) (pred_edges P x)) as [Hin|Hnin].
  - apply (Hpr x Hx f p k Hin).
  - assert (H0 : ecount (f, p, k) (pred_edges P x) = 0).
    { rewrite ecount_count_occ. apply count_occ_not_In. assumption. }
    rewrite H0. destruct (in_dec edge_eq_dec (k, x, f) (succ_edges P p)) as [Hin2|Hnin2].
    + destruct (Hsu p Hp k x f Hin2) as [_ Hc]. rewrite H0 in Hc. symmetry. exact Hc.
    + rewrite ecount_count_occ. apply count_occ_not_In. assumption.
Qed.

Lemma wf_dist_single P : wf_dist P = true -> forall t e1 e2, In t (instances P) ->
  In e1 (pred_edges P t) -> In e2 (pred_edges P t) -> e_flow tid e1 = e_flow tid e2 ->
  d_isctl P t (e_flow tid e1) = false -> e1 = e2.
Proof.
  unfold wf_dist. intros H t e1 e2 Ht H1 H2 Hf Hc.
  rewrite forallb_forall in H. specialize (H t Ht). rewrite forallb_forall in H. specialize (H e1 H1).
  rewrite forallb_forall in H. specialize (H e2 H2). rewrite Hf, Nat.eqb_refl in H. rewrite Hf in Hc. rewrite Hc in H.
  cbn [negb andb] in H. apply edge_eqb_spec. assumption.
Qed.

Lemma d_reads_data P t f : In f (d_reads P t) -> d_isctl P t f = false.
Proof.
  unfold d_reads, d_readsb, d_isctl. rewrite filter_In. intros [_ H]. destruct (cflow P t f) as [fl|]; [|discriminate].
  unfold is_ctl. destruct (f_mode fl); cbn in H; try discriminate; reflexivity.
Qed.

(* ------------------------------------------------------------------ the sequential reference *)
Lemma d_body_ext names P t k g g' : (forall f, g f = g' f) -> d_body names P t k g = d_body names P t k g'.
Proof.
  intros H. unfold d_body, DistEngine.body. destruct (d_isctl P t k); [reflexivity|].
  destruct (d_writes P t k); [|apply H]. f_equal. apply map_ext. assumption.
Qed.

Lemma in_edge_in P t f e : d_in_edge P t f = Some e -> In e (pred_edges P t) /\ e_flow tid e = f.
Proof. unfold d_in_edge, DistEngine.in_edge. intros H. apply find_some in H. destruct H as [H1 H2]. apply Nat.eqb_eq in H2. auto. Qed.

Section Reference.
  Variable names : list (list Z).
  Variable P : program.
  Hypothesis Hwf : wf_program P = true.

  Lemma pred_edge_rank t e : In t (instances P) -> In e (pred_edges P t) ->
    In (e_task tid e) (instances P) /\ ptg_rank P (e_task tid e) < ptg_rank P t.
  Proof.
    intros Ht He. destruct (wf_unpack P Hwf) as (_ & Hpr & _ & Hrk).
    assert (Hp : In (e_task tid e) (preds P t)) by (unfold preds; apply in_map_iff; exists e; auto).
    split; [apply (Hpr t Ht _ Hp)|apply (Hrk t _ Ht Hp)].
  Qed.

  Lemma rv_fuel : forall n m t k, In t (instances P) -> ptg_rank P t < n -> ptg_rank P t < m ->
    rv names P n t k = rv names P m t k.
  Proof.
    induction n as [|n IH]; intros m t k Ht Hn Hm; [lia|]. destruct m as [|m]; [lia|].
    cbn [rv]. apply d_body_ext. intros f. destruct (d_in_edge P t f) as [e|] eqn:E; [|reflexivity].
    destruct (in_edge_in P t f e E) as [He _]. destruct (pred_edge_rank t e Ht He) as [Hq Hlt].
    apply IH; [assumption|lia|lia].
  Qed.

  Lemma ref_out_eq t k : In t (instances P) -> ref_out names P t k = d_body names P t k (ref_in names P t).
  Proof.
    intros Ht. unfold ref_out at 1. cbn [rv]. apply d_body_ext. intros f. unfold ref_in.
    destruct (d_in_edge P t f) as [e|] eqn:E; [|reflexivity].
    destruct (in_edge_in P t f e E) as [He _]. destruct (pred_edge_rank t e Ht He) as [Hq Hlt].
    unfold ref_out. apply rv_fuel; [assumption|lia|lia].
  Qed.

  Lemma nth_map_seq (g : nat -> Z) N k : nth k (map g (seq 0 N)) (g k) = g k.
  Proof.
    destruct (lt_dec k N) as [Hlt|Hge].
    - rewrite (nth_indep _ _ (g 0)) by (rewrite map_length, seq_length; assumption).
      rewrite map_nth, seq_nth by assumption. reflexivity.
    - apply nth_overflow. rewrite map_length, seq_length. lia.
  Qed.

  Lemma sx_one_spec s t u k :
    sx_out (sx_one names P s t) u k = if tid_eq_dec u t then d_body names P t k (sx_in P s t) else sx_out s u k.
  Proof.
    unfold sx_one, sx_out. cbn [sx_find]. destruct (tid_eq_dec u t); [|reflexivity]. apply nth_map_seq.
  Qed.

  Lemma seq_fold : forall order seen s, check_order P seen order = true ->
    (forall u, In u seen -> In u (instances P) /\ forall k, sx_out s u k = ref_out names P u k) ->
    (forall u, In u order -> In u (instances P)) ->
    forall u, In u seen \/ In u order -> forall k, sx_out (fold_left (sx_one names P) order s) u k = ref_out names P u k.
  Proof.
    induction order as [|t r IH]; intros seen s Hc Hs Ho u Hu k.
    - cbn [fold_left]. destruct Hu as [Hu|[]]. apply (Hs u Hu).
    - cbn [check_order] in Hc. apply andb_true_iff in Hc. destruct Hc as [Hc1 Hc2]. cbn [fold_left].
      assert (Htin : In t (instances P)) by (apply Ho; left; reflexivity).
      apply (IH (t :: seen) (sx_one names P s t) Hc2).
      + intros v Hv. split; [destruct Hv as [<-|Hv]; [assumption|apply (Hs v Hv)]|]. intros j. rewrite sx_one_spec.
        destruct (tid_eq_dec v t) as [->|Hne].
        * rewrite (ref_out_eq t j Htin). apply d_body_ext. intros f. unfold sx_in, ref_in.
          destruct (d_in_edge P t f) as [e|] eqn:E; [|reflexivity].
          destruct (in_edge_in P t f e E) as [He _]. rewrite forallb_forall in Hc1.
          assert (Hp : In (e_task tid e) (preds P t)) by (unfold preds; apply in_map_iff; exists e; auto).
          specialize (Hc1 _ Hp). apply mem_In in Hc1. apply (Hs _ Hc1).
        * destruct Hv as [Hv|Hv]; [congruence|]. apply (Hs v Hv).
      + intros v Hv. apply Ho. right; assumption.
      + destruct Hu as [Hu|[<-|Hu]]; [left; right; assumption|left; left; reflexivity|right; assumption].
  Qed.

  Lemma topo_incl : incl (topo_order P) (instances P) /\ incl (instances P) (topo_order P)
                    /\ check_order P [] (topo_order P) = true.
  Proof.
    pose proof Hwf as H. unfold wf_program in H.
    repeat (apply andb_true_iff in H; destruct H as [H ?]).
    apply andb_true_iff in H0. destruct H0 as [H0 Hord]. apply andb_true_iff in H0. destruct H0 as [Hlen Hmem].
    apply Nat.eqb_eq in Hlen.
    assert (Hin : incl (instances P) (topo_order P)).
    { intros t Ht. rewrite forallb_forall in Hmem. apply mem_In. apply Hmem. assumption. }
    split; [|split; assumption].
    apply (NoDup_length_incl (nodupb_NoDup _ H2)); [lia|assumption].
  Qed.

  (* seq_exec computes the reference: the value of every flow of every instance *)
  Theorem seq_out_ref t k : In t (instances P) -> seq_out names P t k = ref_out names P t k.
  Proof.
    intros Ht. destruct topo_incl as (H1 & H2 & H3). unfold seq_out, seq_exec.
    apply (seq_fold (topo_order P) [] [] H3); [intros u []|intros u Hu; apply H1; assumption|right; apply H2; assumption].
  Qed.
  Theorem seq_in_ref t f : In t (instances P) -> seq_in names P t f = ref_in names P t f.
  Proof.
    intros Ht. unfold seq_in, sx_in, ref_in. destruct (d_in_edge P t f) as [e|] eqn:E; [|reflexivity].
    destruct (in_edge_in P t f e E) as [He _]. destruct (pred_edge_rank t e Ht He) as [Hq _].
    apply (seq_out_ref _ _ Hq).
  Qed.
  (* seq_exec is a solution of the dataflow equations *)
  Theorem seq_exec_equations t k : In t (instances P) ->
    seq_out names P t k = d_body names P t k (seq_in names P t)
    /\ forall f, seq_in names P t f = match d_in_edge P t f with
                                      | Some e => seq_out names P (e_task tid e) (e_oflow tid e)
                                      | None => d_srcv P t f end.
  Proof.
    intros Ht. split; [|reflexivity].
    rewrite (seq_out_ref t k Ht), (ref_out_eq t k Ht). apply d_body_ext. intros f. symmetry. apply seq_in_ref. assumption.
  Qed.
End Reference.

(* ------------------------------------------------------------------ the C05 theorems *)
Section Dist.
  Variable names : list (list Z).
  Variable P : program.
  Variable nranks : nat.
  Variable rank_of : tid -> nat.
  Variable parent : tid -> nat -> nat.
  Variable eager : tid -> nat -> nat -> bool.
  Variable depth : tid -> nat -> nat.
  Hypothesis Hwf : wf_program P = true.
  Hypothesis Hwd : wf_dist P = true.
  Hypothesis H_ranks : forall t, In t (instances P) -> rank_of t < nranks.
  Hypothesis H_tree : forall p d, In p (instances P) -> dist_isdest P rank_of d p = true ->
    (parent p d = rank_of p \/ dist_isdest P rank_of (parent p d) p = true) /\ depth p (parent p d) < depth p d.
  Hypothesis H_relay_holds : forall p d k, In p (instances P) -> dist_isdest P rank_of d p = true ->
    dist_needs P rank_of d p k = true -> parent p d = rank_of p \/ dist_needs P rank_of (parent p d) p k = true.

  Local Notation runP := (dist_run names P nranks rank_of parent eager).

  Lemma H_succ_in : forall p e, In p (instances P) -> In e (succ_edges P p) -> In (e_task tid e) (instances P).
  Proof.
    intros p e Hp He. destruct (wf_unpack P Hwf) as (_ & _ & Hsu & _).
    assert (Hs : In (e_task tid e) (succs P p)) by (unfold succs; apply in_map_iff; exists e; auto).
    apply (Hsu p Hp _ Hs).
  Qed.
  Lemma H_pred_in : forall t e, In t (instances P) -> In e (pred_edges P t) -> In (e_task tid e) (instances P).
  Proof. intros t e Ht He. apply (pred_edge_rank P Hwf t e Ht He). Qed.
  Lemma H_drank : forall t e, In t (instances P) -> In e (pred_edges P t) -> ptg_rank P (e_task tid e) < ptg_rank P t.
  Proof. intros t e Ht He. apply (pred_edge_rank P Hwf t e Ht He). Qed.
  Lemma H_refin : forall t f, ref_in names P t f = match DistEngine.in_edge tid (pred_edges P) t f with
                                                   | Some e => ref_out names P (e_task tid e) (e_oflow tid e)
                                                   | None => d_srcv P t f end.
  Proof. reflexivity. Qed.
  Lemma H_refout : forall t k, In t (instances P) ->
    ref_out names P t k = DistEngine.body tid (d_isctl P) (d_writes P) (d_reads P) (d_hashv names P) t k (ref_in names P t).
  Proof. intros t k Ht. apply (ref_out_eq names P Hwf t k Ht). Qed.

  (* theorems about every run / about quiescent states (the latter also use the DAG rank) *)
  Local Notation GENR thm :=
    (thm tid tid_eq_dec (instances P) (pred_edges P) (succ_edges P) (d_isctl P) (d_writes P) (d_reads P) (d_wlist P)
         (d_hashv names P) (d_srcv P) nranks rank_of parent eager
         (edge_perm P Hwf) H_succ_in (wf_dist_single P Hwd)
         (fun t f _ Hf => d_reads_data P t f Hf) H_ranks depth H_tree H_relay_holds
         (ref_in names P) (ref_out names P) H_refin H_refout).
  Local Notation GENQ thm :=
    (thm tid tid_eq_dec (instances P) (pred_edges P) (succ_edges P) (d_isctl P) (d_writes P) (d_reads P) (d_wlist P)
         (d_hashv names P) (d_srcv P) nranks rank_of parent eager
         (edge_perm P Hwf) H_succ_in H_pred_in (ptg_rank P) H_drank (wf_dist_single P Hwd)
         (fun t f _ Hf => d_reads_data P t f Hf) H_ranks depth H_tree H_relay_holds
         (ref_in names P) (ref_out names P) H_refin H_refout).

  Theorem ptgd_begins_once evs : NoDup (begins tid (log tid (runP evs))).
  Proof. exact (GENR dist_begins_once evs). Qed.

  Theorem ptgd_begin_on_owner evs t r vs : In (LBegin t r vs) (log tid (runP evs)) ->
    In t (instances P) /\ r = rank_of t /\ vs = map (seq_in names P t) (d_reads P t).
  Proof.
    intros H. destruct (GENR dist_begin_on_owner evs t r vs H) as (H1 & H2 & H3).
    split; [assumption|]. split; [assumption|]. rewrite H3. apply map_ext. intros f. symmetry. apply (seq_in_ref names P Hwf t f H1).
  Qed.

  Theorem ptgd_end_values evs t r ovs : In (LEnd t r ovs) (log tid (runP evs)) ->
    In t (instances P) /\ r = rank_of t /\ ovs = map (fun k => (k, seq_out names P t k)) (d_wlist P t).
  Proof.
    intros H. destruct (GENR dist_end_values evs t r ovs H) as (H1 & H2 & H3).
    split; [assumption|]. split; [assumption|]. rewrite H3. apply map_ext. intros k. rewrite (seq_out_ref names P Hwf t k H1). reflexivity.
  Qed.

  Theorem ptgd_no_failure evs : failed tid (runP evs) = false.
  Proof. exact (GENR dist_no_failure evs). Qed.

  Theorem ptgd_received_values evs d p k v : got tid (runP evs) d p k = Some v -> v = ref_out names P p k.
  Proof. exact (GENR dist_received_values evs d p k v). Qed.

  Theorem ptgd_quiescent_all_done evs : dist_quiescent P (runP evs) -> forall t, In t (instances P) -> st tid (runP evs) t = Done.
  Proof. exact (GENQ dist_quiescent_all_done evs). Qed.

  Theorem ptgd_complete_run evs : dist_quiescent P (runP evs) ->
    Permutation (begins tid (log tid (runP evs))) (instances P)
    /\ (forall t k, In t (instances P) -> state_out (runP evs) t k = seq_out names P t k)
    /\ forall ndata, final_data P (state_out (runP evs)) ndata = final_data P (seq_out names P) ndata.
  Proof.
    intros Q. destruct (wf_unpack P Hwf) as (Hnd & _).
    assert (Hout : forall t k, In t (instances P) -> state_out (runP evs) t k = seq_out names P t k).
    { intros t k Ht. unfold state_out, dist_run. rewrite (GENQ dist_quiescent_outputs evs Q t k Ht). symmetry. apply (seq_out_ref names P Hwf t k Ht). }
    split; [exact (GENQ dist_quiescent_executed_once evs Hnd Q)|]. split; [exact Hout|].
    intros ndata. unfold final_data. apply map_ext. intros i. unfold final_elem.
    destruct (unspecified P (Z.of_nat i)); [reflexivity|]. f_equal.
    destruct (find (defines P (Z.of_nat i)) (all_flows P)) as [[t f]|] eqn:E; [|reflexivity].
    apply find_some in E. destruct E as [E _]. unfold all_flows in E. apply in_flat_map in E. destruct E as (u & Hu & E).
    apply in_map_iff in E. destruct E as (g & Heq & _). inversion Heq; subst. apply Hout. assumption.
  Qed.
End Dist.

(* decision procedures for the hypotheses on a concrete configuration (used by the examples and by the model driver) *)
Definition tree_okb (P : program) (nranks : nat) (rank_of : tid -> nat) (parent : tid -> nat -> nat) (depth : tid -> nat -> nat) : bool :=
  forallb (fun p => forallb (fun d =>
     if dist_isdest P rank_of d p
     then (Nat.eqb (parent p d) (rank_of p) || dist_isdest P rank_of (parent p d) p) && Nat.ltb (depth p (parent p d)) (depth p d)
     else true) (seq 0 nranks)) (instances P).
Definition ranks_okb (P : program) (nranks : nat) (rank_of : tid -> nat) : bool :=
  forallb (fun t => Nat.ltb (rank_of t) nranks) (instances P).

Lemma ranks_okb_sound P nranks rank_of : ranks_okb P nranks rank_of = true -> forall t, In t (instances P) -> rank_of t < nranks.
Proof. unfold ranks_okb. rewrite forallb_forall. intros H t Ht. apply Nat.ltb_lt. apply H. assumption. Qed.

Lemma isdest_bound P nranks rank_of : wf_program P = true -> ranks_okb P nranks rank_of = true ->
  forall p d, In p (instances P) -> dist_isdest P rank_of d p = true -> d < nranks.
Proof.
  intros Hwf Hr p d Hp H. unfold dist_isdest, DistEngine.isdest in H. apply andb_true_iff in H. destruct H as [_ H].
  apply existsb_exists in H. destruct H as (e & He & Hd). apply Nat.eqb_eq in Hd. subst d.
  apply (ranks_okb_sound P nranks rank_of Hr). apply (H_succ_in P Hwf p e Hp He).
Qed.

Lemma tree_okb_sound P nranks rank_of parent depth : wf_program P = true -> ranks_okb P nranks rank_of = true ->
  tree_okb P nranks rank_of parent depth = true ->
  forall p d, In p (instances P) -> dist_isdest P rank_of d p = true ->
    (parent p d = rank_of p \/ dist_isdest P rank_of (parent p d) p = true) /\ depth p (parent p d) < depth p d.
Proof.
  intros Hwf Hr H p d Hp Hd. unfold tree_okb in H. rewrite forallb_forall in H. specialize (H p Hp).
  rewrite forallb_forall in H. specialize (H d). rewrite Hd in H.
  assert (Hin : In d (seq 0 nranks)) by (apply in_seq; pose proof (isdest_bound P nranks rank_of Hwf Hr p d Hp Hd); lia).
  specialize (H Hin). apply andb_true_iff in H. destruct H as [H1 H2]. apply Nat.ltb_lt in H2. split; [|assumption].
  apply orb_true_iff in H1. destruct H1 as [H1|H1]; [left; apply Nat.eqb_eq; assumption|right; assumption].
Qed.

Lemma relay_holdsb_sound P nranks rank_of parent : wf_program P = true -> ranks_okb P nranks rank_of = true ->
  relay_holdsb P nranks rank_of parent = true ->
  forall p d k, In p (instances P) -> dist_isdest P rank_of d p = true -> dist_needs P rank_of d p k = true ->
    parent p d = rank_of p \/ dist_needs P rank_of (parent p d) p k = true.
Proof.
  intros Hwf Hr H p d k Hp Hd Hk. unfold relay_holdsb in H. rewrite forallb_forall in H. specialize (H p Hp).
  rewrite forallb_forall in H.
  assert (Hin : In d (seq 0 nranks)) by (apply in_seq; pose proof (isdest_bound P nranks rank_of Hwf Hr p d Hp Hd); lia).
  specialize (H d Hin). rewrite forallb_forall in H.
  assert (Hko : In k (oflows tid (succ_edges P) p)).
  { unfold dist_needs, DistEngine.needs in Hk. apply existsb_exists in Hk. destruct Hk as (e & He & Hk).
    apply andb_true_iff in Hk. destruct Hk as [Hk _]. apply Nat.eqb_eq in Hk. subst k.
    unfold oflows. apply nodup_In. apply in_map. assumption. }
  specialize (H k Hko). rewrite Hd, Hk in H. cbn [andb] in H.
  apply orb_true_iff in H. destruct H as [H|H]; [left; apply Nat.eqb_eq; assumption|right; assumption].
Qed.
