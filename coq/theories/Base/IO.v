(* Forces the numeric datatypes into every extraction so that ocaml/vio.inc
   compiles against any extracted module. *)
From Coq Require Import ZArith NArith.
Definition io_witness (z : Z) (n : N) (k : nat) (p : positive) : (Z * N) * (nat * positive) :=
  ((Z.add z z, N.mul (N.add n n) n), (k, p)).
