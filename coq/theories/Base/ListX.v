(* List update / counting lemmas shared by the atomic-step concurrency models:
   a configuration holds a list of per-thread program counters; one step
   replaces the entry of the scheduled thread. *)
From PV Require Import Base.Tac.
Local Open Scope Z_scope.

Section Upd.
Context {A : Type}.

Definition upd (l : list A) (t : nat) (p : A) : list A :=
  firstn t l ++ p :: skipn (S t) l.

Definition cnt (f : A -> bool) (l : list A) : Z := Z.of_nat (length (filter f l)).

Lemma cnt_app f a b : cnt f (a ++ b) = cnt f a + cnt f b.
Proof. unfold cnt. rewrite filter_app, app_length. lia. Qed.
Lemma cnt_cons f x l : cnt f (x :: l) = (if f x then 1 else 0) + cnt f l.
Proof. unfold cnt; simpl; destruct (f x); simpl length; lia. Qed.
Lemma cnt_nil f : cnt f [] = 0. Proof. reflexivity. Qed.
Lemma cnt_nonneg f l : 0 <= cnt f l. Proof. unfold cnt; lia. Qed.
Lemma cnt_le_len f l : cnt f l <= Z.of_nat (length l).
Proof. unfold cnt. induction l as [|x l IH]; simpl; [lia|]. destruct (f x); simpl length; lia. Qed.

Lemma split_nth (l : list A) t p : nth_error l t = Some p ->
  l = firstn t l ++ p :: skipn (S t) l.
Proof.
  revert t; induction l as [|x l IH]; intros [|t] H; simpl in *; try discriminate.
  - now inversion H.
  - f_equal. now apply IH.
Qed.

Lemma cnt_upd f l t p q : nth_error l t = Some p ->
  cnt f (upd l t q) = cnt f l - (if f p then 1 else 0) + (if f q then 1 else 0).
Proof.
  intros H. unfold upd. rewrite (split_nth l t p H) at 3.
  rewrite !cnt_app, !cnt_cons. lia.
Qed.
Lemma len_upd l t p q : nth_error l t = Some p -> length (upd l t q) = length l.
Proof.
  intros H. unfold upd. rewrite (split_nth l t p H) at 3.
  rewrite !app_length. simpl. lia.
Qed.

Lemma nth_upd_same l t p q : nth_error l t = Some p -> nth_error (upd l t q) t = Some q.
Proof.
  intros H. unfold upd.
  assert (Hl : length (firstn t l) = t).
  { apply firstn_length_le. apply Nat.lt_le_incl. apply nth_error_Some. congruence. }
  rewrite nth_error_app2 by lia. rewrite Hl, Nat.sub_diag. reflexivity.
Qed.

Lemma nth_upd_other l t u p q : nth_error l t = Some p -> u <> t ->
  nth_error (upd l t q) u = nth_error l u.
Proof.
  intros H Hne. unfold upd. rewrite (split_nth l t p H) at 3.
  assert (Hl : length (firstn t l) = t).
  { apply firstn_length_le. apply Nat.lt_le_incl. apply nth_error_Some. congruence. }
  destruct (Nat.lt_ge_cases u t) as [Hlt|Hge].
  - rewrite !nth_error_app1 by lia. reflexivity.
  - rewrite !nth_error_app2 by lia. rewrite Hl.
    destruct (u - t)%nat as [|k] eqn:E; [lia|]. reflexivity.
Qed.

(* a thread that is not counted by [f] leaves room: cnt f l <= length l - 1 *)
Lemma cnt_lt_len f l t p : nth_error l t = Some p -> f p = false ->
  cnt f l <= Z.of_nat (length l) - 1.
Proof.
  intros Hp Hf. pose proof (split_nth _ _ _ Hp) as Hsp.
  assert (Hl : Z.of_nat (length l) =
               Z.of_nat (length (firstn t l)) + 1 + Z.of_nat (length (skipn (S t) l))).
  { rewrite Hsp at 1. rewrite app_length. simpl length. lia. }
  assert (Hc : cnt f l = cnt f (firstn t l) + cnt f (skipn (S t) l)).
  { rewrite Hsp at 1. rewrite cnt_app, cnt_cons, Hf. lia. }
  pose proof (cnt_le_len f (firstn t l)). pose proof (cnt_le_len f (skipn (S t) l)). lia.
Qed.

Lemma cnt_pos_of_nth f l t p : nth_error l t = Some p -> f p = true -> 0 < cnt f l.
Proof.
  intros Hp Hf. rewrite (split_nth _ _ _ Hp), cnt_app, cnt_cons, Hf.
  pose proof (cnt_nonneg f (firstn t l)). pose proof (cnt_nonneg f (skipn (S t) l)). lia.
Qed.

Lemma cnt_zero_all f l : cnt f l = 0 -> forall t p, nth_error l t = Some p -> f p = false.
Proof.
  intros H t p Hp. destruct (f p) eqn:E; [|reflexivity].
  pose proof (cnt_pos_of_nth f l t p Hp E). lia.
Qed.

Lemma cnt_full_all f l : cnt f l = Z.of_nat (length l) -> forall t p, nth_error l t = Some p -> f p = true.
Proof.
  intros H t p Hp. destruct (f p) eqn:E; [reflexivity|].
  pose proof (cnt_lt_len f l t p Hp E). lia.
Qed.

Lemma cnt_repeat f x n : cnt f (repeat x n) = if f x then Z.of_nat n else 0.
Proof. induction n as [|n IH]; [destruct (f x); reflexivity|].
  cbn [repeat]. rewrite cnt_cons, IH. destruct (f x); lia. Qed.

Lemma cnt_map {B} (g : B -> A) f l : cnt f (map g l) = Z.of_nat (length (filter (fun x => f (g x)) l)).
Proof. unfold cnt. induction l as [|x l IH]; [reflexivity|]. cbn [map filter].
  destruct (f (g x)); cbn [length]; lia. Qed.
End Upd.

Section Exists.
Context {A : Type}.
Lemma exists_false (f : A -> bool) l : cnt f l <= Z.of_nat (length l) - 1 ->
  exists u q, nth_error l u = Some q /\ f q = false.
Proof.
  induction l as [|x l IH]; intros H.
  - rewrite cnt_nil in H. simpl in H. lia.
  - destruct (f x) eqn:E.
    + rewrite cnt_cons, E in H. cbn [length] in H.
      destruct IH as (u & q & Hu & Hq); [lia|]. exists (S u), q. auto.
    + exists 0%nat, x. auto.
Qed.

Lemma exists_other_false (f : A -> bool) l t : cnt f l <= Z.of_nat (length l) - 2 ->
  exists u q, u <> t /\ nth_error l u = Some q /\ f q = false.
Proof.
  revert t. induction l as [|x l IH]; intros t H.
  - rewrite cnt_nil in H. simpl in H. lia.
  - rewrite cnt_cons in H. cbn [length] in H. destruct t as [|t].
    + destruct (exists_false f l) as (u & q & Hu & Hq); [destruct (f x); lia|].
      exists (S u), q. repeat split; auto.
    + destruct (f x) eqn:E.
      * destruct (IH t) as (u & q & Hne & Hu & Hq); [lia|].
        exists (S u), q. repeat split; auto.
      * exists 0%nat, x. repeat split; auto.
Qed.

Lemma nth_error_map_inv {B} (g : A -> B) l t y : nth_error (map g l) t = Some y ->
  exists x, nth_error l t = Some x /\ g x = y.
Proof.
  revert t; induction l as [|a l IH]; intros [|t] H; simpl in *; try discriminate.
  - inversion H. eauto.
  - eauto.
Qed.

Lemma map_upd {B} (g : A -> B) l t p q : nth_error l t = Some p -> g q = g p ->
  map g (upd l t q) = map g l.
Proof.
  intros H Hg. unfold upd. rewrite (split_nth l t p H) at 3.
  rewrite !map_app. cbn [map]. rewrite Hg. reflexivity.
Qed.

Lemma NoDup_nth_inj (l : list A) i j x : NoDup l ->
  nth_error l i = Some x -> nth_error l j = Some x -> i = j.
Proof.
  intros Hnd Hi Hj. rewrite NoDup_nth_error in Hnd. apply Hnd.
  - apply nth_error_Some. congruence.
  - congruence.
Qed.
End Exists.

Section Two.
Context {A : Type}.
Lemma cnt_two_false (f : A -> bool) l t u p q : t <> u ->
  nth_error l t = Some p -> f p = false -> nth_error l u = Some q -> f q = false ->
  cnt f l <= Z.of_nat (length l) - 2.
Proof.
  revert t u. induction l as [|x l IH]; intros t u Hne Ht Hp Hu Hq.
  - destruct t; discriminate.
  - rewrite cnt_cons. cbn [length]. destruct t as [|t], u as [|u]; try congruence.
    + cbn in Ht. inversion Ht; subst x. rewrite Hp. cbn in Hu.
      pose proof (cnt_lt_len f l u q Hu Hq). lia.
    + cbn in Hu. inversion Hu; subst x. rewrite Hq. cbn in Ht.
      pose proof (cnt_lt_len f l t p Ht Hp). lia.
    + cbn in Ht, Hu. assert (t <> u) by congruence.
      pose proof (IH t u H Ht Hp Hu Hq). destruct (f x); lia.
Qed.
End Two.
