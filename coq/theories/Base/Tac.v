(* Common tactics. *)
From Coq Require Export ZArith Lia List Bool Arith.
From Coq Require Export ZifyBool.
Export ListNotations.

(* one destruct per [if], then linear arithmetic *)
Ltac iflia := repeat match goal with
  | |- context[if ?b then _ else _] => destruct b eqn:?
  | H : context[if ?b then _ else _] |- _ => destruct b eqn:? end; lia.

Ltac inv H := inversion H; subst; clear H.

Lemma fold_left_inv {A B} (f : A -> B -> A) (P : A -> Prop) :
  (forall a b, P a -> P (f a b)) -> forall l a, P a -> P (fold_left f l a).
Proof. intros Hs l; induction l as [|x l IH]; intros a Ha; cbn [fold_left]; auto. Qed.
