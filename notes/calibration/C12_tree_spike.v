From Coq Require Import ZArith Lia List Bool.
Require Import ZifyBool.
Local Open Scope Z_scope.

Lemma mod_wrap x n : 0 < n -> 0 <= x < 2*n -> x mod n = if x <? n then x else x - n.
Proof.
  intros Hn Hx. destruct (x <? n) eqn:E.
  - apply Z.mod_small; lia.
  - symmetry; apply (Z.mod_unique_pos x n 1 (x - n)); lia.
Qed.

Definition shifted (n root me : Z) : Z := (me - root + n) mod n.
Definition nb_children (n s : Z) : Z :=
  if 2*s + 2 <? n then 2 else if 2*s + 1 <? n then 1 else 0.
Definition real_child (n root s i : Z) : Z := (2*s + i + 1 + root) mod n.
Definition sends (n root me i r : Z) : Prop :=
  0 <= i < nb_children n (shifted n root me) /\ real_child n root (shifted n root me) i = r.

Lemma shifted_spec n root me : 0 < n -> 0 <= root < n -> 0 <= me < n ->
  shifted n root me = if root <=? me then me - root else me - root + n.
Proof. intros; unfold shifted; rewrite mod_wrap by lia.
  destruct (me - root + n <? n) eqn:E1, (root <=? me) eqn:E2; lia. Qed.

Lemma unshift_spec n root x : 0 < n -> 0 <= root < n -> 0 <= x < n ->
  (x + root) mod n = if x + root <? n then x + root else x + root - n.
Proof. intros; apply mod_wrap; lia. Qed.

Theorem exactly_one_sender n root r :
  0 < n -> 0 <= root < n -> 0 <= r < n -> r <> root ->
  exists me i, 0 <= me < n /\ sends n root me i r /\
    forall me' i', 0 <= me' < n -> sends n root me' i' r -> me' = me /\ i' = i.
Proof.
  intros Hn Hroot Hr Hne.
  pose proof (shifted_spec n root r Hn Hroot Hr) as Hr'.
  set (r' := shifted n root r) in *.
  assert (Hr'r : 1 <= r' < n) by (destruct (root <=? r) eqn:E; lia).
  set (p' := (r' - 1) / 2). set (i := (r' - 1) mod 2).
  assert (Hp : r' - 1 = 2 * p' + i /\ 0 <= i < 2 /\ 0 <= p').
  { unfold p', i. pose proof (Z.div_mod (r'-1) 2). pose proof (Z.mod_pos_bound (r'-1) 2).
    assert (0 <= (r'-1)/2) by (apply Z.div_pos; lia). lia. }
  set (me := (p' + root) mod n).
  assert (Hp'n : 0 <= p' < n) by lia.
  pose proof (unshift_spec n root p' Hn Hroot Hp'n) as Hme_eq. fold me in Hme_eq.
  assert (Hme : 0 <= me < n) by (destruct (p' + root <? n) eqn:E; lia).
  assert (Hs : shifted n root me = p').
  { rewrite shifted_spec by lia. destruct (p' + root <? n) eqn:E1, (root <=? me) eqn:E2; lia. }
  exists me, i. split; [exact Hme|]. split.
  - unfold sends. rewrite Hs. unfold nb_children, real_child. split.
    + destruct (2 * p' + 2 <? n) eqn:E1; [|destruct (2 * p' + 1 <? n) eqn:E2]; lia.
    + replace (2 * p' + i + 1 + root) with (r' + root) by lia.
      rewrite unshift_spec by lia.
      destruct (r' + root <? n) eqn:E1, (root <=? r) eqn:E2; lia.
  - intros me' i' Hme' [Hi' Hc].
    pose proof (shifted_spec n root me' Hn Hroot Hme') as Hs'.
    set (s' := shifted n root me') in *.
    assert (Hs'r : 0 <= s' < n) by (destruct (root <=? me') eqn:E; lia).
    assert (Hi2 : 0 <= i' < 2 /\ 2 * s' + i' + 1 < n).
    { unfold nb_children in Hi'.
      destruct (2 * s' + 2 <? n) eqn:E1; [|destruct (2 * s' + 1 <? n) eqn:E2]; lia. }
    assert (Hrc : 2 * s' + i' + 1 = r').
    { unfold real_child in Hc.
      replace (2 * s' + i' + 1 + root) with ((2 * s' + i' + 1) + root) in Hc by lia.
      rewrite unshift_spec in Hc by lia.
      destruct (2 * s' + i' + 1 + root <? n) eqn:E1, (root <=? r) eqn:E2; lia. }
    assert (s' = p' /\ i' = i) by lia.
    split; [|lia].
    destruct (root <=? me') eqn:E1, (p' + root <? n) eqn:E2; lia.
Qed.

Theorem root_has_no_sender n root me i :
  0 < n -> 0 <= root < n -> 0 <= me < n -> ~ sends n root me i root.
Proof.
  intros Hn Hroot Hme [Hi Hc].
  pose proof (shifted_spec n root me Hn Hroot Hme) as Hs.
  set (s := shifted n root me) in *.
  assert (Hsr : 0 <= s < n) by (destruct (root <=? me) eqn:E; lia).
  unfold nb_children in Hi. unfold real_child in Hc.
  assert (Hb : 0 <= i < 2 /\ 2 * s + i + 1 < n)
    by (destruct (2 * s + 2 <? n) eqn:E1; [|destruct (2 * s + 1 <? n) eqn:E2]; lia).
  rewrite unshift_spec in Hc by lia.
  destruct (2 * s + i + 1 + root <? n) eqn:E; lia.
Qed.
Print Assumptions exactly_one_sender.
Print Assumptions root_has_no_sender.
