From Coq Require Import ZArith Lia List Bool Arith.
Import ListNotations.
Local Open Scope Z_scope.
Ltac iflia := repeat match goal with
  | |- context[if ?b then _ else _] => destruct b eqn:?
  | H : context[if ?b then _ else _] |- _ => destruct b eqn:? end; lia.

(* One release of parsec_update_deps_with_counter, cut at its shared accesses. *)
Inductive pc := Start | TryCAS | DoDec | Done (ready : bool).

Record cfg := { deps : Z; pcs : list pc }.

Definition upd (l : list pc) (t : nat) (p : pc) : list pc :=
  firstn t l ++ p :: skipn (S t) l.

Definition step (g : Z) (c : cfg) (t : nat) : cfg :=
  match nth_error (pcs c) t with
  | None => c
  | Some Start =>
      {| deps := deps c; pcs := upd (pcs c) t (if deps c =? 0 then TryCAS else DoDec) |}
  | Some TryCAS =>
      if deps c =? 0
      then {| deps := g - 1; pcs := upd (pcs c) t (Done (g - 1 =? 0)) |}
      else {| deps := deps c; pcs := upd (pcs c) t DoDec |}
  | Some DoDec =>
      {| deps := deps c - 1; pcs := upd (pcs c) t (Done (deps c - 1 =? 0)) |}
  | Some (Done _) => c
  end.

Definition run (g : Z) (c : cfg) (sched : list nat) : cfg := fold_left (step g) sched c.

Definition is_done (p : pc) : bool := match p with Done _ => true | _ => false end.
Definition is_ready (p : pc) : bool := match p with Done true => true | _ => false end.
Definition is_dec (p : pc) : bool := match p with DoDec => true | _ => false end.
Definition cnt (f : pc -> bool) (l : list pc) : Z := Z.of_nat (length (filter f l)).

Lemma cnt_app f a b : cnt f (a ++ b) = cnt f a + cnt f b.
Proof. unfold cnt. rewrite filter_app, app_length. lia. Qed.
Lemma cnt_cons f x l : cnt f (x :: l) = (if f x then 1 else 0) + cnt f l.
Proof. unfold cnt; simpl; destruct (f x); simpl length; lia. Qed.
Lemma cnt_nonneg f l : 0 <= cnt f l. Proof. unfold cnt; lia. Qed.
Lemma cnt_le_len f l : cnt f l <= Z.of_nat (length l).
Proof. unfold cnt. induction l as [|x l IH]; simpl; [lia|]. destruct (f x); simpl length; lia. Qed.

Lemma split_nth (l : list pc) t p : nth_error l t = Some p ->
  l = firstn t l ++ p :: skipn (S t) l.
Proof.
  revert t; induction l as [|x l IH]; intros [|t] H; simpl in *; try discriminate.
  - now inversion H.
  - f_equal. now apply IH.
Qed.

Lemma cnt_upd f l t p q : nth_error l t = Some p ->
  cnt f (upd l t q) = cnt f l - (if f p then 1 else 0) + (if f q then 1 else 0).
Proof.
  intros H. unfold upd. rewrite (split_nth l t p H) at 3.
  rewrite !cnt_app, !cnt_cons. lia.
Qed.
Lemma len_upd l t p q : nth_error l t = Some p -> length (upd l t q) = length l.
Proof.
  intros H. unfold upd. rewrite (split_nth l t p H) at 3.
  rewrite !app_length. simpl. lia.
Qed.

(* k = number of releases whose read-modify-write has happened *)
Definition Inv (g : Z) (c : cfg) : Prop :=
  let k := cnt is_done (pcs c) in
  Z.of_nat (length (pcs c)) = g /\
  (k = 0 -> deps c = 0) /\ (0 < k -> deps c = g - k) /\
  (0 < cnt is_dec (pcs c) -> 0 < k) /\
  cnt is_ready (pcs c) = (if k =? g then 1 else 0).

Lemma inv_step g c t : 0 < g -> Inv g c -> Inv g (step g c t).
Proof.
  intros Hg (Hlen & Hk0 & Hk & Hdec & Hrdy). unfold step.
  destruct (nth_error (pcs c) t) as [p|] eqn:E; [|repeat split; assumption].
  pose proof (cnt_nonneg is_done (pcs c)) as Hkn.
  pose proof (cnt_nonneg is_dec (pcs c)) as Hdn.
  assert (Hnd : forall p', nth_error (pcs c) t = Some p' -> is_done p' = false ->
                 cnt is_done (pcs c) <= g - 1).
  { intros p' Hp' Hf.
    pose proof (split_nth _ _ _ Hp') as Hsp.
    assert (Hl : Z.of_nat (length (pcs c)) =
                 Z.of_nat (length (firstn t (pcs c))) + 1 + Z.of_nat (length (skipn (S t) (pcs c)))).
    { rewrite Hsp at 1. rewrite app_length. simpl length. lia. }
    assert (Hc : cnt is_done (pcs c) =
                 cnt is_done (firstn t (pcs c)) + cnt is_done (skipn (S t) (pcs c))).
    { rewrite Hsp at 1. rewrite cnt_app, cnt_cons, Hf. lia. }
    pose proof (cnt_le_len is_done (firstn t (pcs c))).
    pose proof (cnt_le_len is_done (skipn (S t) (pcs c))). lia. }
  destruct p as [| | |r]; unfold Inv; cbn [deps pcs].
  - (* Start: only the pc changes *)
    pose proof (Hnd _ E eq_refl).
    destruct (deps c =? 0) eqn:Ez;
      rewrite ?(len_upd _ _ _ _ E), !(cnt_upd _ _ _ _ _ E); cbn [is_done is_dec is_ready];
      repeat split; try lia; iflia.
  - (* TryCAS *)
    pose proof (Hnd _ E eq_refl).
    destruct (deps c =? 0) eqn:Ez.
    + assert (cnt is_done (pcs c) = 0) by lia.
      cbn [deps pcs].
      rewrite ?(len_upd _ _ _ _ E), !(cnt_upd _ _ _ _ _ E); cbn [is_done is_dec is_ready].
      destruct (g - 1 =? 0) eqn:Eg; cbn [is_ready];
        repeat split; try lia; iflia.
    + cbn [deps pcs].
      rewrite ?(len_upd _ _ _ _ E), !(cnt_upd _ _ _ _ _ E); cbn [is_done is_dec is_ready].
      repeat split; try lia; iflia.
  - (* DoDec *)
    pose proof (Hnd _ E eq_refl).
    assert (0 < cnt is_dec (pcs c)).
    { rewrite (split_nth _ _ _ E), cnt_app, cnt_cons; cbn [is_dec].
      pose proof (cnt_nonneg is_dec (firstn t (pcs c))).
      pose proof (cnt_nonneg is_dec (skipn (S t) (pcs c))). lia. }
    rewrite ?(len_upd _ _ _ _ E), !(cnt_upd _ _ _ _ _ E); cbn [is_done is_dec is_ready].
    destruct (deps c - 1 =? 0) eqn:Eg; cbn [is_ready];
      repeat split; try lia; iflia.
  - repeat split; assumption.
Qed.

Definition init (g : Z) : cfg := {| deps := 0; pcs := repeat Start (Z.to_nat g) |}.

Lemma cnt_repeat_start f n : f Start = false -> cnt f (repeat Start n) = 0.
Proof. intros H; induction n; [reflexivity|]. simpl repeat. rewrite cnt_cons, H; lia. Qed.

Lemma inv_init g : 0 < g -> Inv g (init g).
Proof.
  intros Hg. unfold Inv, init; cbn [deps pcs].
  rewrite repeat_length, !cnt_repeat_start by reflexivity.
  repeat split; try lia. destruct (0 =? g) eqn:E; lia.
Qed.

Theorem counter_exactly_once g sched : 0 < g ->
  let c := run g (init g) sched in
  cnt is_ready (pcs c) <= 1 /\
  (cnt is_ready (pcs c) = 1 <-> cnt is_done (pcs c) = g).
Proof.
  intros Hg c.
  assert (H : Inv g c).
  { unfold c, run. generalize (inv_init g Hg). generalize (init g).
    induction sched as [|t s IH]; intros c0 H0; [exact H0|].
    cbn [fold_left]. apply IH, inv_step; assumption. }
  destruct H as (_ & _ & _ & _ & Hr).
  destruct (cnt is_done (pcs c) =? g) eqn:E; split; try split; lia.
Qed.
Print Assumptions counter_exactly_once.
