import itertools, sys
from collections import deque
# state: window tuple (req ids), posted tuple of (req, matched bool) in posting order, req_idx
def refill(win, in_ts, req_idx, P, T):
    win=[w for w in win if w is not None]
    in_ts=list(in_ts)
    while len(win)<T:
        for _ in range(P):
            if not in_ts[req_idx]: break
            req_idx=(req_idx+1)%P
        assert not in_ts[req_idx]
        win.append(req_idx); in_ts[req_idx]=True
        req_idx=(req_idx+1)%P
    return tuple(win), tuple(in_ts), req_idx
def explore(P,T,limit=2000000):
    win=tuple(range(T)); in_ts=tuple(i<T for i in range(P)); posted=tuple((i,False) for i in range(P)); ridx=T%P
    init=(win,in_ts,posted,ridx)
    seen={init:None}; q=deque([init]); stall=None; fifo=None
    while q:
        s=q.popleft()
        win,in_ts,posted,ridx=s
        matched=[r for r,m in posted if m]
        inwin=[r for r in win if r in matched]
        # stall: some matched outside window, none matched in window
        if matched and not inwin and stall is None:
            stall=s
        # order mismatch: window order of matched vs posting order
        if len(inwin)>=2:
            order=[r for r,m in posted if m and r in win]
            if order!=inwin and fifo is None: fifo=s
        succ=[]
        # match
        for k,(r,m) in enumerate(posted):
            if not m:
                np=list(posted); np[k]=(r,True); succ.append(('match',(win,in_ts,tuple(np),ridx))); break
        # report nonempty subsets of inwin
        for n in range(1,len(inwin)+1):
            for sub in itertools.combinations(inwin,n):
                w=list(win); it=list(in_ts); po=list(posted)
                for slot,r in enumerate(win):   # serve in slot order
                    if r in sub:
                        po=[x for x in po if x[0]!=r]+[(r,False)]
                        it[r]=False; w[slot]=None
                nw,nit,nr=refill(w,it,ridx,P,T)
                succ.append(('rep%s'%(sub,),(nw,nit,tuple(po),nr)))
        for lab,t in succ:
            if t not in seen:
                seen[t]=(s,lab); q.append(t)
                if len(seen)>limit: return seen,stall,fifo
    return seen,stall,fifo
def path(seen,s):
    out=[]
    while seen[s] is not None:
        p,lab=seen[s]; out.append((lab,s)); s=p
    return out[::-1]
for P,T in [(1,1),(2,1),(2,2),(3,1),(3,2),(3,3),(4,2),(4,3),(5,2),(5,3),(6,3)]:
    seen,stall,fifo=explore(P,T)
    print(P,T,len(seen),'stall' if stall else '-', 'fifo' if fifo else '-')
    if stall and P<=4:
        for lab,s in path(seen,stall): print('   ',lab,s[0],s[2],s[3])
