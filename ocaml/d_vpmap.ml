open Vpmap
open Vio
(* C40 model driver: same case file as harness/h_vpmap.c, same observation lines *)
let chars s = List.init (String.length s) (String.get s)
let unescape s =
  let b = Buffer.create (String.length s) in
  let n = String.length s in
  let i = ref 0 in
  while !i < n do
    (if s.[!i] = '\\' && !i + 1 < n then begin
       incr i;
       Buffer.add_char b (match s.[!i] with 'n' -> '\n' | 't' -> '\t' | c -> c) end
     else Buffer.add_char b s.[!i]);
    incr i
  done;
  Buffer.contents b

(* hwloc_bitmap_list_asprintf *)
let show_set = function
  | Null -> "null"
  | Full -> "0-"
  | Fin l ->
    let l = List.sort_uniq compare (List.map int_of_z l) in
    let rec runs = function
      | [] -> []
      | x :: t ->
        let rec ext y = function z :: r when z = y + 1 -> ext z r | r -> (y, r) in
        let (y, r) = ext x t in
        (if x = y then string_of_int x else Printf.sprintf "%d-%d" x y) :: runs r in
    String.concat "," (runs l)
let show_thread t = Printf.sprintf " [%d,%d,%s]" (int_of_z t.t_nbcores) (int_of_z t.t_ht) (show_set t.t_set)
let show_outcome = function
  | Crash -> "CRASH"
  | Fatal -> "FATAL"
  | Unmodelled -> "UNMODELLED"
  | Map (n, tot, vps) ->
    Printf.sprintf "vps=%d total=%d" (int_of_z n) (int_of_z tot)
    ^ String.concat "" (List.map (fun ths ->
        Printf.sprintf " | %d:" (List.length ths) ^ String.concat "" (List.map show_thread ths)) vps)

(* the first k blank-separated words and the rest after exactly one blank *)
let split_head line k =
  let n = String.length line in
  let rec go i k acc =
    if k = 0 then (List.rev acc, if i < n then String.sub line i (n - i) else "")
    else begin
      let j = try String.index_from line i ' ' with Not_found -> n in
      go (min n (j + 1)) (k - 1) (String.sub line i (j - i) :: acc) end in
  go 0 k []

let () =
  iter_cases Sys.argv.(1) (fun line ->
    let zi s = z_of_int (int_of_string s) in
    if String.length line > 5 && String.sub line 0 5 = "init " then begin
      match split_head line 4 with
      | ([_; r; sing; nb], rest) ->
        let spec = if String.length rest >= 2 && String.sub rest 0 2 = "S:"
          then Some (chars (String.sub rest 2 (String.length rest - 2))) else None in
        show_outcome (vpmap_init spec None (zi nb) (zi r) (zi sing))
      | _ -> "<bad case>" end
    else if String.length line > 5 && String.sub line 0 5 = "file " then begin
      match split_head line 5 with
      | ([_; r; sing; nb; pfx], rest) ->
        let name = "file:/tmp/x" in
        let spec = if pfx = "display" then "display:" ^ name else name in
        show_outcome (vpmap_init (Some (chars spec)) (Some (chars (unescape rest))) (zi nb) (zi r) (zi sing))
      | _ -> "<bad case>" end
    else if String.length line > 7 && String.sub line 0 7 = "nofile " then begin
      match words line with
      | [_; r; sing; nb] -> show_outcome (vpmap_init (Some (chars "file:/nonexistent")) None (zi nb) (zi r) (zi sing))
      | _ -> "<bad case>" end
    else if String.length line > 5 && String.sub line 0 5 = "bind " then begin
      match split_head line 3 with
      | ([_; r; nbth], rest) ->
        (match parse_binding (zi r) (nat_of_int (int_of_string nbth)) (chars rest) with
         | BOk ths -> "bind:" ^ String.concat "" (List.map show_thread ths)
         | BFatal -> "FATAL"
         | BSmash -> "SMASH")
      | _ -> "<bad case>" end
    else if String.length line > 6 && String.sub line 0 6 = "pinit " then begin
      match split_head line 2 with
      | ([_; nb], rest) ->
        (* through parsec_init: counts only; the machine has at least nb binding resources (plugin's assumption) *)
        (match vpmap_init (Some (chars rest)) None (zi nb) (z_of_int 1024) (z_of_int 0) with
         | Crash -> "CRASH"
         | Fatal -> "FATAL"
         | Unmodelled -> "UNMODELLED"
         | Map (n, tot, vps) ->
           Printf.sprintf "vps=%d total=%d ctx_vps=%d" (int_of_z n) (int_of_z tot) (int_of_z n)
           ^ String.concat "" (List.map (fun ths -> Printf.sprintf " | %d/%d" (List.length ths) (List.length ths)) vps))
      | _ -> "<bad case>" end
    else if String.length line > 6 && String.sub line 0 6 = "cinit " then begin
      (* the user path under a restricted process cpuset: the core of every thread *)
      match words line with
      | _ :: nb :: sing :: cpus :: rest when List.length rest <= 1 ->
        let numcores = match rest with [x] -> int_of_string x | _ -> 0 in
        let allowed = List.sort_uniq compare (List.map int_of_string (String.split_on_char ',' cpus)) in
        (match user_flat_bindings_nc (List.map z_of_int allowed) (zi sing) (zi nb) (z_of_int numcores) with
         | None -> "CRASH"
         | Some cores ->
           Printf.sprintf "vps=1 total=%d |" (List.length cores)
           ^ String.concat "" (List.map (fun c -> Printf.sprintf " %d:ok" (int_of_z c)) cores))
      | _ -> "<bad case>" end
    else if String.length line > 3 && String.sub line 0 3 = "hw " then begin
      (* hw S C nb sing: parsec_vpmap_init("hwloc", nb) on the synthetic machine pack:S core:C pu:1 *)
      match words line with
      | [_; s_; c; nb; sing] ->
        let s_ = int_of_string s_ and c = int_of_string c in
        show_outcome (hwloc_map (List.init s_ (fun _ -> z_of_int c)) (z_of_int (s_ * c)) (zi sing) (zi nb))
      | _ -> "<bad case>" end
    else if String.length line > 4 && String.sub line 0 4 = "phw " then begin
      (* phw S C nb: the same through parsec_init (which caps nb at the number of cores), counts only *)
      match words line with
      | [_; s_; c; nb] ->
        let s_ = int_of_string s_ and c = int_of_string c in
        let r = z_of_int (s_ * c) in
        (match hwloc_map (List.init s_ (fun _ -> z_of_int c)) r (z_of_int 0) (init_nb r (zi nb)) with
         | Map (n, _, vps) ->
           Printf.sprintf "ctx_vps=%d" (int_of_z n)
           ^ String.concat "" (List.map (fun ths -> Printf.sprintf " | %d/%d" (List.length ths) (List.length ths)) vps)
         | o -> show_outcome o)
      | _ -> "<bad case>" end
    else "<bad case>")
