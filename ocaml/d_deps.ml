open Deps
open Vio
(* same case syntax as harness/h_deps.c *)
let parse_flows v =
  match v with
  | [] -> []
  | nf :: rest ->
    let rest = ref rest in
    let next () = match !rest with x :: r -> rest := r; x | [] -> failwith "short flow list" in
    List.init nf (fun _ ->
      let ctl = next () in let idx = next () in let hasin = next () in let nd = next () in
      let ds = List.init nd (fun _ ->
        let cond = next () in let local = next () in let gather = next () in
        { d_cond = (if cond < 0 then None else Some (cond <> 0));
          d_local = (local <> 0);
          d_gather = (if gather < 0 then None else Some (z_of_int (gather land 7))) }) in
      { f_ctl = (ctl <> 0); f_index = n_of_int idx; f_has_in = (hasin <> 0); f_deps = ds })

let run_sched step is_done pcs_of c0 nt sched =
  let c = ref c0 in
  let steps = Array.make nt 0 in
  let done_ t = match List.nth_opt (pcs_of !c) t with Some p -> is_done p | None -> true in
  let st t = if t >= 0 && t < nt && not (done_ t) then begin
      steps.(t) <- steps.(t) + 1; c := step !c (nat_of_int t) end in
  List.iter st sched;
  let k = ref 0 and dl = ref false in
  let all_done () = List.for_all is_done (pcs_of !c) in
  while not (all_done ()) && not !dl do
    for t = 0 to nt - 1 do st t done;
    incr k; if !k > 1000 then dl := true
  done;
  (!c, steps, !dl)

let () =
  iter_cases Sys.argv.(1) (fun line ->
    match split_on '|' line with
    | hd :: fl :: th :: sc :: _ ->
      let hw = words hd in
      let mode = List.hd hw in
      let a0 = int_of_string (List.nth hw 1) and a1 = int_of_string (List.nth hw 2) in
      let flows = parse_flows (ints fl) in
      let sched = ints sc in
      let bools l f = String.concat "" (List.map (fun p -> if f p then " 1" else " 0") l) in
      let stepstr a = String.concat "" (Array.to_list (Array.map (fun s -> " " ^ string_of_int s) a)) in
      if mode = "ctr" then begin
        let nt = (match ints th with n :: _ -> n | [] -> 0) in
        let g = counter_goal (a0 <> 0) (z_of_int a1) flows in
        let (c, steps, dl) = run_sched (cstep g) c_is_done (fun c -> c.cpcs) (cinit (nat_of_int nt)) nt sched in
        "ready:" ^ bools c.cpcs c_is_ready ^ " | deps=" ^ string_of_int (int_of_z c.cdeps)
        ^ " | steps:" ^ stepstr steps ^ " | goal=" ^ string_of_int (int_of_z g) ^ (if dl then " <deadlock>" else "")
      end else begin
        let idxs = ints th in
        let nt = List.length idxs in
        let inm = mask_in (a0 <> 0) flows in
        let (c, steps, dl) = run_sched (mstep (n_of_int a1) inm) m_is_done (fun c -> c.mpcs)
            (minit (List.map n_of_int idxs)) nt sched in
        "ready:" ^ bools c.mpcs m_is_ready ^ " | deps=" ^ string_of_int (int_of_n c.mdeps)
        ^ " | steps:" ^ stepstr steps ^ " | in=" ^ string_of_int (int_of_n inm) ^ (if dl then " <deadlock>" else "")
      end
    | _ -> "<bad case>")
