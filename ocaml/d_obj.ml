open Obj
open Vio
(* same case syntax and output as harness/h_obj.c *)
let maxd = 6 and cos_max = 32 and maxops = 256

exception Bad

let build_cls d flags =
  (* level 1 derives from parsec_object_t (no constructor, no destructor); level d is the object's class *)
  let rec go i fl acc =
    if i > d then acc else
    match fl with
    | c :: dd :: rest ->
      let f b = if b <> 0 then Some (nat_of_int i) else None in
      go (i + 1) rest (Derived (f c, f dd, acc))
    | _ -> raise Bad in
  go 1 flags (Base (None, None))

let parse_threads v =
  match v with
  | [] -> raise Bad
  | nt :: rest ->
    if nt < 0 || nt > cos_max then raise Bad;
    let rest = ref rest in
    let next () = match !rest with x :: r -> rest := r; x | [] -> raise Bad in
    List.init nt (fun _ ->
      let h = next () in let n = next () in
      if n < 0 || n > maxops || h < 0 then raise Bad;
      let ops = List.init n (fun _ -> if next () <> 0 then Retain else Release) in
      (h, ops))

let run_sched dt c0 nt sched =
  let c = ref c0 in
  let steps = Array.make nt 0 in
  let done_ t = match List.nth_opt (!c).o_thr t with Some th -> thr_done th | None -> true in
  let st t = if t >= 0 && t < nt && not (done_ t) then begin
      steps.(t) <- steps.(t) + 1; c := step dt !c (nat_of_int t) end in
  List.iter st sched;
  let k = ref 0 and dl = ref false in
  let all_done () = List.for_all thr_done (!c).o_thr in
  while not (all_done ()) && not !dl do
    for t = 0 to nt - 1 do st t done;
    incr k; if !k > 100000 then dl := true
  done;
  (!c, steps, !dl)

(* first-use cases: fu D flags | NT {nops op*}* | sched | 1 *)
let first_use line =
  match split_on '|' (String.sub line 2 (String.length line - 2)) with
  | hd :: th :: sc :: _ ->
    let d, flags = (match ints hd with d :: fl -> d, fl | [] -> raise Bad) in
    if d < 1 || d > maxd || List.length flags < 2 * d then raise Bad;
    let k = build_cls d flags in
    let opss = (match ints th with
      | nt :: rest ->
        if nt < 1 || nt > cos_max then raise Bad;
        let rest = ref rest in
        let next () = match !rest with x :: r -> rest := r; x | [] -> raise Bad in
        List.init nt (fun _ -> let n = next () in
          if n < 0 || n > maxops then raise Bad;
          List.init n (fun _ -> if next () <> 0 then Retain else Release))
      | [] -> raise Bad) in
    let nt = List.length opss in
    let junk = (fun _ -> Some (nat_of_int 77)) in
    let c = ref (finit opss) in
    let steps = Array.make nt 0 in
    let done_ t = match List.nth_opt (!c).fc_thr t with Some th -> fthr_done th | None -> true in
    let st t = if t >= 0 && t < nt && not (done_ t) then begin
        steps.(t) <- steps.(t) + 1; c := fstep true junk k !c (nat_of_int t) end in
    List.iter st (ints sc);
    let r = ref 0 and dl = ref false in
    while not (List.for_all fthr_done (!c).fc_thr) && not !dl do
      for t = 0 to nt - 1 do st t done;
      incr r; if !r > 20000 then dl := true
    done;
    let ks = (!c).fc_k in
    let ev e = match e with
      | FCtor f -> " c" ^ string_of_int (int_of_nat f)
      | FUpd v -> " :" ^ string_of_int (int_of_z v)
      | FDtor f -> " d" ^ string_of_int (int_of_nat f)
      | FFree -> " F" in
    "fu depth=" ^ string_of_int (match ks.k_tab with Some ic -> int_of_nat ic.i_depth | None -> 0)
    ^ " inits=" ^ string_of_int (int_of_z ks.k_inits)
    ^ String.concat "" (List.mapi (fun t th -> " | t" ^ string_of_int t ^ ":" ^ String.concat "" (List.map ev th.f_ev)) (!c).fc_thr)
    ^ " | steps:" ^ String.concat "" (Array.to_list (Array.map (fun s -> " " ^ string_of_int s) steps))
    ^ (if !dl then " <deadlock>" else "")
  | _ -> "<bad case>"

let () =
  iter_cases Sys.argv.(1) (fun line ->
    try
      if String.length line >= 2 && String.sub line 0 2 = "fu" then first_use line else
      match split_on '|' line with
      | hd :: th :: sc :: _ ->
        let d, flags = (match ints hd with d :: fl -> d, fl | [] -> raise Bad) in
        if d < 1 || d > maxd || List.length flags < 2 * d then raise Bad;
        let k = build_cls d flags in
        let ths = parse_threads (ints th) in
        let total = List.fold_left (fun a (h, _) -> a + h) 0 ths in
        if total < 1 then raise Bad;
        let sched = ints sc in
        let nt = List.length ths in
        let ic = class_initialize (fun _ -> Some (nat_of_int 77)) k in
        let ctor = run_constructors ic and dt = run_destructors ic in
        let c0 = init (List.map (fun (h, ops) -> (z_of_int h, ops)) ths) in
        let (c, steps, dl) = run_sched dt c0 nt sched in
        let ids l = String.concat "" (List.map (fun f -> " " ^ string_of_int (int_of_nat f)) l) in
        let pre p l = String.concat "" (List.map (fun f -> " " ^ p ^ string_of_int (int_of_nat f)) l) in
        let ev e = match e with
          | EUpd (t, v) -> " " ^ string_of_int (int_of_nat t) ^ ":" ^ string_of_int (int_of_z v)
          | EDtor f -> " d" ^ string_of_int (int_of_nat f)
          | EFree -> " F" in
        "depth=" ^ string_of_int (int_of_nat ic.i_depth) ^ " | ctor:" ^ ids ctor
        ^ " | ev:" ^ String.concat "" (List.map ev c.o_trace)
        ^ " | destroys=" ^ string_of_int (int_of_z c.o_destroys) ^ " late=" ^ string_of_int (int_of_z c.o_late)
        ^ " rc=" ^ string_of_int (int_of_z c.o_rc)
        ^ " | steps:" ^ String.concat "" (Array.to_list (Array.map (fun s -> " " ^ string_of_int s) steps))
        ^ " | static:" ^ pre "c" ctor ^ pre "d" dt
        ^ (if dl then " <deadlock>" else "")
      | _ -> "<bad case>"
    with Bad | Failure _ -> "<bad case>")
