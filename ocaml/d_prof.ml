open Prof
open Vio
(* C42 model driver.  Same case syntax as harness/h_prof.c.  For case number i
   of the case file F it reads the profile F.d/c<i>-0.prof that the real writer
   produced (the harness ran first), and
   (1) runs the extracted reader model [decode] on those bytes and prints what
       it finds in the format of the harness (which printed what the real
       reader found in the same file);
   (2) runs the extracted writer model [enc_events] on the calls of the case
       (timestamps: the 8 bytes the real writer stored where the model places the
       record; offsets: those of the chain found in the file, the allocation
       being outside the model) and compares every
       events buffer with the bytes of the file: "enc=ok" or "enc=DIFF..".
   The file header is parsed here (it is outside the model). *)

let rec i64_of_pos = function
  | XH -> 1L
  | XO p -> Int64.shift_left (i64_of_pos p) 1
  | XI p -> Int64.add (Int64.shift_left (i64_of_pos p) 1) 1L
let str_of_n = function N0 -> "0" | Npos p -> Printf.sprintf "%Lu" (i64_of_pos p)
let rec nbits = function XH -> 1 | XO p | XI p -> 1 + nbits p
let int_of_n_sat = function N0 -> 0 | Npos p -> if nbits p > 60 then max_int else int_of_pos p
let str_of_bytes l =
  let b = Buffer.create 16 in
  List.iter (fun x -> Buffer.add_char b (Char.chr (int_of_n_sat x land 255))) l; Buffer.contents b
let fnv l = List.fold_left (fun h b -> ((h lxor (int_of_n_sat b land 255)) * 16777619) land 0xffffffff) 2166136261 l

let gstr tag j len =
  let pre = Printf.sprintf "%c%d_" tag j in
  String.init (max len 0) (fun m -> if m < String.length pre then pre.[m] else Char.chr (97 + ((j * 7 + m * 3) mod 26)))
let kname j b len =
  let g = gstr 'k' b len in
  String.mapi (fun m c -> if m >= 63 then Char.chr (65 + ((j + m) mod 26)) else c) g
let bytes_of_string s = List.init (String.length s) (fun i -> n_of_int (Char.code s.[i]))
let ibyte seed m = (seed * 31 + m * 7 + (m lsr 8) * 13 + 1) land 0xff

let get s o k =                      (* little-endian unsigned, k <= 7 bytes used *)
  let r = ref 0 in
  for i = k - 1 downto 0 do r := (!r lsl 8) lor Char.code s.[o + i] done; !r

let read_file path =
  try let ic = open_in_bin path in
      let n = in_channel_length ic in
      let s = really_input_string ic n in close_in ic; Some s
  with _ -> None

type ev = { sid : int; key : int; ufl : int; tp : string; id : string; info : int option }

let parse_case line =
  match split_on '|' line with
  | [hd; dict; infos; evs] ->
    (match ints hd with
     | [pages; mode; ns] ->
       let keys = List.map (fun w -> match List.map int_of_string (String.split_on_char ':' w) with
           | [a; b; c; d] -> (a, b, c, d, -1) | [a; b; c; d; e] -> (a, b, c, d, e) | _ -> failwith "bad key") (words dict) in
       let keys = List.mapi (fun j (a, b, c, d, e) -> (a, b, c, d, if e < 0 then j else e)) keys in
       let events = List.filter_map (fun t -> match words t with
           | [] -> None
           | [sid; key; ufl; tp; id; inf] ->
             Some { sid = int_of_string sid; key = int_of_string key; ufl = int_of_string ufl; tp; id;
                    info = if inf = "-" then None else Some (int_of_string inf) }
           | _ -> failwith "bad event") (String.split_on_char ';' evs) in
       (pages, mode, ns, keys, ints infos, events)
     | _ -> failwith "bad head")
  | _ -> failwith "bad case"

type loaded = Bad of string | Loaded of kent list * (kent list -> string)

(* one file: its own dictionary now, the rest once the merged dictionary of all the files opened together is known *)
let load path line : loaded =
    match (try Some (parse_case line) with _ -> None) with
    | None -> Bad "<bad case>"
    | Some (_pages, _mode, _ns, keys, _ninfos, events) ->
    let infos_of sid =
      let ni = (try List.nth _ninfos sid with _ -> 0) in
      if ni > 15 then [(bytes_of_string "big", bytes_of_string (String.make ni 'v'))]
      else List.rev (List.init ni (fun m ->
          (bytes_of_string (gstr 'i' (sid * 16 + m) (4 + (sid + m) mod 9)),
           bytes_of_string (gstr 'v' (sid * 16 + m) (3 + (sid * 5 + m * 11) mod 40))))) in
    match read_file path with
    | None -> Bad "<no profile file>"
    | Some s ->
      if Sys.getenv_opt "VERIF_KEEP" = None then (try Sys.remove path with _ -> ());
      let flen = String.length s in
      if flen < 224 then Bad "<file too small>" else
      if String.sub s 8 23 <> "#PARSEC BINARY PROFILE " then Bad "err=-3 <unreadable> | mono=1 rc=0 enc=ok" else
      let bufsize = get s 48 4 in
      let dn = get s 180 4 and doff = get s 184 7 and tn = get s 212 4 and toff = get s 216 7 in
      let file off =
        let o = int_of_n_sat off in
        if o < 0 || o >= flen || bufsize <= 0 then None
        else Some (List.init bufsize (fun i -> if o + i < flen then n_of_int (Char.code s.[o + i]) else N0)) in
      let nbuf = flen / (max bufsize 1) + 2 in
      (match decode_keys file (n_of_int doff) (nat_of_int dn) with
       | None -> Bad "err=-7 <unreadable> | mono=1 rc=0 enc=ok"
       | Some lkeys -> Loaded (lkeys, fun dkeys ->
       match decode_rest (nat_of_int nbuf) file (n_of_int toff) (nat_of_int tn) dkeys with
       | None -> "err=-8 <unreadable> | mono=1 rc=0 enc=ok"
       | Some ths ->
         let b = Buffer.create 4096 in
         Buffer.add_string b "err=0 D";
         List.iter (fun k ->
             Buffer.add_string b (Printf.sprintf " %s/%s/%s/%d" (str_of_bytes k.k_name) (str_of_bytes k.k_attr)
                                    (str_of_bytes (cstr k.k_conv)) (int_of_n_sat k.k_ilen))) dkeys;
         let mono = ref true in
         List.iter (fun (t, evs) ->
             Buffer.add_string b (Printf.sprintf " | %s n=%d I" (str_of_bytes t.t_hr) (int_of_n_sat t.t_nbev));
             List.iteri (fun i (k, v) ->
                 Buffer.add_string b (Printf.sprintf "%s%s=%s" (if i > 0 then "," else " ")
                                        (str_of_bytes k) (str_of_bytes v))) t.t_infos;
             Buffer.add_string b " :";
             let last = ref N0 in
             List.iter (fun e ->
                 (match e.e_info with
                  | Some bs -> Buffer.add_string b (Printf.sprintf " %d.%d.%s.%s.%d.%08x" (int_of_n_sat e.e_key)
                                                      (int_of_n_sat e.e_flags) (str_of_n e.e_tp) (str_of_n e.e_id)
                                                      (List.length bs) (fnv bs))
                  | None -> Buffer.add_string b (Printf.sprintf " %d.%d.%s.%s.-1.00000000" (int_of_n_sat e.e_key)
                                                   (int_of_n_sat e.e_flags) (str_of_n e.e_tp) (str_of_n e.e_id)));
                 if N.ltb e.e_ts !last then mono := false;
                 last := e.e_ts) evs) ths;
         (* --- the modelled writer against the bytes of the file --- *)
         let il_case = N0 :: List.map (fun (_, _, _, il, _) -> n_of_int il) keys in
         let ilen_case key = let bk = key / 2 in if bk >= 1 && bk <= List.length keys then
             (let (_, _, _, il, _) = List.nth keys (bk - 1) in il) else 0 in
         let avail = n_of_int (bufsize - 25) in
         let diff = ref "" in
         let note m = if !diff = "" then diff := m in
         let seen = Hashtbl.create 8 in
         List.iter (fun (t, devs) ->
             let hr = str_of_bytes t.t_hr in
             let sid = (try Scanf.sscanf hr "s%d%!" (fun i -> i) with _ -> -1) in
             Hashtbl.replace seen sid ();
             let mine = List.filter (fun e -> e.sid = sid) events in
             ignore devs;
             begin
               (* offsets of the chain as found in the file *)
               let rec chain off k acc =
                 if k = 0 || N.eqb off (n_of_string "18446744073709551615") then List.rev acc
                 else match file off with None -> List.rev acc | Some buf -> chain (b_next buf) (k - 1) (off :: acc) in
               let offs = Array.of_list (chain t.t_first nbuf []) in
               let alloc j = let j = int_of_nat j in
                 if j < Array.length offs then offs.(j) else n_of_string "18446744073709551614" in
               let mk c ts =
                 log_event { c_key = n_of_int c.key; c_id = n_of_string c.id; c_tp = n_of_string c.tp;
                             c_info = (match c.info with
                                 | None -> None
                                 | Some seed -> Some (List.init (ilen_case c.key) (fun m -> n_of_int (ibyte seed m))));
                             c_flags = n_of_int c.ufl } ts in
               (* the timestamp of a call is whatever the real writer stored where the modelled writer
                  places the record (buffer index and position come from the model's own state machine) *)
               let st = ref w_init in
               let evs = List.map (fun c ->
                   let e0 = mk c N0 in
                   let s' = w_put (ev_len il_case) ser_event true avail (n_of_int 1) alloc !st e0 in
                   st := s';
                   let bi = int_of_nat s'.w_idx and pos = int_of_n_sat s'.w_pos - int_of_n_sat (ev_len il_case e0) in
                   let ts = if bi < Array.length offs then
                       (let o = int_of_n_sat offs.(bi) + 25 + pos + 16 in
                        if o >= 0 && o + 8 <= flen then unle (List.init 8 (fun i -> n_of_int (Char.code s.[o + i]))) else N0)
                     else N0 in
                   mk c ts) mine in
               let out = enc_events il_case avail alloc evs in
               if List.length out <> Array.length offs then note (Printf.sprintf "DIFF:%s:nbuf=%d/%d" hr (List.length out) (Array.length offs))
               else List.iteri (fun j (off, bytes) ->
                   match file off with
                   | Some real when real = bytes -> ()
                   | Some real ->
                     let rec first i a c = match a, c with
                       | x :: a', y :: c' -> if x = y then first (i + 1) a' c' else i
                       | _ -> i in
                     note (Printf.sprintf "DIFF:%s:buf%d@byte%d" hr j (first 0 real bytes))
                   | None -> note (Printf.sprintf "DIFF:%s:buf%d:unreadable" hr j)) out
             end) ths;
         (* --- dictionary and thread table: the modelled table writer against the bytes of the file --- *)
         let chain_offsets first =
           let rec go off k acc =
             if k = 0 || N.eqb off (n_of_string "18446744073709551615") then List.rev acc
             else match file off with None -> List.rev acc | Some buf -> go (b_next buf) (k - 1) (off :: acc) in
           Array.of_list (go first nbuf []) in
         let compare_table what first btype entries =
           let offs = chain_offsets first in
           let alloc j = let j = int_of_nat j in
             if j < Array.length offs then offs.(j) else n_of_string "18446744073709551614" in
           let out = enc_table avail (n_of_int btype) alloc entries in
           if List.length out <> Array.length offs then
             note (Printf.sprintf "DIFF:%s:nbuf=%d/%d" what (List.length out) (Array.length offs))
           else List.iteri (fun j (off, bytes) ->
               match file off with
               | Some real when real = bytes -> ()
               | _ -> note (Printf.sprintf "DIFF:%s:buf%d" what j)) out in
         let kent_of n a c il = { k_name = bytes_of_string n; k_attr = bytes_of_string a; k_conv = bytes_of_string c; k_ilen = n_of_int il } in
         let dict_case = kent_of "N/A" "fill:#000000" "" 0
                         :: List.mapi (fun j (nl, al, cl, il, b) -> kent_of (kname j b nl) (gstr 'a' b al) (gstr 'c' b cl) il) keys in
         compare_table "dict" (n_of_int doff) 2 (List.map ser_key dict_case);
         begin
           (* threads in stream_init order, those without events left out; infos are kept in a LIFO list *)
           let sids = List.sort_uniq compare (List.map (fun e -> e.sid) events) in
           let firsts = List.map (fun (t, _) -> (str_of_bytes t.t_hr, t.t_first)) ths in
           let entries = List.filter_map (fun sid ->
               match List.assoc_opt (Printf.sprintf "s%d" sid) firsts with
               | None -> None
               | Some first ->
                 let infos = kept_infos avail (infos_of sid) in   (* dump_thread omits what does not fit *)
                 Some (ser_thread { t_hr = bytes_of_string (Printf.sprintf "s%d" sid);
                                    t_nbev = n_of_int (List.length (List.filter (fun e -> e.sid = sid) events));
                                    t_first = first; t_infos = infos })) sids in
           compare_table "threads" (n_of_int toff) 3 entries
         end;
         (* streams with events that the file does not have *)
         List.iter (fun e -> if not (Hashtbl.mem seen e.sid) then note (Printf.sprintf "DIFF:s%d:missing" e.sid)) events;
         (* thread_size() warns about an omitted info: the dump then returns PARSEC_ERROR (-1), the file is complete *)
         let rc = if List.exists (fun sid -> List.exists (fun e -> e.sid = sid) events && omits avail (infos_of sid))
                       (List.init _ns (fun i -> i)) then -1 else 0 in
         Buffer.add_string b (Printf.sprintf " | mono=%d rc=%d enc=%s" (if !mono then 1 else 0) rc
                                (if !diff = "" then "ok" else !diff));
         Buffer.contents b))

let split2 s =            (* on the two-character separator "||" *)
  let n = String.length s in
  let rec go i start acc =
    if i + 1 >= n then List.rev (String.sub s start (n - start) :: acc)
    else if s.[i] = '|' && s.[i + 1] = '|' then go (i + 2) (i + 2) (String.sub s start (i - start) :: acc)
    else go (i + 1) start acc in
  go 0 0 []

let idx = ref (-1)
let () =
  let casefile = Sys.argv.(1) in
  iter_cases casefile (fun line ->
    incr idx;
    let base = Printf.sprintf "%s.d/c%d" casefile !idx in
    (* files opened together, in order: (rank, case of that rank) *)
    let multi = String.length line > 0 && line.[0] = 'M' in
    let opened =
      if not multi then [(0, line)] else
        match split2 line with
        | hd :: subs ->
          let subs = Array.of_list subs in
          let order = (match words hd with [_; o] -> o | _ -> "") in
          List.filter_map (fun c -> let r = Char.code c - 48 in
                            if r >= 0 && r < Array.length subs then Some (r, subs.(r)) else None)
            (List.init (String.length order) (String.get order))
        | [] -> [] in
    let loaded = List.map (fun (r, sub) -> load (Printf.sprintf "%s-%d.prof" base r) sub) opened in
    if multi && Sys.getenv_opt "VERIF_KEEP" = None then
      List.iter (fun r -> try Sys.remove (Printf.sprintf "%s-%d.prof" base r) with _ -> ()) [0; 1; 2];
    (* read_dictionary: one merged dictionary for all the files, a map per file *)
    let locals = List.filter_map (function Loaded (lk, _) -> Some lk | Bad _ -> None) loaded in
    let (merged, maps) = merge_files [] locals in
    let maps = ref maps in
    let obs = List.map (function
        | Bad m -> m
        | Loaded (_, k) ->
          (match !maps with
           | mp :: r -> maps := r; k (presented merged mp)
           | [] -> "<model: no map>")) loaded in
    if multi then "M || " ^ String.concat " || " obs else String.concat "" obs)
