open Hasht
open Vio
(* same case syntax as harness/h_hasht.c *)
let rec parse_ops = function
  | [] -> []
  | "i" :: k :: v :: r -> ("i", OIns (n_of_string k, n_of_string v)) :: parse_ops r
  | "ni" :: k :: v :: r -> ("ni", ONIns (n_of_string k, n_of_string v)) :: parse_ops r
  | "f" :: k :: r -> ("f", OFind (n_of_string k)) :: parse_ops r
  | "r" :: k :: r -> ("r", ORem (n_of_string k)) :: parse_ops r
  | "l" :: k :: r -> ("l", OLock (n_of_string k)) :: parse_ops r
  | "u" :: k :: r -> ("u", OUnlock (n_of_string k)) :: parse_ops r
  | "nf" :: k :: r -> ("nf", ONFind (n_of_string k)) :: parse_ops r
  | "nr" :: k :: r -> ("nr", ONRem (n_of_string k)) :: parse_ops r
  | "a" :: r -> ("a", OAll) :: parse_ops r
  | _ -> failwith "bad op"

(* decimal printing of an N that may exceed max_int *)
let string_of_n n =
  let ten = n_of_int 10 in
  let rec go n acc = if n = N0 then acc else
      go (N.div n ten) (string_of_int (int_of_n (N.modulo n ten)) ^ acc) in
  if n = N0 then "0" else go n ""

let dump_table b t =
  Buffer.add_string b (Printf.sprintf "T%d/%d:" (int_of_nat t.t_bits) (int_of_z t.t_used));
  List.iteri (fun i bk ->
      if bk.b_items <> [] || int_of_z bk.b_len <> 0 then begin
        Buffer.add_string b (Printf.sprintf " %d[%d]=" i (int_of_z bk.b_len));
        Buffer.add_string b (String.concat "," (List.map (fun (k, _) -> string_of_n k) bk.b_items))
      end) t.t_bkts

let dump h =
  let b = Buffer.create 256 in
  Buffer.add_char b '{';
  List.iteri (fun i t -> if i > 0 then Buffer.add_char b ' '; dump_table b t) h.h_tabs;
  Buffer.add_char b '}'; Buffer.contents b

let res_str = function
  | RUnit -> "."
  | RVal None -> "-"
  | RVal (Some v) -> string_of_n v
  | RItems l -> String.concat "" (List.map (fun (k, v) -> " " ^ string_of_n k ^ "=" ^ string_of_n v) l)

(* ---- T-sched: the atomic-step model under the schedule of the case ---- *)
let rec parse_cops = function
  | [] -> []
  | "i" :: k :: v :: r -> CIns (n_of_string k, n_of_string v) :: parse_cops r
  | "f" :: k :: r -> CFind (n_of_string k) :: parse_cops r
  | "r" :: k :: r -> CRem (n_of_string k) :: parse_cops r
  | _ -> failwith "bad thread op"

let dump_chain c =
  let b = Buffer.create 256 in
  Buffer.add_char b '{';
  List.iteri (fun i t -> if i > 0 then Buffer.add_char b ' '; dump_table b t) (chain c);
  Buffer.add_char b '}'; Buffer.contents b

let cov_on = (try Sys.getenv "HASHT_COV" <> "" with Not_found -> false)
let cov : (string, int) Hashtbl.t = Hashtbl.create 32
let () = at_exit (fun () -> if cov_on then Hashtbl.iter (fun k v -> Printf.eprintf "cov %s %d\n" k v) cov)

(* same loop as cos_run: the schedule, then round-robin until every thread has finished *)
let run_sched ?(obs = fun _ _ _ -> ()) c0 nt sched maxrounds =
  let c = ref c0 in
  let steps = Array.make nt 0 in
  let fin t = match List.nth_opt !c.g_thr t with Some th -> th_finished th | None -> true in
  let st t = if t >= 0 && t < nt && not (fin t) then begin
      steps.(t) <- steps.(t) + 1;
      if cov_on then begin
        let th = List.nth !c.g_thr t in
        let c' = cstep !c (nat_of_int t) in
        let stutter = (c'.g_thr = !c.g_thr) in
        let name = match th.th_pc with
          | PIdle -> "idle" | PRdLock -> "rdlock" | PRdWait _ -> "rdwait" | PLockTop -> "locktop"
          | PLockOld _ -> "lockold" | PDecUsed _ -> "decused" | PCas _ -> "cas" | PUnlockOldF _ -> "unlockoldF"
          | PUnlockOldN _ -> "unlockoldN" | PUnlockTop _ -> "unlocktop" | PRdUnlock _ -> "rdunlock"
          | PWrTicket -> "wrticket" | PWrWait1 _ -> "wrwait1" | PWrRin _ -> "wrrin" | PWrWait2 _ -> "wrwait2"
          | PWrUnlock -> "wrunlock" in
        let key = name ^ (if stutter then "-blocked" else "") in
        Hashtbl.replace cov key (1 + (try Hashtbl.find cov key with Not_found -> 0))
      end;
      let before = List.nth !c.g_thr t in
      c := cstep !c (nat_of_int t);
      obs t before !c end in
  List.iter st sched;
  let k = ref 0 and dl = ref false in
  while not (all_done !c) && not !dl do
    for t = 0 to nt - 1 do st t done;
    incr k; if !k > maxrounds then dl := true
  done;
  (!c, steps, !dl)

let cop_str o r inv resp =
  let (n, k) = match o with CIns (k, _) -> ("i", k) | CFind k -> ("f", k) | CRem k -> ("r", k) in
  let rs = match o, r with CIns _, _ -> "." | _, None -> "-" | _, Some v -> string_of_n v in
  Printf.sprintf " %s:%s:%s@%d-%d" n (string_of_n k) rs (int_of_nat inv) (int_of_nat resp)
let cop_pending o =
  let (n, k) = match o with CIns (k, _) -> ("i", k) | CFind k -> ("f", k) | CRem k -> ("r", k) in
  Printf.sprintf " %s:%s:?@-1--1" n (string_of_n k)

(* ---- the proved critical-section model (HashTLinDefs.lstep) follows every run of the atomic-step model:
   each time a thread of the atomic-step model gets through a lock acquisition / section boundary, the
   corresponding step(s) of lstep are taken; lstep must never be blocked, must log the same results in
   the same per-thread order and must end with the same stored items in the same buckets of the same
   tables (tables left without items are ignored: an emptied table can stay linked in the code). *)
let lin_state : lcfg option ref = ref None
let lin_err : string option ref = ref None
let lin_fail msg = if !lin_err = None then lin_err := Some msg
let lin_emit t =
  match !lin_state with
  | None -> ()
  | Some l ->
    let l' = lstep l (nat_of_int t) in
    if l'.l_thr = l.l_thr && l'.l_h = l.l_h then lin_fail (Printf.sprintf "step of thread %d is blocked" t);
    lin_state := Some l'
let lin_has_table bits =
  match !lin_state with
  | None -> false
  | Some l -> List.exists (fun tb -> int_of_nat tb.t_bits = bits) l.l_h.h_tabs
let lin_obs t (before : thread) (after : cfg) =
  let th = List.nth after.g_thr t in
  let e () = lin_emit t in
  let to_end_miss = (match th.th_pc with PUnlockTop None -> true | _ -> false) in
  match before.th_pc with
  | PRdLock | PRdWait _ -> (match th.th_pc with PLockTop -> e () | _ -> ())
  | PLockTop ->
    if th.th_pc <> PLockTop then begin
      e (); e ();
      (* a miss with no older table: the walk ends at once *)
      (match before.th_ops with
       | (CFind _ | CRem _) :: _ when to_end_miss -> e ()
       | _ -> ())
    end
  | PLockOld (_, head) ->
    (match th.th_pc with
     | PLockOld _ -> ()                                   (* blocked *)
     | PUnlockOldN _ -> if lin_has_table (int_of_nat head) then e ()
     | _ -> e ())                                         (* found *)
  | PUnlockOldN _ -> if to_end_miss then e ()
  | PUnlockTop _ -> e ()
  | PRdUnlock _ -> e ()
  | PWrRin _ | PWrWait2 _ -> (match th.th_pc with PWrUnlock -> e () | _ -> ())
  | _ -> ()

let items_by_table tabs =
  List.filter (fun (_, l) -> l <> [])
    (List.map (fun t -> (int_of_nat t.t_bits,
                         List.concat (List.mapi (fun i b -> List.map (fun (k, v) -> (i, string_of_n k, string_of_n v)) b.b_items) t.t_bkts)))
       tabs)
let lin_compare (c : cfg) =
  match !lin_state with
  | None -> ""
  | Some l ->
    if l.l_bad then "" else begin
      (match !lin_err with
       | Some _ -> ()
       | None ->
         if items_by_table l.l_h.h_tabs <> items_by_table (chain c) then lin_fail "final tables differ";
         List.iteri (fun t th ->
             let mine = List.rev (List.filter_map (fun ((u, o), r) -> if int_of_nat u = t then Some (o, r) else None) l.l_log) in
             let theirs = List.map (fun (((o, r), _), _) -> (o, r)) (List.rev th.th_done) in
             if mine <> theirs then lin_fail (Printf.sprintf "results of thread %d differ" t)) c.g_thr;
         if List.exists (fun th -> th.lt_pc <> LIdle || th.lt_ops <> []) l.l_thr && all_done c then lin_fail "did not finish");
      match !lin_err with Some m -> " <critical-section model disagrees: " ^ m ^ ">" | None -> ""
    end

(* the sequential model and the atomic-step model run by one thread must agree (i / f / r only) *)
let cross_check bits hint maxb ops =
  if List.for_all (fun (n, _) -> n = "i" || n = "f" || n = "r" || n = "a") ops then begin
    let cops = List.concat_map (fun (_, o) -> match o with
        | OIns (k, v) -> [CIns (k, v)] | OFind k -> [CFind k] | ORem k -> [CRem k] | _ -> []) ops in
    let c0 = cinit (nat_of_int bits) (z_of_int hint) (z_of_int maxb) [cops] in
    let (c, _, dl) = run_sched c0 1 [] 100000 in
    let (_, h) = run_ops (ht_init (nat_of_int bits) (z_of_int hint) (z_of_int maxb)) (List.map snd ops) in
    if dl || dump_chain c <> dump h then " <the two models disagree>" else ""
  end else ""

let () =
  iter_cases Sys.argv.(1) (fun line ->
    match split_on '|' line with
    | hd :: rest ->
      let hw = words hd in
      let mode = List.hd hw in
      let bits = int_of_string (List.nth hw 1) and hint = int_of_string (List.nth hw 2)
      and maxb = int_of_string (List.nth hw 3) in
      let h0 = ht_init (nat_of_int bits) (z_of_int hint) (z_of_int maxb) in
      if mode = "seq" || mode = "seqh" then begin
        let ops = parse_ops (words (String.concat " " rest)) in
        let h = ref h0 in
        String.concat " | " (List.map (fun (name, o) ->
            let (r, h') = step_op !h o in
            h := h';
            let rs = res_str r in
            name ^ ":" ^ rs ^ " " ^ dump h') ops) ^ cross_check bits hint maxb ops
      end else if mode = "sched" then begin
        match rest with
        | pre :: thr :: sc :: _ ->
          let pre_ops = parse_cops (words pre) in
          let tops = List.map (fun s -> parse_cops (words s)) (split_on '/' thr) in
          let nt = List.length tops in
          let c0 = cinit (nat_of_int bits) (z_of_int hint) (z_of_int maxb) [pre_ops] in
          lin_err := None;
          lin_state := Some (linit (nat_of_int bits) (z_of_int hint) (z_of_int maxb) [pre_ops]);
          let (c1, _, _) = run_sched ~obs:lin_obs c0 1 [] 100000 in
          let c2 = restart c1 tops in
          (match !lin_state with
           | Some l -> lin_state := Some { l_h = l.l_h; l_thr = List.map (fun p -> { lt_pc = LIdle; lt_ops = p }) tops;
                                           l_log = []; l_bad = l.l_bad }
           | None -> ());
          let (c, steps, dl) = run_sched ~obs:lin_obs c2 nt (ints sc) 20000 in
          let b = Buffer.create 256 in
          List.iteri (fun t th ->
              Buffer.add_string b (Printf.sprintf "t%d:" t);
              List.iter (fun (((o, r), inv), resp) -> Buffer.add_string b (cop_str o r inv resp)) (List.rev th.th_done);
              List.iter (fun o -> Buffer.add_string b (cop_pending o)) th.th_ops;
              Buffer.add_string b " | ") c.g_thr;
          Buffer.add_string b (dump_chain c);
          Buffer.add_string b (Printf.sprintf " | rw=%d,%d,%d,%d | steps:" (int_of_z c.g_rw.rin) (int_of_z c.g_rw.rout)
                                 (int_of_z c.g_rw.win) (int_of_z c.g_rw.wout));
          Array.iter (fun s -> Buffer.add_string b (" " ^ string_of_int s)) steps;
          Buffer.contents b ^ (if dl then " <deadlock>" else lin_compare c)
        | _ -> "<bad case>"
      end else "<bad case>"
    | _ -> "<bad case>")
