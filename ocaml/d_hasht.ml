open Hasht
open Vio
(* same case syntax as harness/h_hasht.c *)
let rec parse_ops = function
  | [] -> []
  | "i" :: k :: v :: r -> ("i", OIns (n_of_string k, n_of_string v)) :: parse_ops r
  | "ni" :: k :: v :: r -> ("ni", ONIns (n_of_string k, n_of_string v)) :: parse_ops r
  | "f" :: k :: r -> ("f", OFind (n_of_string k)) :: parse_ops r
  | "r" :: k :: r -> ("r", ORem (n_of_string k)) :: parse_ops r
  | "l" :: k :: r -> ("l", OLock (n_of_string k)) :: parse_ops r
  | "u" :: k :: r -> ("u", OUnlock (n_of_string k)) :: parse_ops r
  | "nf" :: k :: r -> ("nf", ONFind (n_of_string k)) :: parse_ops r
  | "nr" :: k :: r -> ("nr", ONRem (n_of_string k)) :: parse_ops r
  | "a" :: r -> ("a", OAll) :: parse_ops r
  | _ -> failwith "bad op"

(* decimal printing of an N that may exceed max_int *)
let string_of_n n =
  let ten = n_of_int 10 in
  let rec go n acc = if n = N0 then acc else
      go (N.div n ten) (string_of_int (int_of_n (N.modulo n ten)) ^ acc) in
  if n = N0 then "0" else go n ""

let dump_table b t =
  Buffer.add_string b (Printf.sprintf "T%d/%d:" (int_of_nat t.t_bits) (int_of_z t.t_used));
  List.iteri (fun i bk ->
      if bk.b_items <> [] || int_of_z bk.b_len <> 0 then begin
        Buffer.add_string b (Printf.sprintf " %d[%d]=" i (int_of_z bk.b_len));
        Buffer.add_string b (String.concat "," (List.map (fun (k, _) -> string_of_n k) bk.b_items))
      end) t.t_bkts

let dump h =
  let b = Buffer.create 256 in
  Buffer.add_char b '{';
  List.iteri (fun i t -> if i > 0 then Buffer.add_char b ' '; dump_table b t) h.h_tabs;
  Buffer.add_char b '}'; Buffer.contents b

let res_str = function
  | RUnit -> "."
  | RVal None -> "-"
  | RVal (Some v) -> string_of_n v
  | RItems l -> String.concat "" (List.map (fun (k, v) -> " " ^ string_of_n k ^ "=" ^ string_of_n v) l)

let () =
  iter_cases Sys.argv.(1) (fun line ->
    match split_on '|' line with
    | hd :: rest ->
      let hw = words hd in
      let mode = List.hd hw in
      let bits = int_of_string (List.nth hw 1) and hint = int_of_string (List.nth hw 2)
      and maxb = int_of_string (List.nth hw 3) in
      let h0 = ht_init (nat_of_int bits) (z_of_int hint) (z_of_int maxb) in
      if mode = "seq" || mode = "seqh" then begin
        let ops = parse_ops (words (String.concat " " rest)) in
        let h = ref h0 in
        String.concat " | " (List.map (fun (name, o) ->
            let (r, h') = step_op !h o in
            h := h';
            let rs = res_str r in
            name ^ ":" ^ (if name = "a" then rs else rs) ^ " " ^ dump h') ops)
      end else "<bad case>"
    | _ -> "<bad case>")
