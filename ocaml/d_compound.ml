(* C15 model driver: runs the extracted model of compound.c (CompoundDefs.step at the
   constructor selected by CompoundCode.code_precharge) on a pseudo-random schedule derived
   from the case's seed and prints the observation the harness derives from its stamps.
   case:  cmp <threads> <sched> <mode> <spin> <seed> | <nt> <w> ; <nt> <w> ; ...          *)
open Compound
open Vio

let lcg s = (s * 1103515245 + 12345) land 0x3fffffff

(* VERIF_C15_PRECHARGE=0|1 overrides the switch of CompoundCode.v (used to test a patched scratch copy of the repository) *)
let pre = match Sys.getenv_opt "VERIF_C15_PRECHARGE" with Some "1" -> true | Some "0" -> false | _ -> code_precharge

let () =
  iter_cases Sys.argv.(1) (fun line ->
    match split_on '|' line with
    | [hd; body] ->
      (match words hd with
       | ["cmp"; _threads; _sched; mode; _spin; seed] ->
         let mode = int_of_string mode in
         (* a member is "<nt> <w>" (PTG), "b" (bare taskpool) or "( members )" (a nested compound) *)
         let toks = List.concat_map (fun w ->
             let b = Buffer.create 8 and out = ref [] in
             let flush () = if Buffer.length b > 0 then (out := Buffer.contents b :: !out; Buffer.clear b) in
             String.iter (fun ch -> match ch with
               | '(' | ')' | ';' -> flush (); out := String.make 1 ch :: !out
               | c -> Buffer.add_char b c) w;
             flush (); List.rev !out) (words body) in
         let rec group toks acc =        (* -> (children, rest) up to the matching ")" *)
           match toks with
           | [] -> (List.rev acc, [])
           | ")" :: r -> (List.rev acc, r)
           | ";" :: r -> group r acc
           | "(" :: r -> let (ch, r') = group r [] in group r' (CNode ch :: acc)
           | "b" :: r -> group r (CLeaf None :: acc)
           | nt :: _w :: r -> group r (CLeaf (Some (nat_of_int (int_of_string nt))) :: acc)
           | _ -> failwith "member" in
         let (children, _) = group toks [] in
         (* parsec_compose: a group of one element is that element; a group that starts with a group continues it *)
         let rec norm t = match t with
           | CLeaf _ -> t
           | CNode l ->
             (match List.map norm l with
              | [x] -> x
              | CNode l0 :: r -> CNode (l0 @ r)
              | l' -> CNode l') in
         let tree = norm (CNode children) in
         let ms = flatten tree in
         let members = List.map (function Some k -> Some (int_of_nat k) | None -> None) ms in
         let nested = (match tree with CNode l -> List.exists (function CNode _ -> true | _ -> false) l | _ -> false) in
         let sizes = List.map (function Some n -> n | None -> 0) members in
         let n = List.length sizes in
         if n < 1 then "<bad case>" else begin
           let szs = List.map nat_of_int sizes in
           let bare = bare_of ms in
           let evs = all_events szs in
           let rng = ref (int_of_string seed + 1) in
           let schedule = ref [] in
           (* run a step function from a state, choosing among the effective events; returns the final state *)
           let drive (type a) (stp : a -> event -> a) (s0 : a) (replay : event list option) : a =
             match replay with
             | Some l -> List.fold_left stp s0 l
             | None ->
               let s = ref s0 and continue = ref true in
               while !continue do
                 let eff = List.filter (fun e -> stp !s e <> !s) evs in
                 (match eff with
                  | [] -> continue := false
                  | _ -> rng := lcg !rng;
                         let e = List.nth eff ((!rng lsr 8) mod List.length eff) in
                         schedule := e :: !schedule;
                         s := stp !s e)
               done; !s in
           let flat_step = if n <= 1 then compose_step (nat_of_int n) else stepB bare in
           let st, mismatch =
             if nested then begin
               let ((ts0, b), owns) = initT pre tree in
               let ts = drive (stepT b owns) ts0 None in
               (* the same schedule on the flattened list: the histories must be identical *)
               let fl = drive flat_step (initB pre ms) (Some (List.rev !schedule)) in
               (t_s ts, not (log_eqb (log (t_s ts)) (log fl)))
             end else (drive flat_step (initB pre ms) None, false) in
           if mismatch then "<model: the nested composition and its flattening have different histories>" else
           let ints l = String.concat "," (List.map (fun x -> string_of_int (int_of_nat x)) l) in
           let b2 b = if b then "1" else "0" in
           Printf.sprintf "n=%d ran=%s begun=%s enq=%s ccb=%d seq=%s clast=%s tpw=%s late=0 act=%d"
             n (ints (ran st)) (ints (begun st)) (ints (enqs st)) (int_of_nat (c_cb st)) (b2 (seq_okB bare st))
             (b2 (compound_lastB bare st)) (if mode = 0 then "-" else b2 (compound_lastB bare st)) (int_of_z (active st))
         end
       | _ -> "<bad case>")
    | _ -> "<bad case>")
