(* C15 model driver: runs the extracted model of compound.c (CompoundDefs.step at the
   constructor selected by CompoundCode.code_precharge) on a pseudo-random schedule derived
   from the case's seed and prints the observation the harness derives from its stamps.
   case:  cmp <threads> <sched> <mode> <spin> <seed> | <nt> <w> ; <nt> <w> ; ...          *)
open Compound
open Vio

let lcg s = (s * 1103515245 + 12345) land 0x3fffffff

(* VERIF_C15_PRECHARGE=0|1 overrides the switch of CompoundCode.v (used to test a patched scratch copy of the repository) *)
let pre = match Sys.getenv_opt "VERIF_C15_PRECHARGE" with Some "1" -> true | Some "0" -> false | _ -> code_precharge

let () =
  iter_cases Sys.argv.(1) (fun line ->
    match split_on '|' line with
    | [hd; body] ->
      (match words hd with
       | ["cmp"; _threads; _sched; mode; _spin; seed] ->
         let mode = int_of_string mode in
         (* a member is "<nt> <w>" (PTG) or "b" (bare taskpool) *)
         let members = List.filter_map (fun m -> match words m with
                        | [nt; _w] -> Some (Some (int_of_string nt)) | ["b"] -> Some None | [] -> None | _ -> failwith "member") (split_on ';' body) in
         let sizes = List.map (function Some n -> n | None -> 0) members in
         let n = List.length sizes in
         if n < 1 then "<bad case>" else begin
           let szs = List.map nat_of_int sizes in
           let ms = List.map (function Some k -> Some (nat_of_int k) | None -> None) members in
           let bare = bare_of ms in
           let stp = if n <= 1 then compose_step (nat_of_int n) else stepB bare in
           let evs = Array.of_list (all_events szs) in
           let s = ref (initB pre ms) in
           let rng = ref (int_of_string seed + 1) in
           let continue = ref true in
           while !continue do
             (* effective events in the current state *)
             let eff = List.filter (fun e -> stp !s e <> !s) (Array.to_list evs) in
             match eff with
             | [] -> continue := false
             | _ -> rng := lcg !rng;
                    let e = List.nth eff ((!rng lsr 8) mod List.length eff) in
                    s := stp !s e
           done;
           let st = !s in
           let ints l = String.concat "," (List.map (fun x -> string_of_int (int_of_nat x)) l) in
           let b2 b = if b then "1" else "0" in
           Printf.sprintf "n=%d ran=%s begun=%s enq=%s ccb=%d seq=%s clast=%s tpw=%s late=0 act=%d"
             n (ints (ran st)) (ints (begun st)) (ints (enqs st)) (int_of_nat (c_cb st)) (b2 (seq_okB bare st))
             (b2 (compound_lastB bare st)) (if mode = 0 then "-" else b2 (compound_lastB bare st)) (int_of_z (active st))
         end
       | _ -> "<bad case>")
    | _ -> "<bad case>")
