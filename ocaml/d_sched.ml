open Sched
open Vio
(* vm_sched <casefile> <module> <n> "<topology line printed by h_sched>"
   same case syntax and output as harness/h_sched.c *)
let modid = function
  | "ap" -> AP | "gd" -> GD | "ip" -> IP | "lfq" -> LFQ | "lhq" -> LHQ | "ll" -> LL
  | "llp" -> LLP | "ltq" -> LTQ | "pbq" -> PBQ | "rnd" -> RND | "spq" -> SPQ
  | s -> failwith ("unknown module " ^ s)

(* "T n ; sizes ; parents ; tq ; chains" *)
let parse_topo n s =
  let parts = split_on ';' s in
  let get k = if k < List.length parts then List.nth parts k else "" in
  let sizes = List.map nat_of_int (ints (get 1)) in
  let parents = List.map (fun p -> if p < 0 then None else Some (nat_of_int p)) (ints (get 2)) in
  let tq = List.map nat_of_int (ints (get 3)) in
  let chains = List.map (fun w -> List.map (fun x -> nat_of_int (int_of_string x))
                                    (List.filter (fun x -> x <> "") (String.split_on_char ',' w)))
      (words (get 4)) in
  { c_n1 = nat_of_int (n - 1); c_sizes = sizes; c_parents = parents; c_tq = tq; c_chains = chains }

let parse_task w =
  match List.map int_of_string (String.split_on_char ':' w) with
  | [id; pr; tag; hi; rnd] -> ({ tid = z_of_int id; tprio = z_of_int pr; ttag = z_of_int tag; thi = (hi <> 0) }, z_of_int rnd)
  | [id; pr; tag; hi] -> ({ tid = z_of_int id; tprio = z_of_int pr; ttag = z_of_int tag; thi = (hi <> 0) }, z_of_int 0)
  | [id; pr] -> ({ tid = z_of_int id; tprio = z_of_int pr; ttag = z_of_int 0; thi = false }, z_of_int 0)
  | _ -> failwith ("bad task " ^ w)

let parse_op s =
  match words s with
  | [] -> None
  | k :: rest ->
    (match k, rest with
     | ("S" | "V"), es :: d :: ts ->
       let es = int_of_string es and d = z_of_int (int_of_string d) in
       let tr = List.map parse_task ts in
       let ring = List.map fst tr and rnds = List.map snd tr in
       if k = "S" then Some (OSched (nat_of_int es, d, ring, rnds))
       else Some (OVp ((if es < 0 then None else Some (nat_of_int es)), d, ring, rnds))
     | "L", [es] -> Some (OSel (nat_of_int (int_of_string es)))
     | "N", [es] -> Some (ONext (nat_of_int (int_of_string es)))
     | "F", [es] -> Some (OFlush (nat_of_int (int_of_string es)))
     | "D", [] -> Some ODrain
     | _ -> failwith ("bad op " ^ s))

let id_of t = string_of_int (int_of_z t.tid)

let () =
  let m = modid Sys.argv.(2) and n = int_of_string Sys.argv.(3) in
  let cfg = parse_topo n Sys.argv.(4) in
  iter_cases Sys.argv.(1) (fun line ->
    match split_on '|' line with
    | [] -> "<bad case>"
    | _ :: ops ->
      let ops = List.filter_map parse_op ops in
      let (obs, left) = run m cfg ops in
      let toks = List.filter_map (function
          | ObNone -> None
          | ObSel None -> Some "-1"
          | ObSel (Some t) -> Some (id_of t)
          | ObDrain l -> Some ("[" ^ String.concat " " (List.map (fun (es, t) -> string_of_int (int_of_nat es) ^ ":" ^ id_of t) l) ^ "]"))
          obs in
      String.concat " " toks ^ (if toks = [] then "" else " ") ^ "| left " ^ string_of_int (int_of_nat left))
