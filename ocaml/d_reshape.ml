(* model driver of C18: case line (tools/gen_reshape.py) -> canonical observation line.
   Only parsing and printing here; the semantics is Reshape.run (extracted). *)
open Reshape
open Vio

let tname = [| "NULL"; "FULL"; "LOWER"; "UPPER"; "LOWS"; "UPPS"; "PACKED" |]
let sname z = let i = int_of_z z in if i >= 0 && i < 7 then tname.(i) else "?"
let hex (t : z list) =
  let b = Buffer.create 64 in
  List.iter (fun v -> Buffer.add_string b (Printf.sprintf "%02x" ((int_of_z v) land 255))) t;
  Buffer.contents b

let parse line =
  let t = Array.of_list (words line) in
  let pos = ref 0 in
  let nx () = let x = t.(!pos) in incr pos; x in
  let ni () = int_of_string (nx ()) in
  let expect s = if nx () <> s then failwith ("expected " ^ s) in
  expect "R";
  let nranks = ni () in let _short = ni () in let _mt = ni () in let _cores = ni () in
  expect "M"; let mb = ni () in let esz = ni () in
  expect "N"; let nt = ni () in
  expect "O"; let no = ni () in
  let owner = List.init no (fun _ -> ni ()) in
  expect "C"; let nc = ni () in
  let classes = List.init nc (fun _ ->
    expect "c";
    let r = ni () in let _mode = nx () in let md = ni () in
    let inp = match nx () with
      | "D" -> let a = ni () in let b = ni () in InD (z_of_int a, z_of_int b)
      | "T" -> let p = ni () in let sh = ni () in let ti = ni () in let tri = ni () in
               InT (z_of_int p, z_of_int sh, z_of_int ti, z_of_int tri)
      | _ -> failwith "input" in
    let no = ni () in
    let outs = List.init no (fun _ ->
      match nx () with
      | "E" -> let q = ni () in let a = ni () in let b = ni () in OutE (z_of_int q, z_of_int a, z_of_int b)
      | "F" -> let q = ni () in let a = ni () in let b = ni () in OutF (z_of_int q, z_of_int a, z_of_int b)
      | "M" -> let a = ni () in let b = ni () in OutM (z_of_int a, z_of_int b)
      | _ -> failwith "output") in
    let peek s = !pos < Array.length t && t.(!pos) = s in
    let in2, bf =
      if peek "B" then begin
        incr pos;
        let bf = ni () in let p = ni () in let sh = ni () in let ti = ni () in let tri = ni () in
        (Some (InT (z_of_int p, z_of_int sh, z_of_int ti, z_of_int tri)), bf <> 0)
      end else (None, false) in
    if peek "G" then begin incr pos; let n = ni () in for _ = 1 to n do ignore (ni ()) done end;   (* control flows carry no data *)
    { c_R = z_of_int r; c_mod = (md <> 0); c_in = inp; c_outs = outs; c_in2 = in2; c_bfirst = bf }) in
  if !pos < Array.length t && t.(!pos) = "T" then (incr pos; ignore (ni ()));   (* broadcast topology of the run *)
  let fixed = if !pos < Array.length t && t.(!pos) = "V" then (incr pos; ni () <> 0) else false in
  { p_nranks = z_of_int nranks; p_mb = z_of_int mb; p_esz = z_of_int esz; p_nt = z_of_int nt;
    p_owner = List.map z_of_int owner; p_cls = classes; p_fixed = fixed }

let observe (p : prog) =
  let s = run p in
  if int_of_z s.err <> 0 then (if int_of_z s.err = 1 then "CRASH" else Printf.sprintf "<model error %d>" (int_of_z s.err)) else begin
    let ntiles = List.length p.p_owner in
    let evs = List.rev s.evs in
    let bodies = List.filter_map (function
      | EBody (c, k, r, cp, d, data) -> Some (((int_of_z c, int_of_z k, int_of_z r), 0), int_of_nat cp, d, data)
      | EBody2 (c, k, r, cp, d, data) -> Some (((int_of_z c, int_of_z k, int_of_z r), 1), int_of_nat cp, d, data)
      | _ -> None) evs in
    let bodies = List.sort compare bodies in
    let names = Hashtbl.create 16 in
    let nfresh = ref 0 in
    let name_task id =
      if id < ntiles then Printf.sprintf "D%d" id
      else begin
        if not (Hashtbl.mem names id) then (Hashtbl.add names id (Printf.sprintf "f%d" !nfresh); incr nfresh);
        Hashtbl.find names id
      end in
    let tl = List.map (fun (((c, k, r), fl), cp, d, data) ->
      Printf.sprintf "%s %d %d %d %s %s %s" (if fl = 0 then "T" else "U") c k r (name_task cp) (sname d) (hex data)) bodies in
    let name_any id = if id < ntiles then Printf.sprintf "D%d" id else (try Hashtbl.find names id with Not_found -> "u") in
    let xl = List.filter_map (function
      | EConv (src, sty, scnt, dst, dty) ->
          Some (Printf.sprintf "X %s %s %d %s %s" (name_any (int_of_nat src)) (sname sty) (int_of_z scnt) (name_any (int_of_nat dst)) (sname dty))
      | _ -> None) evs in
    let xl = List.sort compare xl in
    let copies = Array.of_list s.copies in
    let dl = List.init ntiles (fun i -> Printf.sprintf "D %d %s" i (hex copies.(i).cp_data)) in
    let nr = int_of_z p.p_nranks in
    let cnt = Array.make nr 0 in
    Array.iteri (fun i c -> if i >= ntiles then (let r = int_of_z c.cp_rank in if r >= 0 && r < nr then cnt.(r) <- cnt.(r) + 1)) copies;
    let nl = "N " ^ String.concat " " (Array.to_list (Array.map string_of_int cnt)) in
    String.concat " ; " (tl @ xl @ dl @ [nl])
  end

let () =
  iter_cases Sys.argv.(1) (fun line ->
    match (try Some (parse line) with _ -> None) with
    | None -> "<bad case>"
    | Some p -> observe p)
