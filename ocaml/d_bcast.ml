open Bcast
open Vio
(* C13 model driver: same case file as harness/h_bcast.c, one observation line per case *)
let parse_sets nout rest =
  (* rest: list of '|'-separated fields after the header *)
  let rec take k l = if k = 0 then [] else match l with [] -> "" :: take (k - 1) [] | x :: t -> x :: take (k - 1) t in
  List.map (fun f -> List.map n_of_int (List.sort_uniq compare (ints f))) (take nout rest)
let show_msgs ms =
  String.concat "" (List.map (fun m -> Printf.sprintf " %d/%d/%d" (int_of_n m.m_dst) (int_of_n m.m_ann) (int_of_n m.m_pm)) ms)
let () =
  iter_cases Sys.argv.(1) (fun line ->
    match split_on '|' line with
    | [] -> "<bad case>"
    | hd :: rest ->
      (match words hd with
       | ["sys"; n; topo; root; nout] ->
         let n = int_of_string n and topo = int_of_string topo and root = int_of_string root and nout = int_of_string nout in
         let sets = parse_sets nout rest in
         if List.exists (List.exists (fun r -> int_of_n r >= n)) sets || root >= n || n < 1 then "<bad case>" else
         let child = child_fn (topo_of_code (n_of_int topo)) in
         let ((rs, log), left) = propagate (n_of_int n) (n_of_int root) sets child in
         Printf.sprintf "%d<-1:%s;" root (show_msgs rs)
         ^ String.concat "" (List.map (fun (m, s) ->
             Printf.sprintf " %d<%d:%s;" (int_of_n m.m_dst) (int_of_n m.m_src) (show_msgs s)) log)
         ^ (if left <> [] then " OVERFLOW" else "")
       | ["act"; n; topo; root; me; pm; om; nout] ->
         let n = int_of_string n and topo = int_of_string topo and root = int_of_string root and nout = int_of_string nout in
         let me = int_of_string me and pm = int_of_string pm land ((1 lsl nout) - 1) and om = int_of_string om land ((1 lsl nout) - 1) in
         let sets = parse_sets nout rest in
         if List.exists (List.exists (fun r -> int_of_n r >= n)) sets || root >= n || me >= n || n < 1 then "<bad case>" else
         let child = child_fn (topo_of_code (n_of_int topo)) in
         let outs = List.map (mk_output (n_of_int n) (n_of_int root)) sets in
         "act:" ^ show_msgs (activate (n_of_int n) (n_of_int me) (n_of_int root) outs (n_of_int pm) (n_of_int om) child)
       | ["bit"; n; root; rank] ->
         let n = n_of_int (int_of_string n) and root = n_of_int (int_of_string root) and rank = n_of_int (int_of_string rank) in
         let (b, i) = rank_to_bit n root rank in
         Printf.sprintf "bit: %d %d %d" (int_of_n b) (int_of_n i) (int_of_n (bit_to_rank n root b i))
       | ["child"; topo; me; him] ->
         let c = child_fn (topo_of_code (n_of_int (int_of_string topo))) in
         "child: " ^ (if c (z_of_int (int_of_string me)) (z_of_int (int_of_string him)) then "1" else "0")
       | ["par"; topo; him] ->
         let c = child_fn (topo_of_code (n_of_int (int_of_string topo))) and him = int_of_string him in
         let rec go me acc = if me > him + 2 then List.rev acc
           else go (me + 1) (if c (z_of_int me) (z_of_int him) then me :: acc else acc) in
         "par:" ^ String.concat "" (List.map (fun m -> " " ^ string_of_int m) (go (-1) []))
       | _ -> "<bad case>"))
