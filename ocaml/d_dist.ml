open Dist
open Vio
(* C20 model driver: prints, for each case, the observation line that
   harness/h_dist.c prints for the real code (see the format there). *)
let zi = z_of_int and iz = int_of_z
let b = Buffer.create 65536
let put s = Buffer.add_string b s
let puti i = Buffer.add_string b (string_of_int i)
let rec range a n = if n <= 0 then [] else a :: range (a + 1) (n - 1)

let head t = put (Printf.sprintf "%d %d %d %d |" (iz t.t_mt) (iz t.t_nt) (iz t.t_lmt) (iz t.t_lnt))

(* one tile of a two-dimensional collection *)
let tile2 t nodes own rk_of pos key vp off m n =
  let own = iz own in
  if own < 0 || own >= nodes then put (Printf.sprintf " %d:x" own)
  else begin
    let zo = zi own in
    let dk = tm_data_key t (zi m) (zi n) in
    let k = key () in
    let (km, kn) = tm_key2coords t k and (dm, dn) = tm_key2coords t dk in
    put (Printf.sprintf " %d:%d:%d:%d:%d.%d:%d:%d.%d:%d:%d" own (iz (rk_of dk)) (iz (pos zo)) (iz k)
           (iz km) (iz kn) (iz dk) (iz dm) (iz dn) (iz (vp zo)) (iz (off zo)))
  end

let do_bc view v =
  match v with
  | [p; q; mb; nb; lm; ln; i; j; m; n; kp; kq; ip; jq; nbvp; st] ->
    let t = tmat_init (zi st) (zi mb) (zi nb) (zi lm) (zi ln) (zi i) (zi j) (zi m) (zi n) in
    let d = { bP = zi p; bQ = zi q; bkp = zi (if view then 1 else kp); bkq = zi (if view then 1 else kq);
              bip = zi ip; bjq = zi jq; bst = zi st; bT = t } in
    let nodes = p * q in
    head t;
    List.iter (fun r -> let r = zi r in
      put (Printf.sprintf " %d:%d:%d:%d:%d" (iz (bc_nb_local_tiles d r)) (iz (bc_nb_elem_r d r))
             (iz (bc_nb_elem_c d r)) (iz (bc_llm d r)) (iz (bc_lln d r)))) (range 0 nodes);
    put " |";
    let vkp = zi kp and vkq = zi kq and znb = zi nbvp in
    List.iter (fun a -> List.iter (fun c ->
      let za = zi a and zc = zi c in
      if view then
        tile2 t nodes (kv_rank_of d vkp vkq za zc) (fun dk -> kv_rank_of_key d vkp vkq dk)
          (fun o -> kv_position d vkp vkq o za zc) (fun () -> kv_stored_key d vkp vkq za zc)
          (fun _ -> kv_vpid d vkp vkq znb za zc) (fun o -> kv_offset d vkp vkq o za zc) a c
      else
        tile2 t nodes (bc_rank_of d za zc) (fun dk -> bc_rank_of_key d dk)
          (fun o -> bc_position d o za zc) (fun () -> bc_stored_key d za zc)
          (fun _ -> bc_vpid d znb za zc) (fun o -> bc_offset d o za zc) a c)
      (range 0 (iz t.t_nt))) (range 0 (iz t.t_mt));
    put " | views=same"
  | _ -> put "<bad case>"

let do_sym v =
  match v with
  | [p; q; mb; nb; lm; ln; i; j; m; n; uplo; nbvp] ->
    let t = tmat_init sT_TILE (zi mb) (zi nb) (zi lm) (zi ln) (zi i) (zi j) (zi m) (zi n) in
    let d = { sP = zi p; sQ = zi q; suplo = zi uplo; sT = t } in
    let nodes = p * q in
    head t;
    List.iter (fun r -> put (Printf.sprintf " %d:0:0:0:0" (iz (sym_nb_local_tiles d (zi r))))) (range 0 nodes);
    put " |";
    let znb = zi nbvp and bsiz = zi (mb * nb) in
    List.iter (fun a -> List.iter (fun c ->
      let za = zi a and zc = zi c in
      tile2 t nodes (sym_rank_of d za zc) (fun dk -> sym_rank_of_key d dk)
        (fun o -> sym_position d o za zc) (fun () -> sym_stored_key d za zc)
        (fun _ -> sym_vpid d znb za zc) (fun o -> Z.mul (sym_position d o za zc) bsiz) a c)
      (range 0 (iz t.t_nt))) (range 0 (iz t.t_mt));
    put " | views=same"
  | _ -> put "<bad case>"

let do_vec v =
  match v with
  | [p; q; mb; lm; i; m; distrib; nbvp] ->
    let t = tmat_init sT_TILE (zi mb) (zi 1) (zi lm) (zi 1) (zi i) (zi 0) (zi m) (zi 1) in
    let d = { vP = zi p; vQ = zi q; vdistrib = zi distrib; vT = t } in
    let nodes = p * q in
    put (Printf.sprintf "%d 1 %d 1 |" (iz t.t_mt) (iz t.t_lmt));
    let hung = ref false in
    List.iter (fun r ->
      if !hung then put " skip"
      else match vec_nb_local_tiles d (zi r) with
        | Some nlt -> put (Printf.sprintf " %d:0:0:%d:1" (iz nlt) (iz nlt * mb))
        | None -> hung := true; put " hang") (range 0 nodes);
    put " |";
    if !hung then put " -"
    else List.iter (fun a ->
      let za = zi a in
      let own = iz (vec_rank_of d za) in
      if own < 0 || own >= nodes then put (Printf.sprintf " %d:x" own)
      else put (Printf.sprintf " %d:%d:%d:%d:%d" own (iz (vec_position d za)) (iz (vec_stored_key d za))
                  (iz (vec_vpid d (zi nbvp) za)) (iz (vec_offset d za)))) (range 0 (iz t.t_mt));
    put " | views=same"
  | _ -> put "<bad case>"

let do_tab v ranks vpids =
  match v with
  | [nodes; mb; nb; lm; ln; i; j; m; n; _nbvp] ->
    let t = tmat_init sT_TILE (zi mb) (zi nb) (zi lm) (zi ln) (zi i) (zi j) (zi m) (zi n) in
    let ne = iz t.t_lmt * iz t.t_lnt in
    if List.length ranks <> ne || List.length vpids <> ne then put "<bad table>" else begin
      let zr = List.map zi ranks and zv = List.map zi vpids in
      head t;
      List.iter (fun r -> put (Printf.sprintf " %d:0:0:0:0" (iz (tab_nb_local_tiles zr (zi r))))) (range 0 nodes);
      put " |";
      List.iter (fun a -> List.iter (fun c ->
        let za = zi a and zc = zi c in
        let key = tab_index t za zc in
        tile2 t nodes (tab_rank_of t zr za zc)
          (fun dk -> let (x, y) = tm_key2coords t dk in tab_rank_of t zr x y)
          (fun o -> tab_position t zr o za zc) (fun () -> key)
          (fun o -> tab_vpid t zr zv o za zc) (fun _ -> zi 0) a c)
        (range 0 (iz t.t_nt))) (range 0 (iz t.t_mt));
      put " | views=same"
    end
  | _ -> put "<bad case>"

let do_band v =
  match v with
  | [p; q; kp; kq; ip; jq; pb; qb; kpb; kqb; mb; nb; lm; ln; bs; nbvp] ->
    let nodes = p * q in
    if pb * qb <> nodes then put "<bad grid>" else begin
      let toff = tmat_init sT_TILE (zi mb) (zi nb) (zi lm) (zi ln) (zi 0) (zi 0) (zi lm) (zi ln) in
      let lmb = mb * (2 * bs - 1) in
      let tband = tmat_init sT_TILE (zi mb) (zi nb) (zi lmb) (zi ln) (zi 0) (zi 0) (zi lmb) (zi ln) in
      let doff = { bP = zi p; bQ = zi q; bkp = zi kp; bkq = zi kq; bip = zi ip; bjq = zi jq; bst = sT_TILE; bT = toff } in
      let dband = { bP = zi pb; bQ = zi qb; bkp = zi kpb; bkq = zi kqb; bip = zi 0; bjq = zi 0; bst = sT_TILE; bT = tband } in
      let d = { bd_band = dband; bd_off = doff; bd_size = zi bs } in
      head toff;
      List.iter (fun r -> put (Printf.sprintf " %d:%d:0:0:0" (iz (bc_nb_local_tiles doff (zi r)))
                                 (iz (bc_nb_local_tiles dband (zi r))))) (range 0 nodes);
      put " |";
      List.iter (fun a -> List.iter (fun c ->
        let za = zi a and zc = zi c in
        let own = iz (band_rank_of d za zc) in
        if own < 0 || own >= nodes then put (Printf.sprintf " %d:x" own)
        else begin
          let zo = zi own in
          let (x, y) = tm_key2coords toff (tm_data_key toff za zc) in
          put (Printf.sprintf " %d:%d:%d.%d:%d:%d:%d" own (iz (band_rank_of d x y))
                 (if band_in d za zc then 1 else 0) (iz (band_position d zo za zc))
                 (iz (band_stored_key d za zc)) (iz (band_vpid d (zi nbvp) za zc)) (iz (band_offset d zo za zc)))
        end) (range 0 (iz toff.t_nt))) (range 0 (iz toff.t_mt));
      put " | views=same"
    end
  | _ -> put "<bad case>"

let () =
  iter_cases Sys.argv.(1) (fun line ->
    Buffer.clear b;
    (match split_on '|' line with
     | first :: rest ->
       (match words first with
        | kind :: args ->
          let v = List.map int_of_string args in
          (match kind, rest with
           | "bc", [] -> do_bc false v
           | "kv", [] -> do_bc true v
           | "sym", [] -> do_sym v
           | "vec", [] -> do_vec v
           | "tab", [r; vp] -> do_tab v (ints r) (ints vp)
           | "band", [] -> do_band v
           | _ -> put "<bad case>")
        | [] -> put "<bad case>")
     | [] -> put "<bad case>");
    Buffer.contents b)
