open Coherency
open Vio
(* case:  kind | owner | c0 c1 ... | op op ...
   copy:  -  or  <I|O|E|S>:version:readers:status
   op  :  S.d.M E.d.M T.d.M (start / end / transfer, M in N R W RW)  V.d.v  I.d  P.d  B.d  R.d  X.d.k
          A.d.M a.d.M (one access, split or atomic)  G (the owner bumps again)
   out :  after each op  ret;owner;c0,c1,...   joined by " | " *)
let st_of = function "I" -> INVALID | "O" -> OWNED | "E" -> EXCLUSIVE | "S" -> SHARED | _ -> failwith "state"
let st_str = function INVALID -> "I" | OWNED -> "O" | EXCLUSIVE -> "E" | SHARED -> "S"
let mode_of = function
  | "N" -> { mr = false; mw = false } | "R" -> { mr = true; mw = false }
  | "W" -> { mr = false; mw = true } | "RW" -> { mr = true; mw = true } | _ -> failwith "mode"
let copy_of tok =
  if tok = "-" then None else
  match String.split_on_char ':' tok with
  | [s; v; r; x] -> Some { cst = st_of s; ver = z_of_int (int_of_string v); rdr = z_of_int (int_of_string r);
                           xfer = z_of_int (int_of_string x) }
  | _ -> failwith "copy"
let copy_str = function
  | None -> "-"
  | Some c -> Printf.sprintf "%s:%d:%d:%d" (st_str c.cst) (int_of_z c.ver) (int_of_z c.rdr) (int_of_z c.xfer)
let snap ret (dt : data) =
  Printf.sprintf "%s;%d;%s" ret (int_of_z dt.owner) (String.concat "," (List.map copy_str dt.copies))
let attached (dt : data) d = match getc dt.copies (nat_of_int d) with Some _ -> true | None -> false

let () =
  iter_cases Sys.argv.(1) (fun line ->
    match split_on '|' line with
    | [_kind; own; cps; ops] ->
      let dt0 = { owner = z_of_int (int_of_string own); copies = List.map copy_of (words cps) } in
      let rs = ref { dat = dt0; lasts = [] } in
      let out = List.map (fun tok ->
        let f = String.split_on_char '.' tok in
        let dev () = int_of_string (List.nth f 1) in
        let prim o =
          if not (attached !rs.dat (dev ())) then snap "!null" !rs.dat
          else begin
            let (rs1, r) = step !rs o in
            rs := rs1;
            snap (string_of_int (int_of_z r)) rs1.dat
          end in
        let comp fn =
          if not (attached !rs.dat (dev ())) then snap "!null" !rs.dat
          else begin
            let d = nat_of_int (dev ()) in
            let (dt1, r) = fn !rs.dat d (mode_of (List.nth f 2)) in
            rs := { dat = dt1; lasts = (d, r) :: !rs.lasts };
            snap (string_of_int (int_of_z r)) dt1
          end in
        match List.hd f with
        | "S" -> prim (OStart (nat_of_int (dev ()), mode_of (List.nth f 2)))
        | "E" -> prim (OEnd (nat_of_int (dev ()), mode_of (List.nth f 2)))
        | "T" -> prim (OXfer (nat_of_int (dev ()), mode_of (List.nth f 2)))
        | "V" -> prim (OSetV (nat_of_int (dev ()), z_of_int (int_of_string (List.nth f 2))))
        | "I" -> prim (OInc (nat_of_int (dev ())))
        | "P" -> prim (OPull (nat_of_int (dev ())))
        | "B" -> prim (OBump (nat_of_int (dev ())))
        | "R" -> prim (ORel (nat_of_int (dev ())))
        | "X" -> prim (OStat (nat_of_int (dev ()), z_of_int (int_of_string (List.nth f 2))))
        | "A" -> comp access
        | "a" -> comp access_atomic
        | "G" ->
          let (dt1, _) = tx_step !rs.dat Again in
          rs := { dat = dt1; lasts = !rs.lasts };
          snap "-1" dt1
        | _ -> "<bad op>") (words ops) in
      String.concat " | " out
    | _ -> "<bad case>")
