open Info
open Vio
(* C41 model driver: same case grammar and output as harness/h_info.c.  The model that
   runs is InfoDefs.step at the flags InfoCode.code_fixes. *)
exception Bad
let maxn = 16 and maxa = 12
let hex_digit c = match c with
  | '0'..'9' -> Char.code c - 48 | 'a'..'f' -> Char.code c - 87 | 'A'..'F' -> Char.code c - 55 | _ -> raise Bad
let n_of_hex s =
  let r = ref N0 in
  let sixteen = n_of_int 16 in
  String.iter (fun c -> r := N.add (N.mul !r sixteen) (n_of_int (hex_digit c))) s; !r
let rec pos_bits = function XH -> [1] | XO q -> 0 :: pos_bits q | XI q -> 1 :: pos_bits q
let hex_of_n = function
  | N0 -> "0"
  | Npos p ->
    let rec go acc = function
      | [] -> acc
      | a :: b :: c :: d :: t -> go (String.make 1 "0123456789abcdef".[a + 2*b + 4*c + 8*d] ^ acc) t
      | l -> go acc (l @ [0]) in
    go "" (pos_bits p)
let nat s = let k = int_of_string s in if k < 0 then raise Bad else nat_of_int k
let name s = let k = int_of_string s in if k < 0 || k >= maxn then raise Bad else nat_of_int k
let parse narr tok =
  match String.split_on_char ':' tok with
  | ["R"; n; cb; ct; dt] -> Reg (name n, n_of_int (int_of_string cb), n_of_int (int_of_string ct), int_of_string dt <> 0)
  | ["U"; n] -> Unreg (nat n)
  | ["V"; i] -> UnregId (nat i)
  | ["L"; n] -> Lookup (name n)
  | ["A"] -> if narr >= maxa then raise Bad else NewArr
  | ["X"; a] -> DelArr (nat a)
  | ["S"; a; n; v] -> SetV (nat a, nat n, n_of_hex v)
  | ["G"; a; n] -> GetV (nat a, nat n)
  | ["T"; a; n; v; o] -> Tas (nat a, nat n, n_of_hex v, n_of_hex o)
  | _ -> raise Bad
let events l = "~[" ^ String.concat "," (List.map hex_of_n l) ^ "]"
let pid = function None -> "-1" | Some i -> string_of_int (int_of_nat i)
let pres = function
  | RReg o -> "r=" ^ pid o
  | RUnreg (o, ev) -> "u=" ^ pid o ^ " " ^ events ev
  | RLook None -> "l=-1"
  | RLook (Some (i, cb)) -> "l=" ^ string_of_int (int_of_nat i) ^ ":" ^ hex_of_n cb
  | RArr a -> "a=" ^ string_of_int (int_of_nat a)
  | RDel -> "x"
  | RVal (v, c, ev) -> "v=" ^ hex_of_n v ^ (if c then " c1 " else " c0 ") ^ events ev
  | RSkip -> "skip"
  | ROob -> "oob"
  | RCrash -> "<crash>"
let pstate s =
  " reg[" ^ String.concat "," (List.map (fun e -> string_of_int (int_of_nat e.e_iid) ^ "=" ^ string_of_int (int_of_nat e.e_name)) s.s_reg)
  ^ "]max=" ^ string_of_int (int_of_nat s.s_maxp - 1)
  ^ String.concat "" (List.mapi (fun i a ->
      if not a.a_alive then Printf.sprintf " A%d(dead)" i
      else Printf.sprintf " A%d(%d:%s)" i (int_of_nat a.a_known) (String.concat "," (List.map hex_of_n a.a_slots))) s.s_arrs)
(* ---- T-sched cases: InfoConcDefs.cstep folded over the schedule, then round-robin ---- *)
let smaxt = 8 and smaxops = 16
let parse_cop n tok =
  match String.split_on_char ':' tok with
  | ["T"; i; v; o] -> let i = int_of_string i in if i < 0 || i >= n then raise Bad else CT (nat_of_int i, n_of_hex v, n_of_hex o)
  | ["S"; i; v] -> let i = int_of_string i in if i < 0 || i >= n then raise Bad else CS (nat_of_int i, n_of_hex v)
  | ["G"; i] -> let i = int_of_string i in if i < 0 || i >= n then raise Bad else CG (nat_of_int i)
  | _ -> raise Bad
let pcres = function
  | RT (_, _, r) -> " T=" ^ hex_of_n r
  | RS (_, _, r) -> " S=" ^ hex_of_n r
  | RG (_, r, made, dead) ->
    " G=" ^ hex_of_n r ^ "," ^ (if made = N0 then "-" else hex_of_n made) ^ ",[" ^ String.concat "," (List.map hex_of_n dead) ^ "]"
let do_sched line =
  match String.split_on_char '|' line with
  | [hd; progs; sched] ->
    (match words hd with
     | "sched" :: n :: infos ->
       let n = int_of_string n in
       if n < 1 || n > maxn || List.length infos <> n then raise Bad;
       let infos = List.map (fun w -> match String.split_on_char ':' w with
           | [c; d] -> (n_of_int (int_of_string c), int_of_string d <> 0) | _ -> raise Bad) infos in
       let progs = List.filter (fun w -> w <> [] || true)
           (List.map (fun th -> List.map (parse_cop n) (words th))
              (List.filter (fun th -> th <> "") (String.split_on_char '/' progs))) in
       if List.length progs > smaxt || List.exists (fun p -> List.length p > smaxops) progs then raise Bad;
       let nt = List.length progs in
       let c = ref (cinit infos progs) in
       List.iter (fun t -> if t >= 0 then c := cstep !c (nat_of_int t)) (ints sched);
       let rounds = ref 0 and dl = ref false in
       while not (c_all_done !c) && not !dl do
         for t = 0 to nt - 1 do c := cstep !c (nat_of_int t) done;
         incr rounds; if !rounds > 1000 then dl := true
       done;
       let c = !c in
       String.concat " | " (List.mapi (fun t th ->
           "t" ^ string_of_int t ^ ":" ^ String.concat "" (List.map pcres (List.rev th.c_res))) c.g_thr)
       ^ " | slots: " ^ String.concat "," (List.map hex_of_n c.g_slots)
       ^ " | steps:" ^ String.concat "" (List.map (fun th -> " " ^ string_of_int (int_of_nat th.c_steps)) c.g_thr)
       ^ " | spins:" ^ String.concat "" (List.map (fun th -> " " ^ string_of_int (int_of_nat th.c_spins)) c.g_thr)
       ^ (if !dl then " <deadlock>" else "")
     | _ -> raise Bad)
  | _ -> raise Bad
(* ---- "regs" cases: InfoConcRegDefs.rstep (register / unregister / lookup by several threads) ---- *)
let parse_rop tok =
  match String.split_on_char ':' tok with
  | [k; n] -> let n = int_of_string n in
    if n < 0 || n >= maxn then raise Bad else
      (match k with "R" -> QReg (nat_of_int n) | "U" -> QUnreg (nat_of_int n) | "L" -> QLook (nat_of_int n) | _ -> raise Bad)
  | _ -> raise Bad
let prres x =
  let snap = match x.x_snap with
    | None -> "{?}"
    | Some l -> "{" ^ String.concat "," (List.map (fun (i, n) -> string_of_int (int_of_nat i) ^ "=" ^ string_of_int (int_of_nat n)) l) ^ "}" in
  (match x.x_kind with
   | KReg -> " R=" ^ pid x.x_ret
   | KUnreg -> " U=" ^ pid x.x_ret
   | KSkip -> " U=skip"
   | KLook -> " L=" ^ pid x.x_ret) ^ snap
let do_regs line =
  match String.split_on_char '|' line with
  | [hd; progs; sched] ->
    let pre = List.map (fun w -> match String.split_on_char '@' w with
        | [n; t] -> let n = int_of_string n and t = int_of_string t in
          if n < 0 || n >= maxn || t < 0 || t >= smaxt then raise Bad else (nat_of_int n, nat_of_int t)
        | _ -> raise Bad) (List.tl (words hd)) in
    let progs = List.map (fun th -> List.map parse_rop (words th))
        (List.filter (fun th -> th <> "") (String.split_on_char '/' progs)) in
    if List.length progs > smaxt || List.exists (fun p -> List.length p > smaxops) progs then raise Bad;
    let nt = List.length progs in
    let c0 = rinit code_fixes pre progs in
    let c = ref c0 in
    List.iter (fun t -> if t >= 0 then c := rstep code_fixes !c (nat_of_int t)) (ints sched);
    let rounds = ref 0 and dl = ref false in
    while not (r_all_done !c) && not !dl do
      for t = 0 to nt - 1 do c := rstep code_fixes !c (nat_of_int t) done;
      incr rounds; if !rounds > 1000 then dl := true
    done;
    let c = !c in
    "init{" ^ String.concat "," (List.map (fun e -> string_of_int (int_of_nat e.e_iid) ^ "=" ^ string_of_int (int_of_nat e.e_name)) c0.h_reg) ^ "} | " ^
    String.concat " | " (List.mapi (fun t th ->
        "t" ^ string_of_int t ^ ":" ^ String.concat "" (List.map prres (List.rev th.q_res))) c.h_thr)
    ^ " | reg[" ^ String.concat "," (List.map (fun e -> string_of_int (int_of_nat e.e_iid) ^ "=" ^ string_of_int (int_of_nat e.e_name)) c.h_reg)
    ^ "]max=" ^ string_of_int (int_of_nat c.h_maxp - 1)
    ^ " | steps:" ^ String.concat "" (List.map (fun th -> " " ^ string_of_int (int_of_nat th.q_steps)) c.h_thr)
    ^ " | spins:" ^ String.concat "" (List.map (fun th -> " " ^ string_of_int (int_of_nat th.q_spins)) c.h_thr)
    ^ (if !dl then " <deadlock>" else "")
  | _ -> raise Bad
let () =
  iter_cases Sys.argv.(1) (fun line ->
    if String.length line > 6 && String.sub line 0 6 = "sched " then (try do_sched line with _ -> "<bad case>") else
    if String.length line >= 5 && String.sub line 0 5 = "regs " then (try do_regs line with _ -> "<bad case>") else
    let rec go s segs = function
      | [] ->
        let fin =
          if nodupb (List.map (fun e -> e.e_iid) s.s_reg) then
            let (_, ev) = destroy_all code_fixes (nat_of_int (List.length s.s_reg + 1)) s in "end " ^ events ev
          else "end dup" in
        List.rev (fin :: segs)
      | tok :: rest ->
        (match (try Some (parse (List.length s.s_arrs) tok) with _ -> None) with
         | None -> go s (("bad" ^ pstate s) :: segs) rest
         | Some o ->
           let (s1, r) = step code_fixes s o in
           (match r with
            | RCrash -> List.rev ("<crash>" :: segs)
            | _ -> go s1 ((pres r ^ pstate s1) :: segs) rest)) in
    String.concat " | " (go init [] (words line)))
