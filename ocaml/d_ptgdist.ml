open Ptgdist
open Vio
(* model driver of C05.  Case line:  dist <cfg> <cfg> … | <program>     (program: the one-line format of tools/jdfgen.py)
     cfg = np:place:bcast:short:elt:cores      place = cyc | hash | bc.PR.QC.MB.NB
   For every configuration the DISTRIBUTED model (PTGDist/DistEngine.v instantiated by PTGDistDefs.v) is executed with the
   placement of the configuration, the tree of C13's model of parsec_remote_dep_activate for the topology (c13_parent), a
   protocol choice derived from short/elt, and a saturating schedule (all events, round after round, until nothing is enabled
   and no packet is in flight).  One chunk per configuration, joined by " || ":
     <cfg> ok n=<N> <Class(params)@rank:r<flow>=<v>,…:w<flow>=<v>,…> … D=<v0>,<v1>,…     from the model's log and outputs
     <cfg> failed                                                                         the run failed or did not complete
   The driver also checks the run against the sequential reference seq_exec (C05_complete_run_matches_seq_exec says they
   agree) and prints <model-inconsistent …> otherwise. *)

let toks = ref [||] and pos = ref 0
let next () = let t = !toks.(!pos) in incr pos; t
let nint () = int_of_string (next ())
let binop_of = function
  | "add" -> Oadd | "sub" -> Osub | "mul" -> Omul | "div" -> Odiv | "mod" -> Omod
  | "min" -> Omin | "max" -> Omax | "eq" -> Oeq | "ne" -> One | "lt" -> Olt | "le" -> Ole
  | "gt" -> Ogt | "ge" -> Oge | "and" -> Oand | "or" -> Oor | s -> failwith ("op " ^ s)
let rec p_expr () =
  match next () with
  | "c" -> Ec (z_of_int (nint ()))
  | "g" -> Eg (nat_of_int (nint ()))
  | "l" -> El (nat_of_int (nint ()))
  | "b" -> let o = binop_of (next ()) in let a = p_expr () in let b = p_expr () in Eb (o, a, b)
  | "n" -> En (p_expr ())
  | "t" -> let c = p_expr () in let a = p_expr () in let b = p_expr () in Et (c, a, b)
  | s -> failwith ("expr " ^ s)
let rec times n f = if n <= 0 then [] else let x = f () in x :: times (n - 1) f
let p_target () =
  match next () with
  | "T" -> let c = nint () in let f = nint () in let n = nint () in
    let args = times n (fun () ->
        match next () with
        | "E" -> Aexp (p_expr ())
        | "S" -> let lo = p_expr () in let hi = p_expr () in let st = p_expr () in Arng (lo, hi, st)
        | s -> failwith ("arg " ^ s)) in
    Ttask (nat_of_int c, nat_of_int f, args)
  | "M" -> let n = nint () in Tmem (times n p_expr)
  | "N" -> Tnew
  | "Z" -> Tnull
  | s -> failwith ("target " ^ s)
let p_mode = function "C" -> MCtl | "R" -> MRead | "W" -> MWrite | "B" -> MRW | s -> failwith ("mode " ^ s)

(* returns (program, class names, ndata) *)
let p_program () =
  if next () <> "P" then failwith "P expected";
  let ndata = nint () in
  let ng = nint () in
  let gl = times ng (fun () -> z_of_int (nint ())) in
  let nc = nint () in
  let names = ref [] in
  let cls = times nc (fun () ->
      if next () <> "C" then failwith "C expected";
      let name = next () in
      names := name :: !names;
      let nl = nint () in
      let locals = times nl (fun () ->
          match next () with
          | "R" -> let _ = next () in let lo = p_expr () in let hi = p_expr () in let st = p_expr () in Lrange (lo, hi, st)
          | "V" -> let _ = next () in Ldef (p_expr ())
          | s -> failwith ("local " ^ s)) in
      let np = nint () in
      let params = times np (fun () -> nat_of_int (nint ())) in
      let npl = nint () in
      let place = times npl p_expr in
      let nf = nint () in
      let flows = times nf (fun () ->
          if next () <> "F" then failwith "F expected";
          let _ = next () in
          let m = p_mode (next ()) in
          let nd = nint () in
          let deps = times nd (fun () ->
              let din = (next () = "I") in
              let g = if nint () = 1 then Some (p_expr ()) else None in
              let th = p_target () in
              let el = if nint () = 1 then Some (p_target ()) else None in
              { d_in = din; d_guard = g; d_then = th; d_else = el }) in
          { f_mode = m; f_deps = deps }) in
      let prio = if nint () = 1 then Some (p_expr ()) else None in
      let count = (nint () = 1) in
      { c_locals = locals; c_params = params; c_place = place; c_flows = flows; c_prio = prio; c_count = count }) in
  ({ p_globals = gl; p_classes = cls }, Array.of_list (List.rev !names), ndata)

let str_tid names (ci, ps) =
  names.(int_of_nat ci) ^ "(" ^ String.concat "," (List.map (fun z -> string_of_int (int_of_z z)) ps) ^ ")"
let key_tid (ci, ps) = (int_of_nat ci, List.map int_of_z ps)
let fmt_vals l = String.concat "," (List.map (fun (k, v) -> Printf.sprintf "%d=%d" k v) (List.sort compare l))

let parse_place s =
  match String.split_on_char '.' s with
  | ["cyc"] -> PCyc
  | ["hash"] -> PHash
  | ["bc"; a; b; c; d] -> PBc (nat_of_int (int_of_string a), nat_of_int (int_of_string b), nat_of_int (int_of_string c), nat_of_int (int_of_string d))
  | _ -> failwith ("place " ^ s)

let memo2 f =
  let h = Hashtbl.create 97 in
  fun a b -> let k = (a, b) in
    match Hashtbl.find_opt h k with Some v -> v | None -> let v = f a b in Hashtbl.add h k v; v

let run_cfg p names ndata cfg =
  match String.split_on_char ':' cfg with
  | [np; place; bcast; short; elt; _cores] ->
    let npi = int_of_string np in
    let np = nat_of_int npi in
    let rank_raw = place_rank (parse_place place) np in
    let hr = Hashtbl.create 97 in
    let rank_of t = (match Hashtbl.find_opt hr t with Some v -> v | None -> let v = rank_raw t in Hashtbl.add hr t v; v) in
    let topo = topo_of_code (n_of_int (int_of_string bcast)) in
    let parent = memo2 (fun t d -> c13_parent p np rank_of topo t d) in
    (* which data travel inside the activation: none when the short limit is 0 or the datum is larger than the limit,
       every other output with 640-byte data (only part of a message fits), all of them with small data *)
    let elt = int_of_string elt in
    let eager _ _ k = if short = "0" || elt > 1024 then false else if elt > 256 then (int_of_nat k) mod 2 = 0 else true in
    let cnames = Array.to_list (Array.map (fun s -> List.init (String.length s) (fun i -> z_of_int (Char.code s.[i]))) names) in
    let evs = all_events p np in
    let step s e = dist_step cnames p np rank_of parent eager s e in
    let idle s = List.for_all (fun t -> match s.st t with Ready | Running -> false | Waiting O -> false | _ -> true) (instances p) in
    let rec go n s =
      let s' = List.fold_left step s evs in
      if (s'.net = [] && idle s') || s'.failed || n <= 0 then s' else go (n - 1) s' in
    let s = go (4 * List.length (instances p) + 16) (init tid_eq_dec (instances p) (pred_edges p)) in
    if s.failed || not (all_done p s) || s.net <> [] then cfg ^ " failed"
    else begin
      let bs = log_begins s and es = log_ends s in
      let items = List.map (fun ((t, r), vs) ->
          let rd = List.combine (List.map int_of_nat (d_reads p t)) (List.map int_of_z vs) in
          let wr = (match List.find_opt (fun ((u, _), _) -> u = t) es with
              | Some (_, ovs) -> List.map (fun (k, v) -> (int_of_nat k, int_of_z v)) ovs | None -> []) in
          (key_tid t, t, int_of_nat r, rd, wr)) bs in
      let items = List.sort (fun (a, _, _, _, _) (b, _, _, _, _) -> compare a b) items in
      (* cross-check with the sequential reference *)
      let bad = List.exists (fun (_, t, r, rd, wr) ->
          r <> int_of_nat (rank_of t)
          || rd <> List.map (fun f -> (int_of_nat f, int_of_z (seq_in cnames p t f))) (d_reads p t)
          || wr <> List.map (fun k -> (int_of_nat k, int_of_z (seq_out cnames p t k))) (d_wlist p t)) items in
      let fd = final_data p (state_out s) (nat_of_int ndata) in
      let bad = bad || fd <> final_data p (seq_out cnames p) (nat_of_int ndata)
                || List.length items <> List.length (instances p) in
      if bad then cfg ^ " <model-inconsistent with seq_exec>" else
      Printf.sprintf "%s ok n=%d %s D=%s" cfg (List.length items)
        (String.concat " " (List.map (fun (_, t, r, rd, wr) ->
             Printf.sprintf "%s@%d:r%s:w%s" (str_tid names t) r (fmt_vals rd) (fmt_vals wr)) items))
        (String.concat "," (List.map (function Some v -> string_of_int (int_of_z v) | None -> "*") fd))
    end
  | _ -> cfg ^ " <bad cfg>"

let () =
  iter_cases Sys.argv.(1) (fun line ->
    match split_on '|' line with
    | hd :: prog :: _ ->
      toks := Array.of_list (words prog); pos := 0;
      let (p, names, ndata) = p_program () in
      if not (wf_program p && wf_dist p) then "<model: program not well formed>" else
      let cfgs = (match words hd with _ :: r -> r | [] -> []) in
      String.concat " || " (List.map (run_cfg p names ndata) cfgs)
    | _ -> "<bad case>")
