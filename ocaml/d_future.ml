open Future
open Vio
(* same case syntax and output as harness/h_future.c *)

let rec triples = function
  | a :: b :: c :: r -> (a, b, c) :: triples r
  | _ -> []

(* fold the schedule, then round-robin completion, counting the steps of unfinished threads *)
let run_sched step thr_done nthr c0 nt sched =
  let c = ref c0 in
  let steps = Array.make nt 0 in
  let done_ t = match List.nth_opt (nthr !c) t with Some th -> thr_done th | None -> true in
  let st t = if t >= 0 && t < nt && not (done_ t) then begin
      steps.(t) <- steps.(t) + 1; c := step !c (nat_of_int t) end in
  List.iter st sched;
  let k = ref 0 and dl = ref false in
  let all_done () = List.for_all thr_done (nthr !c) in
  while not (all_done ()) && not !dl do
    for t = 0 to nt - 1 do st t done;
    incr k; if !k > 300 then dl := true
  done;
  (!c, steps, !dl)

let b2i b = if b then 1 else 0
let stepstr a = String.concat "" (Array.to_list (Array.map (fun s -> " " ^ string_of_int s) a))
let resstr f thrs =
  "res:" ^ String.concat " ;" (List.map (fun rs ->
      String.concat "" (List.map (fun r -> " " ^ string_of_int (f r)) (List.rev rs))) thrs)
let rec take n l = if n <= 0 then [] else match l with [] -> [] | x :: r -> x :: take (n - 1) r
let rec drop n l = if n <= 0 then l else match l with [] -> [] | _ :: r -> drop (n - 1) r

let () =
  iter_cases Sys.argv.(1) (fun line ->
    match split_on '|' line with
    | hd :: rest ->
      let hw = words hd in
      let mode = List.hd hw in
      let hv = List.map int_of_string (List.tl hw) in
      let nt = (match mode, hv with
          | "base", _ :: n :: _ -> n
          | "cnt", _ :: _ :: n :: _ -> n
          | "dc", _ :: n :: _ -> n
          | _ -> -1) in
      if nt < 0 || nt > 16 || List.length rest < nt then "<bad case>" else begin
        let opl = List.map (fun s -> triples (ints s)) (take nt rest) in
        let sched = (match drop nt rest with s :: _ -> ints s | [] -> []) in
        if List.exists (fun l -> List.length l > 64) opl then "<bad case>" else
        match mode with
        | "base" ->
          let hascb = List.nth hv 0 <> 0 in
          let ops = List.map (List.map (fun (c, a, _) ->
              if c = 1 then BSet (z_of_int a) else if c = 2 then BGet else BReady)) opl in
          let (c, steps, dl) = run_sched (bstep hascb) b_done (fun c -> c.b_thr) (binit ops) nt sched in
          resstr (function BRSet w -> b2i w | BRGet v -> int_of_z v | BRReady b -> b2i b)
            (List.map (fun th -> th.b_res) c.b_thr)
          ^ " | data=" ^ string_of_int (int_of_z c.b_data) ^ " stat=" ^ string_of_int (b2i c.b_stat)
          ^ " ncb=" ^ string_of_int (int_of_nat c.b_ncb)
          ^ " seen=" ^ String.concat "," (List.rev_map (fun z -> string_of_int (int_of_z z)) c.b_seen)
          ^ " | steps:" ^ stepstr steps ^ (if dl then " <deadlock>" else "")
        | "cnt" ->
          let hascb = List.nth hv 0 <> 0 in
          let count = List.nth hv 1 in
          let ops = List.map (List.map (fun (c, _, _) ->
              if c = 1 then KSet else if c = 2 then KGet else KReady)) opl in
          let (c, steps, dl) = run_sched (kstep hascb) k_done (fun c -> c.k_thr) (kinit (z_of_int count) ops) nt sched in
          resstr (function KRSet w -> b2i w | KRGet v -> int_of_z v | KRReady b -> b2i b)
            (List.map (fun th -> th.k_res) c.k_thr)
          ^ " | count=" ^ string_of_int (int_of_z c.k_count) ^ " stat=" ^ string_of_int (b2i c.k_stat)
          ^ " ncb=" ^ string_of_int (int_of_nat c.k_ncb) ^ " ndec=" ^ string_of_int (int_of_z c.k_ndec)
          ^ " | steps:" ^ stepstr steps ^ (if dl then " <deadlock>" else "")
        | "dc" ->
          let rootspec = List.nth hv 0 in
          let cbvl = Z0 :: List.map z_of_int (drop 2 hv) in     (* index = shape; shape 0 unused *)
          let ops = List.map (List.map (fun (c, a, b) ->
              if c = 1 then DGT (nat_of_int a) else if c = 2 then DSet (nat_of_int a, z_of_int b)
              else if c = 3 then DReady else DGet)) opl in
          let (c, steps, dl) = run_sched (dstep cbvl) d_done (fun c -> c.d_thr)
              (dinit (nat_of_int rootspec) ops) nt sched in
          resstr (function DRGot (_, v) -> int_of_z v | DRSet z -> int_of_z z | DRConst -> 0)
            (List.map (fun th -> th.d_res) c.d_thr)
          ^ " | futs:" ^ String.concat "" (List.map (fun f ->
              Printf.sprintf " %d:%d:%d:%d:%d:%d" (int_of_nat f.f_spec) (b2i f.f_trig) (b2i f.f_comp)
                (int_of_z f.f_data) (b2i f.f_lock) (int_of_nat f.f_ncb)) c.d_futs)
          ^ " | bad=" ^ string_of_int (b2i c.d_bad)
          ^ " | cleanup:" ^ (if dl then "" else
                               String.concat "" (List.map (fun s -> " " ^ string_of_int (int_of_nat s)) (d_cleanup c.d_futs)))
          ^ " | steps:" ^ stepstr steps ^ (if dl then " <deadlock>" else "")
        | _ -> "<bad case>"
      end
    | _ -> "<bad case>")
