open Tpids
open Vio
(* C37 model driver: same case file as harness/h_tpids.c, same observation lines *)

(* a token: an event of the history, the arming of a helper, or the collective *)
type tok = Ev of event | Helper of int * z | SyncTok

let parse_tok t =
  if t = "S" then SyncTok
  else begin
    let n = String.length t in
    let i = ref 0 in
    while !i < n && t.[!i] >= '0' && t.[!i] <= '9' do incr i done;
    let r = int_of_string (String.sub t 0 !i) in
    let a = z_of_int (int_of_string (String.sub t (!i + 1) (n - !i - 1))) in
    match t.[!i] with
    | 'r' -> Ev (At (nat_of_int r, Reserve a)) | 'g' -> Ev (At (nat_of_int r, Register a))
    | 'u' -> Ev (At (nat_of_int r, Unregister a)) | 'l' -> Ev (At (nat_of_int r, Lookup a))
    | 'h' -> Helper (r, a)
    | _ -> failwith "bad token"
  end

let tok_of_event_res e x =
  match e, x with
  | _, RSkip -> None
  | _, RCrash -> Some "CRASH"
  | _, RId i -> (match e with At (_, Register _) -> Some ("g" ^ string_of_int (int_of_z i))
                            | _ -> Some ("i" ^ string_of_int (int_of_z i)))
  | At (_, Unregister _), RUnit -> Some "u"
  | At (_, Lookup _), RPool (Some p) -> Some ("p" ^ string_of_int (int_of_z p))
  | At (_, Lookup i), RPool None -> Some (if int_of_z i = 0 then "z" else "-")
  | At (_, Lookup _), RJunk -> Some "z"
  | _, _ -> Some "S"

let run_sys line =
  match String.index_opt line ':' with
  | None -> "<bad case>"
  | Some c ->
    let n = int_of_string (String.trim (String.sub line 4 (c - 4))) in
    let toks = List.map parse_tok (words (String.sub line (c + 1) (String.length line - c - 1))) in
    (* the synchronisation is one critical section of the table's lock: a reservation by another thread of
       the process that is attempted during the collective is ordered after it ("H:after") *)
    let pending = Array.make n [] in
    let evs = List.concat_map (function
      | Ev e -> [(e, "")]
      | Helper (r, p) -> (if r < n then pending.(r) <- pending.(r) @ [p]); []
      | SyncTok ->
        let l = ref [(SyncAll, "")] in
        Array.iteri (fun r ps ->
          List.iteri (fun k p ->
            l := !l @ [(At (nat_of_int r, Reserve p), if k = 0 then " H:after" else "");
                       (At (nat_of_int r, Register p), "")]) ps;
          pending.(r) <- []) pending;
        !l) toks in
    let h = List.map fst evs in
    let (_, xs) = sys_run (sys_init (nat_of_int n)) h in
    let bufs = Array.init n (fun _ -> Buffer.create 64) in
    let dead = Array.make n false in
    List.iter2 (fun (e, pre) x ->
      match e with
      | SyncAll -> Array.iteri (fun r b -> if not dead.(r) then Buffer.add_string b " S") bufs
      | At (r, _) ->
        let r = int_of_nat r in
        if r < n then
          (match tok_of_event_res e x with
           | None -> ()
           | Some s -> if not dead.(r) then begin
               Buffer.add_string bufs.(r) (pre ^ " " ^ s);
               if s = "CRASH" then dead.(r) <- true end)) evs xs;
    String.concat " | " (Array.to_list (Array.mapi (fun r b -> Printf.sprintf "r%d:%s" r (Buffer.contents b)) bufs))

let run_conc t k =
  (* any interleaving of critical sections is a sequential history of T*K reservations *)
  let tot = t * k in
  let h = List.init tot (fun i -> At (O, Reserve (z_of_int (i + 1)))) in
  let (_, xs) = sys_run (sys_init (S O)) h in
  let ids = List.sort compare (List.map (function RId i -> int_of_z i | _ -> -1) xs) in
  let rec distinct = function a :: (b :: _ as t) -> (if a <> b then 1 else 0) + distinct t | _ -> 1 in
  Printf.sprintf "conc n=%d distinct=%d min=%d max=%d" tot (distinct ids) (List.hd ids) (List.nth ids (tot - 1))

let () =
  iter_cases Sys.argv.(1) (fun line ->
    match words line with
    | "sys" :: _ -> run_sys line
    | ["conc"; t; k] -> run_conc (int_of_string t) (int_of_string k)
    | _ -> "<bad case>")
