(* C06 model driver: runs the extracted context model (CtxWaitDefs.step) on the case's program
   under a pseudo-random schedule derived from the case's seed, and prints what the harness
   observes.  case:  ctx <threads> <sched> <spin> <seed> <cold> | <pools> | <nested> | <ops>   *)
open Ctxwait
open Vio

let lcg s = (s * 1103515245 + 12345) land 0x3fffffff

type nest = NT of int * int * int | NC of int * int

let () =
  iter_cases Sys.argv.(1) (fun line ->
    match split_on '|' line with
    | [hd; pl; ne; ops] ->
      let seed = (match words hd with ["ctx"; _; _; _; seed; _] -> int_of_string seed | _ -> failwith "header") in
      let decls = List.map (fun w ->
          if w = "D" then DDtd
          else Scanf.sscanf w "P%d:%d" (fun nt _ -> DPtg (nat_of_int nt))) (words pl) in
      let np = List.length decls in
      let nested = List.map (fun w ->
          if w.[0] = 't' then Scanf.sscanf w "t%d.%d+%d" (fun p i q -> NT (p, i, q))
          else Scanf.sscanf w "c%d+%d" (fun p q -> NC (p, q))) (words ne) in
      let s = ref (init decls) in
      let rng = ref (seed + 1) in
      let rnd n = rng := lcg !rng; (!rng lsr 8) mod n in
      let cb_fired = Array.make (max np 1) false in
      let pool q = List.nth (pools !s) q in
      let do_ev e = s := step !s e in
      (* callbacks that just started run their nested adds (first call only) *)
      let fire_callbacks () =
        List.iteri (fun p pp ->
          match k_st pp with
          | STermCb -> if not cb_fired.(p) then begin
                         cb_fired.(p) <- true;
                         List.iter (function NC (p', q) when p' = p -> do_ev (CAdd (nat_of_int p, nat_of_int q)) | _ -> ()) nested
                       end
          | _ -> ()) (pools !s) in
      let worker_events () =
        List.concat (List.mapi (fun q pp ->
          let nq = nat_of_int q in
          [WStartup nq; WStartupDone nq; WCbDone nq; WFin nq]
          @ List.concat (List.mapi (fun i _ -> [WBegin (nq, nat_of_int i); WEnd (nq, nat_of_int i)]) (k_tasks pp)))
          (pools !s)) in
      let one_worker_step () =
        let eff = List.filter (fun e -> step !s e <> !s) (worker_events ()) in
        match eff with
        | [] -> false
        | _ ->
          let e = List.nth eff (rnd (List.length eff)) in
          do_ev e;
          (match e with
           | WBegin (q, i) ->
             let q = int_of_nat q and i = int_of_nat i in
             List.iter (function NT (p', i', t) when p' = q && i' = i -> do_ev (TAdd (nat_of_int q, nat_of_int i, nat_of_int t)) | _ -> ()) nested
           | _ -> ());
          fire_callbacks ();
          true in
      let drain () = while one_worker_step () do () done in
      let some_steps () = let k = rnd 7 in let i = ref 0 in while !i < k && one_worker_step () do incr i done in
      let waits = ref [] and eps = ref 0 in
      let all_settled () = settled !s in
      List.iter (fun w ->
        (match w.[0] with
         | 'S' -> do_ev MStart
         | 'A' -> do_ev (MAdd (nat_of_int (int_of_string (String.sub w 1 (String.length w - 1)))))
         | 'I' -> Scanf.sscanf w "I%d:%d" (fun q k -> for _ = 1 to k do do_ev (MInsert (nat_of_int q)); some_steps () done)
         | '?' -> do_ev MTest
         | 'F' -> do_ev (MFree (nat_of_int (int_of_string (String.sub w 1 (String.length w - 1)))))
         | 'W' ->
           let before = !s in
           do_ev MWaitEnter;
           if !s = before then waits := "e" :: !waits
           else begin
             fire_callbacks ();
             drain ();
             let ok = all_settled () in
             let e0 = epoch !s in
             do_ev MWaitLeave;
             if epoch !s = e0 then waits := "<stuck>" :: !waits
             else (incr eps; waits := (if ok then "1" else "0") :: !waits)
           end
         | 'T' ->
           let q = int_of_string (String.sub w 1 (String.length w - 1)) in
           let before = !s in
           do_ev (MTpEnter (nat_of_int q));
           if !s = before then waits := "e" :: !waits
           else begin
             fire_callbacks ();
             let fin () = (match k_st (pool q) with STerminated -> true | _ -> false) in
             while not (fin ()) && one_worker_step () do () done;
             let ok = fin () && all_done (pool q) && p_quiet (pool q) in
             let b = !s in
             do_ev (MTpLeave (nat_of_int q));
             if !s = b then waits := "<stuck>" :: !waits else waits := (if ok then "1" else "0") :: !waits
           end
         | _ -> failwith "op");
        fire_callbacks ();
        some_steps ()) (words ops);
      let st = !s in
      let ints l = String.concat "," (List.map (fun x -> string_of_int (int_of_nat x)) l) in
      Printf.sprintf "ran=%s cb=%s waits=%s tests=%s act=%d ep=%d"
        (ints (ran st)) (ints (cbs st)) (String.concat " " (List.rev !waits))
        (String.concat " " (List.rev_map (fun b -> if b then "1" else "0") (obs st)))
        (int_of_z (active st)) !eps
    | _ -> "<bad case>")
