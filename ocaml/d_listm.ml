open Listm
open Vio
(* C31 model driver: same case grammar and output as harness/h_listm.c; the API
   variant letter is ignored (locked, nolock, dequeue and fifo entry points are the
   same operation on the model). *)
exception Bad
let item id p = (z_of_int (int_of_string id), z_of_int (int_of_string p))
let rec items = function
  | [] -> []
  | id :: p :: t -> item id p :: items t
  | _ -> raise Bad
let lst = function "0" -> false | "1" -> true | _ -> raise Bad
let nat s = let k = int_of_string s in if k < 0 then raise Bad else nat_of_int k
let parse w =
  match w with
  | ["rp"; id; p] -> RingPush (item id p)
  | ["rq"; id; p] -> RingPushSorted (item id p)
  | ["rc"] -> RingChop
  | "rg" :: t -> RingMerge (items t)
  | o :: v :: l :: t when String.length v = 1 ->
    let l = lst l in
    (match o, t with
     | "pf", [id; p] -> PushFront (l, item id p)
     | "pb", [id; p] -> PushBack (l, item id p)
     | "of", [] -> PopFront l
     | "ob", [] -> PopBack l
     | "cf", t -> ChainFront (l, items t)
     | "cb", t -> ChainBack (l, items t)
     | "ps", [id; p] -> PushSorted (l, item id p)
     | "cs", t -> ChainSorted (l, items t)
     | "so", [] -> Sort l
     | "ie", [] -> IsEmpty l
     | "rm", [k] -> Remove (l, nat k)
     | "ab", [k; id; p] -> AddBefore (l, nat k, item id p)
     | "aa", [k; id; p] -> AddAfter (l, nat k, item id p)
     | "ct", [id] -> Contains (l, z_of_int (int_of_string id))
     | "un", [] -> Unchain l
     | "xf", [] -> ChainRingFront l
     | "xb", [] -> ChainRingBack l
     | "xs", [] -> ChainRingSorted l
     | _ -> raise Bad)
  | _ -> raise Bad
let pitem (i, p) = string_of_int (int_of_z i) ^ ":" ^ string_of_int (int_of_z p)
let pitems = function [] -> "." | l -> String.concat "," (List.map pitem l)
let pret = function
  | RNone -> "-"
  | RItem x -> pitem x
  | RRemoved (x, None) -> pitem x ^ "<g"
  | RRemoved (x, Some p) -> pitem x ^ "<" ^ pitem p
  | RBool b -> if b then "1" else "0"
(* which objects an operation shows: (list?, ring?) *)
let shows = function
  | RingPush _ | RingPushSorted _ | RingChop | RingMerge _ -> (None, true)
  | Unchain l | ChainRingFront l | ChainRingBack l | ChainRingSorted l -> (Some l, true)
  | PushFront (l, _) | PushBack (l, _) | PopFront l | PopBack l | ChainFront (l, _) | ChainBack (l, _)
  | PushSorted (l, _) | ChainSorted (l, _) | Sort l | Remove (l, _) | AddBefore (l, _, _)
  | AddAfter (l, _, _) | IsEmpty l | Contains (l, _) -> (Some l, false)
(* ids must be fresh, as in the harness *)
let fresh seen o =
  let ins = match o with
    | PushFront (_, x) | PushBack (_, x) | PushSorted (_, x) | AddBefore (_, _, x) | AddAfter (_, _, x)
    | RingPush x | RingPushSorted x -> [x]
    | ChainFront (_, xs) | ChainBack (_, xs) | ChainSorted (_, xs) | RingMerge xs -> xs
    | _ -> [] in
  List.iter (fun (i, _) -> let i = int_of_z i in
              if i < 0 || i >= 4096 || Hashtbl.mem seen i then raise Bad; Hashtbl.add seen i ()) ins
(* ---- concurrent cases: conc I: items / thread ops ; ... / ... / S: schedule ---- *)
let parse_cop w =
  match w with
  | o :: v :: "0" :: t when String.length v = 1 && String.contains "ldftuv" v.[0] ->
    let tr = String.contains "tuv" v.[0] in
    (match o, t with
     | "pf", [id; p] -> CPushFront (item id p)
     | "pb", [id; p] -> CPushBack (item id p)
     | "of", [] -> CPopFront tr
     | "ob", [] -> CPopBack tr
     | "cf", (_ :: _ as t) -> CChainFront (items t)
     | "cb", (_ :: _ as t) -> CChainBack (items t)
     | "ps", [id; p] -> CPushSorted (item id p)
     | "cs", t -> CChainSorted (items t)
     | "so", [] -> CSort
     | "ie", [] -> CIsEmpty
     | "un", [] -> CUnchain
     | _ -> raise Bad)
  | _ -> raise Bad
let cop_items = function
  | CPushFront x | CPushBack x | CPushSorted x -> [x]
  | CChainFront xs | CChainBack xs | CChainSorted xs -> xs
  | _ -> []
let pcres = function
  | CNone | CBusy -> "-"
  | CItem x -> pitem x
  | CBool b -> if b then "1" else "0"
  | CItems l -> "[" ^ pitems l ^ "]"
let run_conc line =
  let secs = List.map String.trim (String.split_on_char '/' (String.sub line 5 (String.length line - 5))) in
  let n = List.length secs in
  if n < 3 then raise Bad;
  let init = match words (List.hd secs) with "I:" :: t -> items t | _ -> raise Bad in
  let progs = List.map (fun sec ->
      let ops = List.map words (String.split_on_char ';' sec) in
      if ops = [] || List.length ops > 16 then raise Bad;
      List.map parse_cop ops) (List.filteri (fun i _ -> i > 0 && i < n - 1) secs) in
  let sched = match words (List.nth secs (n - 1)) with "S:" :: t -> List.map int_of_string t | _ -> raise Bad in
  let seen = Hashtbl.create 64 in
  List.iter (fun (i, _) -> let i = int_of_z i in
              if i < 0 || i >= 4096 || Hashtbl.mem seen i then raise Bad; Hashtbl.add seen i ())
    (init @ List.concat_map (fun p -> List.concat_map cop_items p) progs);
  let nt = List.length progs in
  let c = ref (cinit init progs) in
  let is_done th = th.todo = [] in
  let st t = if t >= 0 && t < nt && not (is_done (List.nth !c.thrs t)) then c := cstep !c (nat_of_int t) in
  List.iter st sched;
  let k = ref 0 and dl = ref false in
  while not (List.for_all is_done !c.thrs) && not !dl do
    for t = 0 to nt - 1 do st t done;
    incr k; if !k > 1000 then dl := true
  done;
  let c = !c in
  let thr_str t th =
    "T" ^ string_of_int t ^ String.concat "" (List.map (fun (((_, r), i), e) ->
        " " ^ pcres r ^ "@" ^ string_of_int (int_of_nat i) ^ "-" ^ string_of_int (int_of_nat e)) th.hist)
    ^ String.concat "" (List.map (fun _ -> " ?") th.todo) in
  String.concat " / " (List.mapi thr_str c.thrs)
  ^ " / L " ^ pitems c.lst ^ (if c.lock <> None then " LOCKED" else "")
  ^ " / D " ^ pitems (List.rev c.lst)
  ^ " / steps" ^ String.concat "" (List.map (fun th -> " " ^ string_of_int (int_of_nat th.nsteps)) c.thrs)
  ^ (if !dl then " DEADLOCK" else "")

let () =
  iter_cases Sys.argv.(1) (fun line ->
    try
      if String.length line >= 5 && String.sub line 0 5 = "conc " then run_conc line else
      let ops = List.filter (fun w -> w <> []) (List.map words (String.split_on_char ';' line)) in
      let seen = Hashtbl.create 64 in
      let st = ref init in
      let segs = List.map (fun w ->
        let o = parse w in
        fresh seen o;
        let (s', r) = step !st o in
        st := s';
        let (l, rg) = shows o in
        pret r
        ^ (match l with Some l -> " " ^ pitems (getl s' l) | None -> "")
        ^ (if rg then " R " ^ pitems (ring s') else "")) ops in
      if segs = [] then "<bad case>" else String.concat " | " segs
    with Bad | Failure _ -> "<bad case>")
