(* C06 T-sched model driver: follows harness/h_ctxbarrier.c step by step.  One step of a thread in the
   harness = the code of parsec/scheduling.c (+ the harness's select) between two yields; for every such
   step this driver performs the events of the refined model (CtxBarrierDefs.rstep) that the code stands
   for, under the same schedule, and prints the same line (per-thread step counts, returns of
   parsec_context_wait, items finished, hash of (active_taskpools, barrier generation, arrivals) after every step).
   case:  bar <n> | <sizes> | <master program> | <schedule>                                              *)
open Ctxwait
open Vio

type pos =
  | M_init | M_add of int | M_start_arrive | M_start_spin | M_start_inc | M_wait_dec | M_done
  | Sel | Work of int * int | Dec of int | End_spin | Arrive_s | S_spin

let () =
  iter_cases Sys.argv.(1) (fun line ->
    match split_on '|' line with
    | [hd; szs; prog; sched] ->
      let n = (match words hd with ["bar"; n] -> int_of_string n | _ -> failwith "header") in
      let sizes = ints szs in
      let np = List.length sizes in
      let ops = Array.of_list (words prog) in
      let sched = ints sched in
      let r = ref (rinit (List.map (fun k -> DPtg (nat_of_int k)) sizes) (nat_of_int n)) in
      let pos = Array.make n S_spin in
      pos.(0) <- M_init;
      let steps = Array.make n 0 in
      let opi = ref 0 and eps = ref 0 and oks = Buffer.create 8 and trh = ref 0 in
      let ev e = r := rstep !r e in
      let bar t = ev (RBar (nat_of_int t)) in
      let inn t e = ev (RIn (nat_of_int t, e)) in
      let pc t = pc_of !r (nat_of_int t) in
      let pool q = List.nth (pools (inner !r)) q in
      let rec next_op () =
        if !opi >= Array.length ops then pos.(0) <- M_done
        else begin
          let o = ops.(!opi) in incr opi;
          match o.[0] with
          | 'A' -> pos.(0) <- M_add (int_of_string (String.sub o 1 (String.length o - 1)))
          | 'S' -> if started (inner !r) then next_op () else pos.(0) <- M_start_arrive
          | 'W' -> if started (inner !r) then pos.(0) <- M_wait_dec else next_op ()
          | _ -> failwith "op"
        end in
      let rec loop_read t =
        bar t;
        (match pc t with
         | TLoop -> pos.(t) <- Sel
         | TWaitE _ -> pos.(t) <- End_spin
         | TPassed -> passed_end t
         | _ -> failwith "loop_read")
      and passed_end t =
        if t = 0 then begin
          let s = inner !r in
          let ok = (int_of_z (active s) = 0) && quiescent s && settled s in
          Buffer.add_char oks (if ok then '1' else '0');
          bar 0; incr eps; next_op ()
        end else pos.(t) <- Arrive_s in
      let take_work () =
        let ps = pools (inner !r) in
        let rec first i f = function [] -> None | p :: l -> (match f i p with Some x -> Some x | None -> first (i + 1) f l) in
        match first 0 (fun q p -> if k_added p && int_of_nat (k_su p) = 1 then Some (q, -1) else None) ps with
        | Some x -> Some x
        | None ->
          first 0 (fun q p ->
            if k_added p && int_of_nat (k_su p) >= 2 then begin
              let rec idle i = function [] -> None | TIdle :: _ -> Some (q, i) | _ :: l -> idle (i + 1) l in
              idle 0 (k_tasks p)
            end else None) ps in
      let resume t =
        steps.(t) <- steps.(t) + 1;
        (match pos.(t) with
         | M_init -> next_op ()
         | M_add q -> inn 0 (MAdd (nat_of_int q)); next_op ()
         | M_start_arrive ->
           inn 0 MStart;
           (match pc 0 with TInc -> pos.(0) <- M_start_inc | _ -> pos.(0) <- M_start_spin)
         | M_start_spin -> bar 0; (match pc 0 with TInc -> pos.(0) <- M_start_inc | _ -> ())
         | M_start_inc -> bar 0; next_op ()
         | M_wait_dec -> inn 0 MWaitEnter; loop_read 0
         | M_done -> ()
         | Sel ->
           (match take_work () with
            | Some (q, i) ->
              if i < 0 then inn t (WStartup (nat_of_int q)) else inn t (WBegin (nat_of_int q, nat_of_int i));
              pos.(t) <- Work (q, i)
            | None -> loop_read t)
         | Work (q, i) ->
           if i < 0 then inn t (WStartupDone (nat_of_int q)) else inn t (WEnd (nat_of_int q, nat_of_int i));
           (match k_st (pool q) with STermCb -> pos.(t) <- Dec q | _ -> loop_read t)
         | Dec q -> inn t (WCbDone (nat_of_int q)); inn t (WFin (nat_of_int q)); loop_read t
         | End_spin -> bar t; (match pc t with TPassed -> passed_end t | _ -> ())
         | Arrive_s -> bar t; (match pc t with TLoop -> loop_read t | _ -> pos.(t) <- S_spin)
         | S_spin -> bar t; (match pc t with TLoop -> loop_read t | _ -> ()));
        let v = (int_of_z (seen_active !r) land 0xffffffff) * 1000003 + (int_of_nat (bgen !r) + 1) * 1009 + int_of_nat (bcnt !r) in
        trh := ((!trh * 1099511628211) lxor (v + 0x1E3779B97F4A7C15)) land 0xFFFFFFFFFFFF in
      let done_ () = pos.(0) = M_done in
      List.iter (fun t -> if not (done_ ()) && t >= 0 && t < n then resume t) sched;
      let guard = ref 0 in
      while not (done_ ()) && !guard <= 20000 do
        for t = 0 to n - 1 do if not (done_ ()) then resume t done;
        incr guard
      done;
      let ran = List.map (fun p -> List.length (List.filter (function TDone -> true | _ -> false) (k_tasks p))
                                   + (if int_of_nat (k_su p) = 3 then 1 else 0)) (pools (inner !r)) in
      ignore np;
      Printf.sprintf "steps=%s ep=%d ok=%s ran=%s tr=%x%s"
        (String.concat "," (Array.to_list (Array.map string_of_int steps))) !eps
        (if !eps = 0 then "-" else Buffer.contents oks) (String.concat "," (List.map string_of_int ran)) !trh
        (if done_ () then "" else " deadlock")
    | _ -> "<bad case>")
