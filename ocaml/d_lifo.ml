open Lifo
open Vio
(* same case syntax as harness/h_lifo.c:
     CH NT NI s0.. | K own1..ownK NOPS op1.. | (NT thread fields) | sched..
   op codes: 1 pop, 2 try_pop, 3 is_empty, 100+j push (j-th held item), 200+n chain (first n held items) *)
let op_of_int k =
  if k = 1 then OPop else if k = 2 then OTryPop else if k = 3 then OEmpty
  else if k >= 200 then OChain (nat_of_int (k - 200)) else OPush (nat_of_int (k - 100))
let int_of_op = function
  | OPop -> 1 | OTryPop -> 2 | OEmpty -> 3
  | OChain n -> 200 + int_of_nat n | OPush j -> 100 + int_of_nat j

let str_res = function
  | RPushed xs -> "p" ^ String.concat "." (List.map (fun x -> string_of_int (int_of_nat x)) xs)
  | RItem x -> string_of_int (int_of_nat x)
  | RNull -> "N"
  | REmpty b -> if b then "e1" else "e0"

let parse_thread f =
  match ints f with
  | k :: rest ->
    let own = List.filteri (fun i _ -> i < k) rest in
    let rest = List.filteri (fun i _ -> i >= k) rest in
    (match rest with
     | nops :: ops when nops >= 1 && List.length ops = nops && List.length own = k ->
       Some (List.map nat_of_int own, List.map op_of_int ops)
     | _ -> None)
  | [] -> None

let () =
  iter_cases Sys.argv.(1) (fun line ->
    let fs = split_on '|' line in
    match fs with
    | hd :: rest ->
      (match ints hd with
       | ch :: nt :: ni :: s0 when nt >= 1 && nt <= 16 && List.length rest = nt + 1 ->
         let thf = List.filteri (fun i _ -> i < nt) rest in
         let sched = ints (List.nth rest nt) in
         let ths = List.map parse_thread thf in
         if List.exists (fun x -> x = None) ths then "<bad case>" else begin
           let ths = List.map (function Some x -> x | None -> assert false) ths in
           let c = ref (init (ch <> 0) (List.map nat_of_int s0) ths) in
           let steps = Array.make nt 0 in
           let done_ t = match List.nth_opt !c.thr t with Some th -> t_done th | None -> true in
           let st t = if t >= 0 && t < nt && not (done_ t) then begin
               steps.(t) <- steps.(t) + 1; c := step true !c (nat_of_int t) end in
           List.iter st sched;
           let k = ref 0 and dl = ref false in
           while not (List.for_all t_done !c.thr) && not !dl do
             for t = 0 to nt - 1 do st t done;
             incr k; if !k > 1000 then dl := true
           done;
           let c = !c in
           let ev = List.filter_map (function
               | EInv (t, o) -> Some (Printf.sprintf "i%d:%d" (int_of_nat t) (int_of_op o))
               | ERes (t, r) -> Some (Printf.sprintf "r%d:%s" (int_of_nat t) (str_res r))
               | ELin _ -> None) (List.rev c.hist) in
           let stack = walk (nat_of_int (ni + 1)) c.nxt c.hitem in
           let nats l = String.concat "" (List.map (fun x -> " " ^ string_of_int (int_of_nat x)) l) in
           (* sanity of the model itself: its own LP log must replay to the concrete contents *)
           let lin_ok = (match replay (List.map nat_of_int s0) c.hist with
               | Some s -> List.map int_of_nat s = List.map int_of_nat stack
               | None -> false) in
           "hist:" ^ String.concat "" (List.map (fun e -> " " ^ e) ev)
           ^ " | stack:" ^ (if List.length stack > ni then " <cycle>" else nats stack)
           ^ " | cnt=" ^ string_of_int (int_of_z c.hcnt)
           ^ " | own:" ^ String.concat " ;" (List.map (fun th -> nats th.t_own) c.thr)
           ^ " | steps:" ^ String.concat "" (Array.to_list (Array.map (fun s -> " " ^ string_of_int s) steps))
           ^ (if !dl then " <deadlock>" else "")
           ^ (if lin_ok then "" else " <MODEL-LP-LOG-NOT-A-STACK-HISTORY>")
         end
       | _ -> "<bad case>")
    | _ -> "<bad case>")
