open Rwlock
open Vio
(* same case syntax and output as harness/h_rwlock.c:
     a b | prog0 prog1 ... | sched...
     log: +R0 +W1 -R0 ... | words: rin rout win wout | steps: .. | spins: .. [<deadlock>] *)
let prog_of w =
  if w = "-" then [] else
    List.init (String.length w) (fun i -> match w.[i] with 'R' -> KR | 'W' -> KW | _ -> failwith "bad op")

let ev_str e =
  let k = function KR -> "R" | KW -> "W" in
  match e with
  | Enter (t, kd) -> "+" ^ k kd ^ string_of_int (int_of_nat t)
  | Exit (t, kd) -> "-" ^ k kd ^ string_of_int (int_of_nat t)

let () =
  iter_cases Sys.argv.(1) (fun line ->
    match split_on '|' line with
    | hd :: pr :: sc :: _ ->
      (match ints hd with
       | [a; b] ->
         let progs = List.map prog_of (words pr) in
         let nt = List.length progs in
         if nt > 32 || List.exists (fun p -> List.length p > 64) progs then "<bad case>" else begin
         let sched = ints sc in
         let c = ref (init_at (z_of_int a) (z_of_int b) progs) in
         let steps = Array.make nt 0 and spins = Array.make nt 0 in
         let thr t = List.nth_opt !c.thrs t in
         let done_ t = match thr t with Some th -> is_done th | None -> true in
         let st t = if t >= 0 && t < nt && not (done_ t) then begin
             steps.(t) <- steps.(t) + 1;
             c := step !c (nat_of_int t);
             (match thr t with Some th when is_wait th -> spins.(t) <- spins.(t) + 1 | _ -> ())
           end in
         List.iter st sched;
         let k = ref 0 and dl = ref false in
         while not (all_done !c) && not !dl do
           for t = 0 to nt - 1 do st t done;
           incr k; if !k > 1000 then dl := true
         done;
         let arr a = String.concat "" (Array.to_list (Array.map (fun s -> " " ^ string_of_int s) a)) in
         "log:" ^ String.concat "" (List.rev_map (fun e -> " " ^ ev_str e) !c.log)
         ^ Printf.sprintf " | words: %d %d %d %d" (int_of_z !c.rin) (int_of_z !c.rout) (int_of_z !c.win) (int_of_z !c.wout)
         ^ " | steps:" ^ arr steps ^ " | spins:" ^ arr spins ^ (if !dl then " <deadlock>" else "")
         end
       | _ -> "<bad case>")
    | _ -> "<bad case>")
