(* C14 model driver.
     vm_ce <casefile>
   one output line per case.  For a "ce" case the real run's per-rank recordings are expected in
   <casefile>.d/<caseindex>.<rank> (written by checks/C14.py's run_impl): the Testsome results and the
   put/get calls found there are the oracle inputs of the extracted engine model, whose request
   arrays are compared with the recorded ones.  Everything else on the line is predicted from the case
   alone.  "tag" cases sweep next_tag. *)
open Ce
open Vio

let fnv s h =
  let h = ref h in
  String.iter (fun c -> h := Int64.mul (Int64.logxor !h (Int64.of_int (Char.code c))) 0x100000001b3L) s; !h
let fnv0 = 0xcbf29ce484222325L

let read_lines f =
  try
    let ic = open_in f in
    let r = ref [] in
    (try while true do r := input_line ic :: !r done with End_of_file -> ());
    close_in ic; Some (List.rev !r)
  with Sys_error _ -> None

let name_of = function
  | None -> "-"
  | Some (EAm (t, i)) -> Printf.sprintf "a%d.%d" (int_of_nat t) (int_of_nat i)
  | Some (EDyn (isrecv, n)) -> Printf.sprintf "%c%d" (if isrecv then 'r' else 's') (int_of_nat n)
let snap_str l = String.concat "" (List.map (fun x -> " " ^ name_of x) l)

(* script tokens of one rank: (opid, kind, tag, dst, size) *)
let parse_script s =
  List.mapi (fun opid tok ->
      let tok = if tok.[String.length tok - 1] = '!' then String.sub tok 0 (String.length tok - 1) else tok in
      let body = String.sub tok 1 (String.length tok - 1) in
      match tok.[0], String.split_on_char ':' body with
      | 'a', [t; d; z] -> (opid, 'a', int_of_string t, int_of_string d, int_of_string z)
      | 'p', [d; z] -> (opid, 'p', 0, int_of_string d, int_of_string z)
      | 'g', [d; z] -> (opid, 'g', 0, int_of_string d, int_of_string z)
      | ('w' | 'z'), _ -> (opid, 'w', 0, 0, 0)
      | _ -> failwith "bad token") (words s)

(* the recorded events of one rank -> model events, recorded snapshots *)
let parse_trace lines =
  let evs = ref [] and snaps = ref [] and tags = ref [] in
  let internal name = String.length name > 2 && name.[0] = 'a' && (String.sub name 0 3 = "a0." || String.sub name 0 3 = "a1.") in
  let rec top = function
    | [] -> ()
    | l :: r ->
      let w = words l in
      (match w with
       | "tags" :: ts -> tags := List.map (fun x -> match String.split_on_char ':' x with [a; b] -> (int_of_string a, int_of_string b) | _ -> failwith "tags") ts; top r
       | "S" :: _ -> snaps := String.sub l 1 (String.length l - 1) :: !snaps; top r
       | "F" :: _ -> snaps := String.sub l 1 (String.length l - 1) :: !snaps; top r
       | ["F"] -> snaps := "" :: !snaps; top r
       | "P" :: _ -> evs := EvOp OSend :: !evs; top r
       | "G" :: _ -> evs := EvOp ORecv :: !evs; top r
       | "T" :: reps ->
         let reps = List.map (fun x -> match String.split_on_char ':' x with [a; b] -> (int_of_string a, b) | _ -> failwith "T") reps in
         batch reps [] r
       | _ -> top r)
  (* inside a batch: callbacks are bracketed by c .. e *)
  and batch reps acc r =
    match reps with
    | [] -> evs := EvTest (List.rev acc) :: !evs; top r
    | (i, name) :: more when internal name -> batch more ((nat_of_int i, []) :: acc) r
    | (i, _) :: more ->
      (* skip to the next 'c', collect P/G up to 'e' *)
      let rec skip = function
        | l :: r when words l = ["c"] -> collect [] r
        | l :: r when (match words l with "S" :: _ | "F" :: _ | "T" :: _ | "end" :: _ -> true | _ -> false) -> ([], l :: r)  (* callback never ran *)
        | _ :: r -> skip r
        | [] -> ([], [])
      and collect ops = function
        | l :: r when words l = ["e"] -> (List.rev ops, r)
        | l :: r when words l = ["P"] -> collect (OSend :: ops) r
        | l :: r when words l = ["G"] -> collect (ORecv :: ops) r
        | _ :: r -> collect ops r
        | [] -> (List.rev ops, []) in
      let (ops, r') = skip r in
      batch more ((nat_of_int i, ops) :: acc) r'
  in
  top lines;
  (!tags, List.rev !evs, List.rev !snaps)

let do_ce line idx casefile =
  match split_on '|' line with
  | head :: scripts ->
    (match words head with
     | ["ce"; k; p; t; d; r; ub; _hseed; _hide; _maxlen] ->
       let k = int_of_string k and p = int_of_string p and t = int_of_string t and d = int_of_string d
       and r = int_of_string r and ub = int_of_string ub in
       if List.length scripts <> k then "<bad case>" else begin
         let scr = List.map parse_script scripts in
         (* global transfer ids: rank-major, script order *)
         let xfers = ref [] and nx = ref 0 in
         List.iteri (fun rank ops -> List.iter (fun (_, kind, _, dst, size) ->
             if kind = 'p' || kind = 'g' then begin xfers := (!nx, kind, rank, dst, size) :: !xfers; incr nx end) ops) scr;
         let xfers = List.rev !xfers in
         (* data tags: the i-th one-sided operation of a process gets the i-th value of its own counter.  A put by x into y and
            a get by y from x both move data x -> y: when they carry the same tag MPI may pair them crosswise (hypothesis of the
            model violated: nothing is predicted) *)
         let maxt0 = if ub < 0 then 2147483647 else ub in
         let tagged = List.concat (List.mapi (fun rank ops ->
             let mine = List.filter (fun (_, kind, _, _, _) -> kind = 'p' || kind = 'g') ops in
             let ts = List.map int_of_z (tags_from (z_of_int maxt0) (z_of_int 1) (z_of_int 0) (nat_of_int (List.length mine))) in
             List.map2 (fun (_, kind, _, dst, _) tg -> if kind = 'p' then ('p', rank, dst, tg) else ('g', dst, rank, tg)) mine ts) scr) in
         let collide = List.exists (fun (k1, s1, d1, t1) -> k1 = 'p' &&
             List.exists (fun (k2, s2, d2, t2) -> k2 = 'g' && s1 = s2 && d1 = d2 && t1 = t2) tagged) tagged in
         if collide then "<undefined: a get and a put carry the same (source, destination, tag)>" else
         let per_rank me =
           let am = List.concat (List.mapi (fun src ops ->
               List.filter_map (fun (opid, kind, tag, dst, size) -> if kind = 'a' && dst = me then Some (tag, src, opid, size) else None) ops) scr) in
           let am = List.sort compare am in
           let os = List.concat (List.map (fun (id, kind, o, tg, size) ->
               (if o = me then [if kind = 'p' then Printf.sprintf "pl.%d.%d" id tg else Printf.sprintf "gl.%d.%d.1" id tg] else [])
               @ (if tg = me then [if kind = 'p' then Printf.sprintf "pr.%d.%d.%d.1" id o size else Printf.sprintf "gr.%d" id] else [])) xfers) in
           let os = List.sort compare os in
           let nmine = List.length (List.filter (fun (_, kind, _, _, _) -> kind = 'p' || kind = 'g') (List.nth scr me)) in
           let maxt = if ub < 0 then 2147483647 else ub in
           let xs = List.map int_of_z (tags_from (z_of_int maxt) (z_of_int 1) (z_of_int 0) (nat_of_int nmine)) in
           let snaps =
             match read_lines (Printf.sprintf "%s.d/%d.%d" casefile idx me) with
             | None -> "snaps ?"
             | Some lines ->
               (try
                  let (tags, evs, rec_snaps) = parse_trace lines in
                  let e0 = init_eng (List.map (fun (tg, _) -> nat_of_int tg) tags) (nat_of_int p) (nat_of_int t) (nat_of_int d) (nat_of_int r) in
                  let ms = List.map snap_str (snapshots e0 evs) in
                  let h = List.fold_left (fun h s -> fnv (s ^ "\n") h) fnv0 ms in
                  let base = Printf.sprintf "snaps %d %Lx" (List.length ms) h in
                  (* diagnostics when the recorded arrays differ *)
                  let rec first i a b = match a, b with
                    | x :: a', y :: b' -> if x = y then first (i + 1) a' b' else Printf.sprintf " first-diff@%d model[%s] impl[%s]" i x y
                    | [], [] -> "" | _ :: _, [] -> Printf.sprintf " model-has-more@%d" i | [], _ :: _ -> Printf.sprintf " impl-has-more@%d" i in
                  base ^ first 0 ms rec_snaps
                with e -> "snaps <" ^ Printexc.to_string e ^ ">") in
           Printf.sprintf "r%d ok am:%s | os:%s | X:%s | %s" me
             (String.concat "" (List.map (fun (a, b, c, dd) -> Printf.sprintf " %d.%d.%d.%d.1" a b c dd) am))
             (String.concat "" (List.map (fun s -> " " ^ s) os))
             (String.concat "" (List.map (fun x -> " " ^ string_of_int x) xs)) snaps in
         String.concat " || " (List.init k per_rank)
       end
     | _ -> "<bad case>")
  | [] -> "<bad case>"

let () =
  let casefile = Sys.argv.(1) in
  let idx = ref (-1) in
  iter_cases casefile (fun line ->
      incr idx;
      match words line with
      | "ce" :: _ -> do_ce line !idx casefile
      | ["tag"; mx; v0; k; n] ->
        let xs = tags_from (z_of_int (int_of_string mx)) (z_of_int (int_of_string k)) (z_of_int (int_of_string v0)) (nat_of_int (int_of_string n)) in
        "tags:" ^ String.concat "" (List.map (fun x -> " " ^ string_of_int (int_of_z x)) xs)
      | _ -> "<bad case>")
