open Zone
open Vio
(* C28 model driver.  case: "z N UNIT | op op ..." with op = m<size> | f<k> | x<j> | o<d>
   (malloc size bytes / free the k-th live allocation, oldest first, k mod #live /
   free again the j-th freed offset if it is not live now / free an address d units past the end).
   One observation line per case: the state after init and after every op. *)
let st_char s = match int_of_z s with 1 -> "E" | 2 -> "F" | 3 -> "U" | _ -> "?"
let dump (z : zone) =
  let segs = z_segments z in
  let w = String.concat "" (List.map (fun (t, c) ->
      Printf.sprintf " %d:%s:%d:%d" (int_of_z t) (st_char c.c_st) (int_of_z c.c_nbu) (int_of_z c.c_nbp)) segs) in
  let ix = String.concat "" (List.map (fun (k, l) ->
      Printf.sprintf " %d[%s]" (int_of_z k) (String.concat "," (List.map (fun t -> string_of_int (int_of_z t)) l))) z.z_idx) in
  Printf.sprintf "u=%d d=%d W%s I%s" (int_of_z (z_in_use z)) (int_of_z (z_debug_free z)) w ix
let arg tok = int_of_string (String.sub tok 1 (String.length tok - 1))
let () =
  iter_cases Sys.argv.(1) (fun line ->
    match split_on '|' line with
    | [hd; opss] ->
      (match words hd with
       | ["z"; n; u] ->
         let n = int_of_string n and u = int_of_string u in
         let c = ref (cl_init (z_of_int n) (z_of_int u)) in
         let b = Buffer.create 256 in
         Buffer.add_string b ("init " ^ dump !c.cl_zone);
         List.iter (fun tok ->
           let a = arg tok in
           let res =
             match tok.[0] with
             | 'm' ->
               let (c', r) = step !c (Malloc (z_of_int a)) in
               c := c';
               (match r with Some off -> Printf.sprintf "m%d=%d" a (int_of_z off) | None -> Printf.sprintf "m%d=NULL" a)
             | 'f' ->
               let live = !c.cl_live in
               if live = [] then Printf.sprintf "f%d-" a
               else begin
                 let (off, _) = List.nth live (a mod List.length live) in
                 let (c', _) = step !c (Free off) in
                 c := c'; Printf.sprintf "f%d@%d" a (int_of_z off)
               end
             | 'x' ->
               let dead = List.rev !c.cl_dead in   (* oldest first, as the harness keeps them *)
               if dead = [] then Printf.sprintf "x%d-" a
               else begin
                 let off = List.nth dead (a mod List.length dead) in
                 if is_live !c off then Printf.sprintf "x%d-" a
                 else begin
                   let (c', _) = step !c (Free off) in
                   c := c'; Printf.sprintf "x%d@%d" a (int_of_z off)
                 end
               end
             | 'o' ->
               let (c', _) = step !c (Free (z_of_int ((n + a) * u))) in
               c := c'; Printf.sprintf "o%d" a
             | _ -> "?" in
           Buffer.add_string b (" ; " ^ res ^ " " ^ dump !c.cl_zone)) (words opss);
         let z = !c.cl_zone in
         Buffer.add_string b " ; S=";
         List.iter (fun (cl : cell) -> Buffer.add_string b (st_char cl.c_st)) z.z_cells;
         Buffer.add_string b " fini=1";
         Buffer.contents b
       | _ -> "<bad case>")
    | _ -> "<bad case>")
