open Ptgval
open Vio
(* model driver of C02 (and of the value part of C16).  Case line:  <mode> <configs…> | <program>
   with <program> in the one-line format of tools/jdfgen.py (to_case), parsed as in d_ptg.ml.
   mode "val":   wf=<0|1> (wf_program_fm: first applicable input dependency wins) safe=<0|1> uninit=<0|1> done=<0|1> | <inst> R f=v… W f=v… ; … | D v0 v1 …
   from the extracted sequential execution ptg_seq_exec (PTGVal/PTGValDefs.v); instances sorted by
   class, then parameters.  Programs that are not well formed or not hazard-free print the flags only. *)

let toks = ref [||] and pos = ref 0
let next () = let t = !toks.(!pos) in incr pos; t
let nint () = int_of_string (next ())
let binop_of = function
  | "add" -> Oadd | "sub" -> Osub | "mul" -> Omul | "div" -> Odiv | "mod" -> Omod
  | "min" -> Omin | "max" -> Omax | "eq" -> Oeq | "ne" -> One | "lt" -> Olt | "le" -> Ole
  | "gt" -> Ogt | "ge" -> Oge | "and" -> Oand | "or" -> Oor | s -> failwith ("op " ^ s)
let rec p_expr () =
  match next () with
  | "c" -> Ec (z_of_int (nint ()))
  | "g" -> Eg (nat_of_int (nint ()))
  | "l" -> El (nat_of_int (nint ()))
  | "b" -> let o = binop_of (next ()) in let a = p_expr () in let b = p_expr () in Eb (o, a, b)
  | "n" -> En (p_expr ())
  | "t" -> let c = p_expr () in let a = p_expr () in let b = p_expr () in Et (c, a, b)
  | s -> failwith ("expr " ^ s)
let rec times n f = if n <= 0 then [] else let x = f () in x :: times (n - 1) f
let p_target () =
  match next () with
  | "T" -> let c = nint () in let f = nint () in let n = nint () in
    let args = times n (fun () ->
        match next () with
        | "E" -> Aexp (p_expr ())
        | "S" -> let lo = p_expr () in let hi = p_expr () in let st = p_expr () in Arng (lo, hi, st)
        | s -> failwith ("arg " ^ s)) in
    Ttask (nat_of_int c, nat_of_int f, args)
  | "M" -> let n = nint () in Tmem (times n p_expr)
  | "N" -> Tnew
  | "Z" -> Tnull
  | s -> failwith ("target " ^ s)
let p_mode = function "C" -> MCtl | "R" -> MRead | "W" -> MWrite | "B" -> MRW | s -> failwith ("mode " ^ s)

(* returns (program, class names) *)
let p_program () =
  if next () <> "P" then failwith "P expected";
  let _ndata = nint () in
  let ng = nint () in
  let gl = times ng (fun () -> z_of_int (nint ())) in
  let nc = nint () in
  let names = ref [] in
  let cls = times nc (fun () ->
      if next () <> "C" then failwith "C expected";
      let name = next () in
      names := name :: !names;
      let nl = nint () in
      let locals = times nl (fun () ->
          match next () with
          | "R" -> let _ = next () in let lo = p_expr () in let hi = p_expr () in let st = p_expr () in Lrange (lo, hi, st)
          | "V" -> let _ = next () in Ldef (p_expr ())
          | s -> failwith ("local " ^ s)) in
      let np = nint () in
      let params = times np (fun () -> nat_of_int (nint ())) in
      let npl = nint () in
      let place = times npl p_expr in
      let nf = nint () in
      let flows = times nf (fun () ->
          if next () <> "F" then failwith "F expected";
          let _ = next () in
          let m = p_mode (next ()) in
          let nd = nint () in
          let deps = times nd (fun () ->
              let din = (next () = "I") in
              let g = if nint () = 1 then Some (p_expr ()) else None in
              let th = p_target () in
              let el = if nint () = 1 then Some (p_target ()) else None in
              { d_in = din; d_guard = g; d_then = th; d_else = el }) in
          { f_mode = m; f_deps = deps }) in
      let prio = if nint () = 1 then Some (p_expr ()) else None in
      let count = (nint () = 1) in
      { c_locals = locals; c_params = params; c_place = place; c_flows = flows; c_prio = prio; c_count = count }) in
  ({ p_globals = gl; p_classes = cls }, Array.of_list (List.rev !names))

let str_tid names (ci, ps) =
  names.(int_of_nat ci) ^ "(" ^ String.concat "," (List.map (fun z -> string_of_int (int_of_z z)) ps) ^ ")"
let cmp_tid (c1, p1) (c2, p2) =
  let c = compare (int_of_nat c1) (int_of_nat c2) in
  if c <> 0 then c else compare (List.map int_of_z p1) (List.map int_of_z p2)

(* decimal printing of a non-negative Z that may exceed 63 bits *)
let rec z_to_string z =
  match z with
  | Z0 -> "0"
  | Zneg _ -> "-" ^ z_to_string (Z.opp z)
  | Zpos _ ->
    let ten = z_of_int 10 in
    let q = Z.div z ten and r = Z.modulo z ten in
    (match q with Z0 -> "" | _ -> z_to_string q) ^ string_of_int (int_of_z r)


let ndata_of prog = match words prog with _ :: n :: _ -> int_of_string n | _ -> 1
let codes s = List.init (String.length s) (fun i -> z_of_int (Char.code s.[i]))
let str_fv l = String.concat " " (List.map (fun (f, v) -> string_of_int (int_of_nat f) ^ "=" ^ z_to_string v) l)

let () =
  iter_cases Sys.argv.(1) (fun line ->
    match split_on '|' line with
    | hd :: prog :: _ ->
      toks := Array.of_list (words prog); pos := 0;
      let (p, names) = p_program () in
      let ndata = ndata_of prog in
      let wf = wf_program_fm p in
      let safe = wf && safeb p in
      let uninit = wf && reads_uninit p in
      let b x = if x then "1" else "0" in
      let flags = "wf=" ^ b wf ^ " safe=" ^ b safe ^ " uninit=" ^ b uninit in
      if not (wf && safe) || uninit then flags
      else begin
        let nm = List.map codes (Array.to_list names) in
        let s = ptg_seq_exec nm p in
        let ids = List.sort cmp_tid (instances p) in
        let item t = str_tid names t ^ " R " ^ str_fv (obs_reads s t) ^ " W " ^ str_fv (obs_writes nm p s t) in
        flags ^ " done=" ^ b (all_done p s) ^ " | " ^ String.concat " ; " (List.map item ids)
        ^ " | D " ^ String.concat " " (List.map z_to_string (obs_data s (nat_of_int ndata)))
      end
    | _ -> "<bad case>")
