open Ptgcheck
open Vio
(* case: MAL | nloc : ACC deps ; ACC deps / nloc : ...     dep = [io][ubt] or [io][ubt].L.CT.CF
   (L local definitions at the dependency level, CT / CF in front of the true / false call) *)
let parse_dep s =
  let l, ct, cf = match split_on '.' s with
    | [_; a; b; c] -> int_of_string a, int_of_string b, int_of_string c
    | _ -> 0, 0, 0 in
  { dp_in = (s.[0] = 'i');
    dp_guard = (match s.[1] with 'u' -> GUncond | 'b' -> GBinary | _ -> GTernary);
    dp_ldefs = nat_of_int l; dp_ct = nat_of_int ct; dp_cf = nat_of_int cf }
let parse_flow s =
  match words s with
  | acc :: deps ->
    Some { fl_access = (match acc with "R" -> AccRead | "W" -> AccWrite | "RW" -> AccRW | _ -> AccCtl);
           fl_deps = List.map parse_dep deps }
  | [] -> None
let parse_func s =
  match split_on ':' s with
  | [nl; fl] ->
    { fn_locals = nat_of_int (int_of_string nl + 1);   (* the generator always declares the parameter k *)
      fn_pdefs = O;
      fn_flows = List.filter_map parse_flow (split_on ';' fl) }
  | _ -> failwith "bad function"
let () =
  iter_cases Sys.argv.(1) (fun line ->
    match split_on '|' line with
    | [mal; body] ->
      let p = { pg_mal = (if mal = "ok" then WellFormed
                         else if String.length mal >= 7 && String.sub mal 0 7 = "unbound" then UnboundVariable
                         else SyntaxError);
                pg_funcs = List.map parse_func (split_on '/' body) } in
      let a = accept true p in
      Printf.sprintf "accept=%d overflow=0 det=1 undiag=0 werr_bad=0" (if a then 1 else 0)
    | _ -> "<bad case>")
