open Dtype
open Vio
(* C19 model driver: same case syntax and observation syntax as harness/h_dtype.c *)
let zi = z_of_int

(* group the selected byte offsets into aligned base elements, like the harness *)
let observe (t : dtype) (sz : int) =
  let off = Array.of_list (List.map int_of_z (selected t)) in
  let size = Array.length off in
  let b = Buffer.create 256 in
  Buffer.add_string b " sel=";
  let k = ref 0 and first = ref true in
  while !k < size do
    let o = off.(!k) in
    let whole = ref (sz > 0 && o >= 0 && o mod sz = 0 && !k + sz <= size) in
    if !whole then
      for q = 1 to sz - 1 do if off.(!k + q) <> o + q then whole := false done;
    if not !first then Buffer.add_char b ' ';
    first := false;
    if !whole then begin Buffer.add_string b (string_of_int (o / sz)); k := !k + sz end
    else begin Buffer.add_string b ("b" ^ string_of_int o); k := !k + 1 end
  done;
  Buffer.add_string b (Printf.sprintf " lb=%d ext=%d size=%d" (int_of_z (lb t)) (int_of_z (ext t)) (int_of_z (Dtype.size t)));
  Buffer.contents b

let show r sz = match r with
  | Ok t -> "rc=0" ^ observe t sz
  | Err rc -> "rc=" ^ string_of_int (int_of_z rc)

let () =
  iter_cases Sys.argv.(1) (fun line ->
    match words line with
    | "tri" :: rest when List.length rest = 6 ->
      (match List.map int_of_string rest with
       | [sz; uplo; diag; m; n; ld] -> show (define_triangle (zi sz) (zi uplo) (zi diag) (zi m) (zi n) (zi ld)) sz
       | _ -> "<bad case>")
    | "rect" :: rest when List.length rest = 5 ->
      (match List.map int_of_string rest with
       | [sz; m; n; ld; r] -> show (define_rectangle (zi sz) (zi m) (zi n) (zi ld) (zi r)) sz
       | _ -> "<bad case>")
    | "cont" :: rest when List.length rest = 3 ->
      (match List.map int_of_string rest with
       | [sz; nb; r] -> show (define_contiguous (zi sz) (zi nb) (zi r)) sz
       | _ -> "<bad case>")
    | "dt" :: rest when List.length rest = 7 ->
      (match List.map int_of_string rest with
       | [sz; uplo; diag; m; n; ld; r] ->
         let (res, e) = define_datatype (zi sz) (zi uplo) (zi diag) (zi m) (zi n) (zi ld) (zi r) in
         show res sz ^ " ret=" ^ string_of_int (int_of_z e)
       | _ -> "<bad case>")
    | "adt" :: rest when List.length rest = 6 ->
      (match List.map int_of_string rest with
       | [kind; sz; diag; m; n; ld] when kind >= 0 && kind <= 3 ->
         let (res, e) = adt_define (zi kind) (zi sz) (zi diag) (zi m) (zi n) (zi ld) in
         (match res with
          | Ok _ -> show res sz ^ " elem=" ^ string_of_int (int_of_z e)
          | Err _ -> show res sz)
       | _ -> "<bad case>")
    | _ -> "<bad case>")
