open Mca
open Vio
(* C38 model driver: same case syntax and same output as harness/h_mca.c *)
exception Bad
exception Crash

let explode s = List.init (String.length s) (String.get s)
let implode l = String.concat "" (List.map (String.make 1) l)

(* decimal strings <-> Z (size_t values do not fit an OCaml int) *)
let ten = z_of_int 10
let z_of_string s =
  let neg = String.length s > 0 && s.[0] = '-' in
  let digits = if neg then String.sub s 1 (String.length s - 1) else s in
  if digits = "" then raise Bad;
  let r = ref Z0 in
  String.iter (fun c ->
    if c < '0' || c > '9' then raise Bad;
    r := Z.add (Z.mul !r ten) (z_of_int (Char.code c - 48))) digits;
  if neg then Z.opp !r else !r
let string_of_z z =
  let rec go z acc =
    match z with
    | Z0 -> acc
    | _ -> let (q, r) = Z.div_eucl z ten in go q (string_of_int (int_of_z r) ^ acc) in
  match z with
  | Z0 -> "0"
  | Zpos _ -> go z ""
  | Zneg _ -> "-" ^ go (Z.opp z) ""

let toks = ref []
let next () = match !toks with [] -> raise Bad | t :: r -> toks := r; t
let next_opt () = match !toks with [] -> None | t :: r -> toks := r; Some t
let t_str () =
  let t = next () in
  if t = "NULL" then None
  else if String.length t >= 1 && t.[0] = '=' then Some (explode (String.sub t 1 (String.length t - 1)))
  else raise Bad
let t_z () = z_of_string (next ())
let t_bool () = match next () with "0" -> false | _ -> true
let t_type () = match next () with "i" -> TInt | "z" -> TSizet | "s" -> TString | _ -> raise Bad

(* [ name =val name NULL ] [ ... ] *)
let t_files () =
  let files = ref [] in
  let continue = ref true in
  while !continue do
    match next_opt () with
    | None -> continue := false
    | Some "[" ->
      let lines = ref [] in
      let fin = ref false in
      while not !fin do
        let t = next () in
        if t = "]" then fin := true
        else let v = t_str () in lines := (explode t, v) :: !lines
      done;
      files := List.rev !lines :: !files
    | Some _ -> raise Bad
  done;
  List.rev !files

let show_value = function
  | VInt z -> "i" ^ string_of_z z
  | VSizet z -> "z" ^ string_of_z z
  | VStr (Some s) -> "s\"" ^ implode s ^ "\""
  | VStr None -> "sNULL"
let show_lookup = function
  | LNotFound -> "NF"
  | LCrash -> raise Crash
  | LFound (v, s, f) ->
    (match s with
     | SDefault -> "DEF:"
     | SEnv -> "ENV:"
     | SOverride -> "OVR:"
     | SFile -> "FILE@" ^ (match f with Some k -> string_of_int (int_of_nat k) | None -> "-1") ^ ":")
    ^ show_value v

let st = ref { st_params = []; st_files = []; st_env = [] }

let segment seg =
  toks := words seg;
  match next () with
  | "files" -> st := init [(explode "mca_param_files", [])] (t_files ()); "init"
  | "recache" -> st := recache !st (t_files ()); "rc"
  | "env" ->
    let n = explode (next ()) in
    (match t_str () with
     | Some v -> st := { !st with st_env = env_set !st.st_env n v }; "e"
     | None -> raise Bad)
  | "unenv" ->
    let n = explode (next ()) in
    st := { !st with st_env = env_unset !st.st_env n }; "e"
  | "reg" ->
    let ty = t_type () in
    let tn = t_str () in let pn = t_str () in
    let ro = t_bool () in let internal = t_bool () in
    let d = (match ty with TInt -> VInt (t_z ()) | TSizet -> VSizet (t_z ()) | TString -> VStr (t_str ())) in
    let cur = t_bool () in
    let ((st', ret), res) = reg !st ty tn pn internal ro d cur in
    st := st';
    (* the harness shows the value only when it asked for one *)
    (match res with Some LCrash -> raise Crash | _ -> ());
    "r" ^ string_of_z ret ^ ":" ^
    (match res with
     | Some (LFound (v, _, _)) when cur && (match ret with Zneg _ -> false | _ -> true) -> show_value v
     | _ -> "-")
  | "syn" ->
    let idx = t_z () in let tn = t_str () in let pn = t_str () in let _ = t_bool () in
    let (st', rc) = reg_syn !st idx tn pn in
    st := st'; "y" ^ string_of_z rc
  | "set" ->
    let idx = t_z () in
    let v = (match t_type () with TInt -> VInt (t_z ()) | TSizet -> VSizet (t_z ()) | TString -> VStr (t_str ())) in
    let (st', rc) = set_value !st idx v in
    st := st'; "s" ^ string_of_z rc
  | "unset" ->
    let idx = t_z () in
    let (st', rc) = unset !st idx in
    st := st'; "u" ^ string_of_z rc
  | "look" ->
    let idx = t_z () in let _ = t_type () in
    (* parsec_mca_param_lookup_source, then the typed lookup *)
    let (st1, r1) = param_lookup !st idx in
    (match r1 with LCrash -> raise Crash | _ -> ());
    let (st2, r2) = param_lookup st1 idx in
    st := st2;
    if r1 = r2 then show_lookup r2 else "<" ^ show_lookup r1 ^ " then " ^ show_lookup r2 ^ ">"
  | "find" ->
    let tn = t_str () in let pn = t_str () in
    "f" ^ string_of_z (mca_find !st tn pn)
  | "cmd" ->
    let args = ref [] and names = ref [] in
    let continue = ref true in
    while !continue do
      match next_opt () with
      | None -> continue := false
      | Some k ->
        let n = next () in
        (match t_str () with
         | Some v ->
           args := (k.[0] = 'g', (explode n, v)) :: !args;
           if not (List.mem n !names) then names := n :: !names
         | None -> raise Bad)
    done;
    st := { !st with st_env = process_cmdline (List.rev !args) !st.st_env };
    "c" ^ String.concat ";" (List.mapi (fun i n ->
      (if i = 0 then " " else "") ^ n ^ "=" ^
      (match env_get !st.st_env (explode n) with Some v -> implode v | None -> "<unset>")) (List.rev !names))
  | _ -> raise Bad

(* split on " | " *)
let segments line =
  let n = String.length line in
  let rec go i start acc =
    if i + 3 > n then List.rev (String.sub line start (n - start) :: acc)
    else if String.sub line i 3 = " | " then go (i + 3) (i + 3) (String.sub line start (i - start) :: acc)
    else go (i + 1) start acc in
  go 0 0 []

let () =
  iter_cases Sys.argv.(1) (fun line ->
    st := { st_params = []; st_files = []; st_env = [] };
    let out = ref [] in
    (try
       List.iter (fun seg ->
         match (try Some (segment seg) with Bad -> None) with
         | Some s -> out := s :: !out
         | None -> out := "<bad case>" :: !out) (segments line)
     with Crash -> out := "<crash>" :: !out);
    String.concat " | " (List.rev !out))
