open Repo
open Vio
(* same case syntax and output as harness/h_repo.c *)
let rec triples = function
  | k :: key :: arg :: r ->
    (match k with
     | 0 -> OLook (n_of_int key)
     | 1 -> OCreate (n_of_int key, z_of_int arg)
     | 2 -> OAddto (n_of_int key, z_of_int arg)
     | 3 -> OUse (n_of_int key)
     | _ -> failwith "bad op") :: triples r
  | _ -> []
let rec keys_of = function
  | _ :: key :: _ :: r -> key :: keys_of r
  | _ -> []

let si = string_of_int
let ent e = si (int_of_nat e.e_id) ^ ":" ^ si (int_of_z e.e_cnt) ^ "/" ^ si (int_of_z e.e_lmt) ^ "/" ^ si (int_of_z e.e_ret)
let ev = function
  | EvCreate (t, k, id, fresh) -> "c" ^ si (int_of_nat t) ^ ":" ^ si (int_of_n k) ^ "=" ^ si (int_of_nat id) ^ (if fresh then "n" else "f")
  | EvDiscard (t, id) -> "d" ^ si (int_of_nat t) ^ ":" ^ si (int_of_nat id)
  | EvAddto (t, k, n) -> "a" ^ si (int_of_nat t) ^ ":" ^ si (int_of_n k) ^ "+" ^ si (int_of_z n)
  | EvReclaim (t, k, id) -> "r" ^ si (int_of_nat t) ^ ":" ^ si (int_of_n k) ^ "=" ^ si (int_of_nat id)
  | EvUse (t, k) -> "u" ^ si (int_of_nat t) ^ ":" ^ si (int_of_n k)
  | EvMiss (t, k) -> "m" ^ si (int_of_nat t) ^ ":" ^ si (int_of_n k)
  | EvLook (t, k, None) -> "l" ^ si (int_of_nat t) ^ ":" ^ si (int_of_n k) ^ "=-"
  | EvLook (t, k, Some e) -> "l" ^ si (int_of_nat t) ^ ":" ^ si (int_of_n k) ^ "=" ^ ent e
  | EvCrash t -> "<crash t" ^ si (int_of_nat t) ^ ">"

let () =
  iter_cases Sys.argv.(1) (fun line ->
    try
    match split_on '|' line with
    | hd :: rest ->
      (match ints hd with
       | nb :: nt :: _ when nt >= 0 && nt <= 8 && nb >= 1 && nb <= 16 && List.length rest > nt ->
         let secs = List.filteri (fun i _ -> i < nt) rest in
         let raw = List.map ints secs in
         if List.exists (fun l -> List.exists (fun k -> k < 0 || k > 3) (List.filteri (fun i _ -> i mod 3 = 0 && i + 2 < List.length l) l)) raw
         then "<bad case>" else begin
         let progs = List.map triples raw in
         let sched = ints (List.nth rest nt) in
         let nbn = n_of_int nb in
         let c = ref (init progs) in
         let steps = Array.make nt 0 in
         let done_ t = match List.nth_opt !c.c_thr t with Some th -> t_done th | None -> true in
         (* a step that leaves every thread record unchanged is a stutter (lock taken / no grant) *)
         let st t = if t >= 0 && t < nt && not (done_ t) && not !c.c_crash then begin
             steps.(t) <- steps.(t) + 1;
             let c' = step nbn !c (nat_of_int t) in
             let moved = c'.c_thr <> !c.c_thr in
             c := c'; moved end else false in
         List.iter (fun t -> ignore (st t)) sched;
         let k = ref 0 and stuck = ref 0 in
         while not (all_done !c) && not !c.c_crash && !stuck = 0 do
           let progress = ref false in
           for t = 0 to nt - 1 do if st t then progress := true done;
           incr k;
           if not !c.c_crash && (not !progress || !k > 5000) then begin
             stuck := 1;
             List.iter (fun th -> if not (t_done th) && th.t_pc <> PIdle then stuck := 2) !c.c_thr
           end
         done;
         let evs = String.concat "" (List.map (fun e -> " " ^ ev e) (List.rev !c.c_log)) in
         let s =
           if !c.c_crash then evs
           else begin
             let keys = List.sort_uniq compare (List.concat (List.map keys_of raw)) in
             let tab = String.concat "" (List.map (fun key ->
                 match !c.c_tab (n_of_int key) with
                 | Some e -> " " ^ si key ^ "=" ^ ent e
                 | None -> "") keys) in
             evs ^ " | tab:" ^ tab ^ " | steps:" ^ String.concat "" (Array.to_list (Array.map (fun s -> " " ^ si s) steps))
             ^ (if !stuck = 2 then " <deadlock>" else if !stuck = 1 then " <starved>" else "")
           end in
         if String.length s > 0 && s.[0] = ' ' then String.sub s 1 (String.length s - 1) else s
         end
       | _ -> "<bad case>")
    | _ -> "<bad case>"
    with Failure _ -> "<bad case>")
