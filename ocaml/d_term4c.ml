open Term4c
open Vio
(* case:  N | tok tok ... | f-or-minus
   tokens: r<i> ready, t<i>:<v> addto_nb_tasks, a<i>:<v> addto_runtime_actions, T<i>:<v> set_nb_tasks,
           A<i>:<v> set_runtime_actions, s<i>:<j> application send, b<i> receive start, e<i> receive end,
           d<i>:<j> deliver head of control channel i->j *)
let parse_tok w =
  let k = w.[0] in
  let rest = String.sub w 1 (String.length w - 1) in
  let a, b = match String.index_opt rest ':' with
    | Some p -> int_of_string (String.sub rest 0 p), int_of_string (String.sub rest (p + 1) (String.length rest - p - 1))
    | None -> int_of_string rest, 0 in
  match k with
  | 'r' -> AReady (nat_of_int a)
  | 't' -> ATasks (nat_of_int a, z_of_int b)
  | 'a' -> AActs (nat_of_int a, z_of_int b)
  | 'T' -> ASetTasks (nat_of_int a, z_of_int b)
  | 'A' -> ASetActs (nat_of_int a, z_of_int b)
  | 's' -> ASend (nat_of_int a, nat_of_int b)
  | 'b' -> ARecvStart (nat_of_int a)
  | 'e' -> ARecvEnd (nat_of_int a)
  | 'd' -> ADeliver (nat_of_int a, nat_of_int b)
  | _ -> failwith "bad token"
let zi = int_of_z
let token n c =
  let ps = List.init n (fun i -> p c (nat_of_int i)) in
  let f = List.fold_left (fun a q -> a + zi q.infl + zi q.inproc) 0 ps in
  let w = List.fold_left (fun a q -> a + zi (loaded q)) 0 ps in
  String.concat "" (List.map (fun q -> string_of_int (zi (pub_code q.st))) ps) ^ ":" ^ string_of_int f ^ ":" ^ string_of_int w
let detail n c =
  let ps = List.init n (fun i -> p c (nat_of_int i)) in
  String.concat ";" (List.map (fun q ->
    str_ints [zi (st_code q.st); zi q.tasks; zi q.acts; zi q.sent; zi q.recv; zi q.ncl; zi q.acc_s; zi q.acc_r;
              zi q.last_s; zi q.last_r; zi q.cbs; zi q.infl; zi q.inproc]) ps)
  ^ " n=" ^ string_of_int (List.length c.net) ^ " q=" ^ string_of_int (List.length c.dlyq)
(* "mpi np mode nt cores": the program of harness/h_term4c_mpi.jdf as a schedule of the model: PROD(k) on rank
   k mod np sends one activation to rank (k+1) mod np, which receives it, runs CONS(k) and finishes; every
   message is counted sent once and received once; then everybody becomes idle and the channels are drained *)
let mpi_line np nt =
  let n i = nat_of_int i in
  let pre = List.concat (List.init np (fun i -> [AActs (n i, z_of_int 1); AReady (n i)])) in
  let body = List.concat (List.init nt (fun k ->
    let s = k mod np and d = (k + 1) mod np in
    [ASend (n s, n d); ARecvStart (n d); ATasks (n d, z_of_int 1); ARecvEnd (n d); ATasks (n d, z_of_int (-1))])) in
  let post = List.init np (fun i -> AActs (n i, z_of_int (-1))) in
  let c = finish (run (init (n np)) (pre @ body @ post)) in
  let ps = List.init np (fun i -> p c (n i)) in
  let term = List.for_all (fun q -> zi (st_code q.st) = 5) ps in
  let sent = List.fold_left (fun a q -> a + zi q.sent) 0 ps and recv = List.fold_left (fun a q -> a + zi q.recv) 0 ps in
  Printf.sprintf "mpi term=%d ranks=%d sent=%d started=%d recv=%d cons=%d errors=0" (if term then 1 else 0) np sent recv recv nt
let () =
  iter_cases Sys.argv.(1) (fun line ->
    match words line with
    | ["mpi"; np; _; nt; _] -> mpi_line (int_of_string np) (int_of_string nt)
    | _ ->
    match split_on '|' line with
    | [ns; toks; fin] ->
      let n = int_of_string ns in
      if n < 1 || n > 64 then "<bad case>" else begin
        let c = ref (init (nat_of_int n)) in
        let b = Buffer.create 256 in
        List.iter (fun w ->
          c := step !c (parse_tok w);
          Buffer.add_string b (token n !c); Buffer.add_char b ' ') (words toks);
        Buffer.add_string b ("| END " ^ detail n !c);
        if fin = "f" then begin
          c := finish !c;
          Buffer.add_string b (" | FIN " ^ token n !c ^ " " ^ detail n !c)
        end;
        Buffer.contents b
      end
    | _ -> "<bad case>")
