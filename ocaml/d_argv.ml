open Argv
open Vio
(* C39 model driver: same case syntax and same output as harness/h_argv.c *)
exception Bad

(* characters of a case-file string, \xNN decoded *)
let explode s =
  let n = String.length s in
  let rec go i acc =
    if i >= n then List.rev acc
    else if s.[i] = '\\' && i + 3 < n && s.[i+1] = 'x' then
      go (i + 4) (Char.chr (int_of_string ("0x" ^ String.sub s (i + 2) 2)) :: acc)
    else go (i + 1) (s.[i] :: acc) in
  go 0 []
let implode l = String.concat "" (List.map (String.make 1) l)

let show_str l =
  let b = Buffer.create 16 in
  Buffer.add_char b '"';
  List.iter (fun c ->
    let k = Char.code c in
    if k <= 0x20 || k > 0x7e || c = '"' || c = '\\' then Buffer.add_string b (Printf.sprintf "\\x%02x" k)
    else Buffer.add_char b c) l;
  Buffer.add_char b '"'; Buffer.contents b
let show_ostr = function None -> "NULL" | Some s -> show_str s
let show_vec = function
  | None -> "NULL"
  | Some v -> "[" ^ String.concat "" (List.map (fun s -> " " ^ show_str s) v) ^ " ]"
let show_rc = function RC_SUCCESS -> "OK" | RC_BAD_PARAM -> "BAD_PARAM" | RC_ERROR -> "ERROR"

(* token stream *)
let toks = ref []
let next () = match !toks with [] -> raise Bad | t :: r -> toks := r; t
let peek () = match !toks with [] -> None | t :: _ -> Some t
let t_str_opt () =
  let t = next () in
  if t = "NULL" then None
  else if String.length t >= 1 && t.[0] = '=' then Some (explode (String.sub t 1 (String.length t - 1)))
  else raise Bad
let t_str () = match t_str_opt () with Some s -> s | None -> raise Bad
let t_vec () =
  let t = next () in
  if t = "NULL" then None
  else if t <> "[" then raise Bad
  else begin
    let acc = ref [] in
    let fin = ref false in
    while not !fin do
      let t = next () in
      if t = "]" then fin := true
      else if String.length t >= 1 && t.[0] = '=' then acc := explode (String.sub t 1 (String.length t - 1)) :: !acc
      else raise Bad
    done;
    Some (List.rev !acc)
  end
let t_int () = try int_of_string (next ()) with Failure _ -> raise Bad
let t_delim () = let t = next () in if String.length t <> 1 then raise Bad else t.[0]
(* a C int converted to size_t: negative values are huge *)
let size_t_of_int k = if k < 0 then raise Bad else nat_of_int k

let do_cmd () =
  let ign = t_int () <> 0 in
  if next () <> "|" then raise Bad;
  let opts = ref [] and mk = Buffer.create 16 and av = ref None and have_av = ref false and qs = ref [] in
  while peek () <> None do
    match next () with
    | "o" ->
      let sh = t_str () in
      let sd = t_str_opt () in
      let lg = t_str_opt () in
      let np = t_int () in
      let c = match sh with [] -> '\000' | c :: _ -> c in
      let (rc, o') = make_opt !opts c sd lg (z_of_int np) in
      opts := o'; Buffer.add_string mk (" " ^ show_rc rc)
    | "a" -> av := t_vec (); have_av := true
    | "q" ->
      let name = t_str () in
      let inst = t_int () in
      let idx = t_int () in
      qs := (name, inst, idx) :: !qs
    | "|" -> ()
    | _ -> raise Bad
  done;
  if not !have_av then raise Bad;
  let p = cmd_parse !opts ign !av in
  if p.p_fuel then "<model out of fuel>"
  else begin
    let nullv v = match v with [] -> None | _ -> Some v in
    let params = String.concat "" (List.map (fun (k, ps) ->
      " (" ^ string_of_int (int_of_nat k) ^ ":" ^ String.concat "" (List.map (fun s -> " " ^ show_str s) ps) ^ ")") p.p_params) in
    let q = String.concat " ;" (List.map (fun (name, inst, idx) ->
      let n = int_of_nat (get_ninsts !opts p name) in
      let prm = if inst < 0 || idx < 0 then raise Bad else get_param !opts p name (nat_of_int inst) (nat_of_int idx) in
      " " ^ string_of_int n ^ " " ^ show_ostr prm) (List.rev !qs)) in
    "mk:" ^ Buffer.contents mk ^ " | " ^ show_rc p.p_rc ^ " | params:" ^ params
    ^ " | tail: " ^ string_of_int (List.length p.p_tail) ^ " " ^ show_vec (nullv p.p_tail)
    ^ " | argv: " ^ string_of_int (List.length p.p_argv) ^ " " ^ show_vec (nullv p.p_argv)
    ^ " | q:" ^ q
  end

let do_case line =
  toks := words line;
  match next () with
  | "split" | "splitwe" as op ->
    let d = t_delim () in
    let s = t_str () in
    let v = if op = "split" then argv_split s d else argv_split_with_empty s d in
    show_vec v ^ " | " ^ show_str (argv_join v d)
  | "join" ->
    let d = t_delim () in
    let v = t_vec () in
    let j = argv_join v d in
    show_str j ^ " | " ^ show_vec (argv_split j d) ^ " | " ^ show_vec (argv_split_with_empty j d)
  | "joinr" ->
    let d = t_delim () in
    let v = t_vec () in
    let a = t_int () in
    let b = t_int () in
    show_str (argv_join_range v (size_t_of_int a) (size_t_of_int b) d)
  | "ins" ->
    let v = t_vec () in
    let a = t_int () in
    let w = t_vec () in
    let (rc, v1) = argv_insert v (z_of_int a) w in
    let argc = int_of_nat (argv_count v1) in
    let ((rc2, argc2), v2) = argv_delete (z_of_int argc) v1 (z_of_int a) (z_of_int (int_of_nat (argv_count w))) in
    show_rc rc ^ " " ^ show_vec v1 ^ " | " ^ show_rc rc2 ^ " " ^ string_of_int (int_of_z argc2) ^ " " ^ show_vec v2
  | "inse" ->
    let v = t_vec () in
    let a = t_int () in
    let s = t_str_opt () in
    let (rc, v1) = argv_insert_element v (z_of_int a) s in
    show_rc rc ^ " " ^ show_vec v1
  | "del" ->
    let c = t_int () in
    let v = t_vec () in
    let a = t_int () in
    let b = t_int () in
    let ((rc, argc), v1) = argv_delete (z_of_int c) v (z_of_int a) (z_of_int b) in
    show_rc rc ^ " " ^ string_of_int (int_of_z argc) ^ " " ^ show_vec v1
  | "app" ->
    let v = t_vec () in
    let s = t_str () in
    let (argc, v1) = argv_append v s in
    "OK " ^ string_of_int (int_of_nat argc) ^ " " ^ show_vec v1
  | "appn" ->
    let v = t_vec () in
    let s = t_str () in
    "OK " ^ show_vec (argv_append_nosize v s)
  | "prep" ->
    let v = t_vec () in
    let s = t_str () in
    "OK " ^ show_vec (argv_prepend_nosize v s)
  | "uniq" ->
    let v = t_vec () in
    let s = t_str () in
    let ow = t_int () <> 0 in
    "OK " ^ show_vec (argv_append_unique_nosize v s ow)
  | "copy" -> show_vec (argv_copy (t_vec ()))
  | "count" -> string_of_int (int_of_nat (argv_count (t_vec ())))
  | "len" -> string_of_int (int_of_nat (argv_len (t_vec ())))
  | "cmd" -> do_cmd ()
  | _ -> raise Bad

let () =
  iter_cases Sys.argv.(1) (fun line -> try do_case line with Bad -> "<bad case>")
