open Gpu
open Vio
(* case:  gpu <seq|par> <ngpu> <cap> <ndata> <delay> <batch> <cpu_direct> | task ; task ; ...
   task:  c | g<k>   then  <datum><r|w|x>[p][@<successor ranks>] ...
   seq mode: the extracted model of the device layer (GPUDefs.grun), printed like harness/h_gpu.c
   ptg mode: the same with PTG-like forwarding of the writer's output copy (GPUDefs.prun)
   par mode: the sequential reference (GPUDefs.ref_run) *)
let parse_task ngpu s =
  match words s with
  | [] -> failwith "task"
  | pl :: accs ->
    let place =
      if pl = "c" then 0
      else if String.length pl >= 2 && pl.[0] = 'g' then begin
        let g = int_of_string (String.sub pl 1 (String.length pl - 1)) in
        if g < 0 || g >= ngpu then failwith "dev"; g + 1 end
      else failwith "place" in
    let succ_of a =
      (match String.index_opt a '@' with
       | None -> []
       | Some k -> List.init (String.length a - k - 1) (fun j -> nat_of_int (Char.code a.[k + 1 + j] - 48))) in
    let acc a =
      let a = (match String.index_opt a '@' with None -> a | Some k -> String.sub a 0 k) in
      let n = String.length a in
      let po = n > 0 && a.[n - 1] = 'p' in
      let a = if po then String.sub a 0 (n - 1) else a in
      let n = String.length a in
      let m = match a.[n - 1] with 'r' -> MR | 'w' -> MW | 'x' -> MX | _ -> failwith "mode" in
      { fd = nat_of_int (int_of_string (String.sub a 0 (n - 1))); fm = m; fpo = po } in
    ({ place = nat_of_int place; flows = List.map acc accs }, List.map succ_of accs)
let pval z = let v = int_of_z z in if v = -11111 then "P" else string_of_int v
let st_str = function INVALID -> "I" | OWNED -> "O" | EXCLUSIVE -> "E" | SHARED -> "S"
let copy_str i (c : copy option) v =
  match c with
  | None -> "-"
  | Some c ->
    let ver = int_of_z c.ver in
    Printf.sprintf "%s%s.%d%s=%s" (st_str c.cst) (if ver = 4294967295 then "X" else string_of_int ver)
      (int_of_z c.xfer) (if i > 0 then "." ^ string_of_int (int_of_z c.rdr) else "") (pval v)
let state_str (st : gstate) =
  let b = Buffer.create 256 in
  List.iteri (fun d (x : datum) ->
    Buffer.add_string b (Printf.sprintf " %d[o%d" d (int_of_z x.coh.owner));
    List.iteri (fun i c -> Buffer.add_string b (" " ^ copy_str i c (List.nth x.vals i))) x.coh.copies;
    Buffer.add_string b "]") st.dats;
  List.iteri (fun g (v : gdev) ->
    let l xs = String.concat "" (List.map (fun d -> string_of_int (int_of_nat d) ^ ",") xs) in
    Buffer.add_string b (Printf.sprintf " L%d:%s W%d:%s" (g + 1) (l v.lru) (g + 1) (l v.owned))) st.devs;
  Buffer.contents b
let tail_str ntasks tasks (ins : z list list) (data : z list) nran =
  let b = Buffer.create 256 in
  Buffer.add_string b "| in:";
  List.iteri (fun i (t : task) ->
    let hasr = List.exists (fun f -> f.fm <> MW) t.flows in
    let s = if i >= nran then (if hasr then String.concat "," (List.map (fun _ -> "?") (List.filter (fun f -> f.fm <> MW) t.flows)) else "-")
            else if hasr then String.concat "," (List.map pval (List.nth ins i)) else "-" in
    Buffer.add_string b (Printf.sprintf " %d=%s" i s)) tasks;
  Buffer.add_string b " | data:";
  List.iter (fun v -> Buffer.add_string b (" " ^ pval v)) data;
  Buffer.add_string b " | runs:";
  for i = 0 to ntasks - 1 do Buffer.add_string b (if i < nran then " 1" else " 0") done;
  Buffer.contents b

let () =
  iter_cases Sys.argv.(1) (fun line ->
    match split_on '|' line with
    | [hd; body] ->
      (match words hd with
       | ["gpu"; mode; ngpu; cap; nd; _delay; _batch; direct] ->
         let ngpu = int_of_string ngpu and cap = int_of_string cap and nd = int_of_string nd in
         let tasks_s = List.map (parse_task ngpu) (List.filter (fun s -> s <> "") (split_on ';' body)) in
         let tasks = List.map fst tasks_s in
         let nt = List.length tasks in
         if mode = "seq" || mode = "ptg" then begin
           let (trs, ok) = if mode = "seq" then grun (nat_of_int nd) (nat_of_int 2) (nat_of_int cap) (direct = "1") tasks
                           else prun_s (nat_of_int nd) (nat_of_int 2) (nat_of_int cap) tasks_s in
           let b = Buffer.create 1024 in
           List.iteri (fun i (tr : tres) ->
             let t = List.nth tasks i in
             Buffer.add_string b (Printf.sprintf "T%d@%d" i (int_of_nat t.place));
             List.iter (fun ((d, s), g) ->
               Buffer.add_string b (Printf.sprintf " c%d:%d>%d" (int_of_nat d) (int_of_nat s) (int_of_nat g))) tr.tr_copies;
             Buffer.add_string b (state_str tr.tr_st);
             Buffer.add_string b " ;") trs;
           if ok then begin
             let last = match List.rev trs with tr :: _ -> tr.tr_st
                                                | [] -> init_state (nat_of_int nd) (nat_of_int 2) (nat_of_int cap) in
             Buffer.add_string b (tail_str nt tasks (List.map (fun (tr : tres) -> tr.tr_ins) trs) (final_host last) nt)
           end else Buffer.add_string b (Printf.sprintf "HANG@%d" (List.length trs));
           Buffer.contents b
         end else begin
           let (ins, m) = ref_run (nat_of_int nd) tasks in
           tail_str nt tasks ins m nt
         end
       | _ -> "<bad case>")
    | _ -> "<bad case>")
