open Dtdflush
open Vio
(* Model driver of C17: same case file as harness/h_dtdflush.c, one line per case
     in: <t>=<v>,<v> ... | snap: <v>,<v>,.. ... | data: v ... | runs: c ... | null=<k> torn=<n>
   (a tile is printed as its value; the harness prints e0/e1/.. for a tile whose elements disagree)
   The case's items are translated to the API calls of the model (OTask with the execution rank: the
   "@r" value or the owner of the flow marked "^"; OFlush; OFlushAll; OWait), followed by OFlushAll;
   OWait as the harness does.  [compile] gives the inserted tasks and the wait points.  The inputs
   come from the sequential reference of the user tasks (fmodel_inputs); the extracted engine [fstep]
   is folded over a pseudo-random event list (refused events are no-ops) and completion sweeps, one
   wait point after the other: at every wait point (all inserted tasks done) the owners' storage [home]
   is printed.  The observations of the engine must equal the reference. *)

(* 'h' = read through the datatype of the leading part of the tile: a read at the level of tile values *)
let mode_of_char = function 'r' | 'h' -> R | 'w' -> W | _ -> RW

let parse_items owner body =
  (* "~" only delays the inserting thread of the harness (late flush): every timing is an event list of the model *)
  (* "%r" delays the inserting thread of rank r (the others run ahead): timing only as well *)
  let fields = List.filter (fun t -> t <> "" && t <> "~" && t.[0] <> '%') (List.map String.trim (String.split_on_char ';' body)) in
  List.map (fun t ->
    if t = "!" then OWait
    else if t = "F*" then OFlushAll
    else if String.length t > 0 && t.[0] = 'F' then OFlush (nat_of_int (int_of_string (String.sub t 1 (String.length t - 1))))
    else begin
      let rank = ref (-1) in
      let acc = List.filter_map (fun a ->
        if a = "." || a = "" then None
        else if a.[0] = '@' then (rank := int_of_string (String.sub a 1 (String.length a - 1)); None)
        else begin
          let aff = a.[String.length a - 1] = '^' in
          let a = if aff then String.sub a 0 (String.length a - 1) else a in
          let n = String.length a in
          let d = int_of_string (String.sub a 0 (n - 1)) in
          if aff then rank := owner d;
          Some (nat_of_int d, mode_of_char a.[n - 1])
        end) (words t) in
      OTask (nat_of_int !rank, acc)
    end) fields

let str_n l = String.concat "," (List.map (fun v -> string_of_int (int_of_n v)) l)

let () =
  iter_cases Sys.argv.(1) (fun line ->
    match String.index_opt line '|' with
    | None -> "<bad case>"
    | Some bar ->
      let head = words (String.sub line 0 bar) in
      let body = String.sub line (bar + 1) (String.length line - bar - 1) in
      (* the optional last field is the size of a tile in bytes: the model works on tile values *)
      let head = match head with
        | [a; b; c; d; e; f; g; h; i; _bytes] -> [a; b; c; d; e; f; g; h; i]
        | _ -> head in
      (match head with
       | ["dtdflush"; _ranks; ndata; _threads; _sched; window; threshold; spin; owners] ->
         let ndata = int_of_string ndata and window = int_of_string window
         and threshold = int_of_string threshold and spin = int_of_string spin in
         let own = Array.of_list (List.map int_of_string (String.split_on_char ',' owners)) in
         let owner_i d = if d >= 0 && d < Array.length own then own.(d) else 0 in
         let owner d = nat_of_int (owner_i (int_of_nat d)) in
         let ops = parse_items owner_i body @ [OFlushAll; OWait] in
         let c = compile owner ops in
         let fp = c.c_out in
         let waits = c.c_waits in
         let n = List.length fp in
         let ins = fmodel_inputs ops owner in
         let nu = List.length ins in
         (* ---- the engine under a pseudo-random schedule, wait point after wait point ---- *)
         let deps = Array.init n (fun k -> rdep owner fp (nat_of_int k)) in
         let dep k = let k = int_of_nat k in if k < n then deps.(k) else [] in
         let g = if window > 0 then window_gate (nat_of_int window) (nat_of_int threshold) else no_window in
         let seed = ref (spin * 7919 + n * 104729 + 12345) in
         let rnd m = seed := (!seed * 1103515245 + 12345) land 0x3fffffff; if m <= 0 then 0 else (!seed lsr 8) mod m in
         let s = ref (finit mem0) in
         let quiet w = int_of_nat !s.eng.ins = w && int_of_nat (count_done !s.eng) = w in
         (* the inserting thread is inside parsec_taskpool_wait until the state is quiescent: nothing
            is applied once the wait point w is reached, so that the snapshot is taken there *)
         let cur = ref 0 in
         let apply e = if not (quiet !cur) then s := fstep_with owner fbody fp waits g dep !s e in
         let snaps = ref [] and stuck = ref false in
         List.iter (fun w ->
           let w = int_of_nat w in
           cur := w;
           for _ = 1 to 4 * (w - int_of_nat !s.eng.ins) + 3 do
             let t = nat_of_int (rnd (max n 1)) in
             (match rnd 4 with 0 -> apply Insert | 1 | 2 -> apply (Begin t) | _ -> apply (End t))
           done;
           let guard = ref 0 in
           while not (quiet w) && !guard <= 3 * n + 3 do
             incr guard;
             for t = 0 to n - 1 do apply Insert; apply (Begin (nat_of_int t)); apply (End (nat_of_int t)) done
           done;
           if not (quiet w) then stuck := true;
           snaps := List.init ndata (fun d -> !s.home (nat_of_int d)) :: !snaps) (List.rev waits);
         let snaps = List.rev !snaps in
         (* user tasks in the order of fp *)
         let upos = List.filter_map (fun x -> x)
                      (List.mapi (fun k f -> match f with FUser (_, _) -> Some k | FFlush (_, _) -> None) fp) in
         let okobs = List.length upos = nu &&
                     List.for_all2 (fun k exp -> !s.eng.obs (nat_of_int k) = Some exp) upos ins in
         let fin = fmodel_final ops owner (nat_of_int ndata) in
         let okmem = List.for_all2 (fun d v -> !s.eng.memo (nat_of_int d) = v) (List.init ndata (fun d -> d)) fin in
         if !stuck || not (all_done (prog_of fp) !s.eng) then "<model engine stuck>"
         else if not (okobs && okmem) then "<model engine differs from the sequential reference>"
         else if not (wfb owner fp waits) then "<case outside the contract: tile named after its flush without a wait>"
         else begin
           let nsn = List.length snaps in
           let mids = List.filteri (fun i _ -> i < nsn - 1) snaps in
           let last = List.nth snaps (nsn - 1) in
           "in:" ^ String.concat "" (List.mapi (fun i l ->
                     " " ^ string_of_int i ^ "=" ^ (if l = [] then "-" else str_n l)) ins)
           ^ " | snap:" ^ String.concat "" (List.map (fun sn -> " " ^ str_n sn) mids)
           ^ " | data:" ^ String.concat "" (List.map (fun v -> " " ^ string_of_int (int_of_n v)) last)
           ^ " | runs:" ^ String.concat "" (List.map (fun k -> " " ^ string_of_int (int_of_nat (!s.eng.nruns (nat_of_int k)))) upos)
           ^ " | null=0 torn=0"
         end
       | _ -> "<bad case>"))
