open Usertrig
open Vio
let () =
  iter_cases Sys.argv.(1) (fun line ->
    match words line with
    | ["one"; n; root; me] ->
      let n = int_of_string n and root = int_of_string root and me = int_of_string me in
      let ch = children (z_of_int n) (z_of_int root) (z_of_int me) in
      "children:" ^ String.concat "" (List.map (fun c -> " " ^ string_of_int (int_of_z c)) ch)
      ^ " | cb=1 state=4"
    | ["sys"; n; root] ->
      let n = int_of_string n and root = int_of_string root in
      let msgs = all_messages (z_of_int n) (z_of_int root) in
      let recv = Array.make n 0 in
      List.iter (fun (_, r) -> let r = int_of_z r in recv.(r) <- recv.(r) + 1) msgs;
      "recv:" ^ String.concat "" (Array.to_list (Array.map (fun c -> " " ^ string_of_int c) recv))
      ^ " | cb:" ^ String.concat "" (List.init n (fun _ -> " 1"))
    | "arr" :: ini :: n :: root :: me :: sched ->
      (* the model under the same schedule as the harness: the listed steps, then round-robin until both
         threads have finished; a step of a finished (or absent) thread is not counted, like cos_step *)
      let ini = int_of_string ini and n = int_of_string n and root = int_of_string root and me = int_of_string me in
      let fin t s = let ((((((c, m), _), _), _), _), _) = s in
        if t = 0 then int_of_nat c = 6 else int_of_nat m = 5 in
      let steps = [| 0; 0 |] in
      let stp s t = if t < 0 || t > 1 || fin t s then s else (steps.(t) <- steps.(t) + 1; step s (nat_of_int t)) in
      let s = List.fold_left stp (init (nat_of_int ini)) (List.map int_of_string sched) in
      let rec rr s k = if finished s || k > 1000 then s else rr (stp (stp s 0) 1) (k + 1) in
      let s = rr s 0 in
      let ((((((_, _), tp), l), p), d), _) = s in
      let ch = if int_of_nat d >= 1 then children (z_of_int n) (z_of_int root) (z_of_int me) else [] in
      Printf.sprintf "done=%d cb=%d parked=%d lockfree=%d state=%d steps=%d,%d children:%s"
        (if finished s then 1 else 0) (int_of_nat d) (int_of_nat p) (if int_of_nat l = 0 then 1 else 0)
        (match int_of_nat tp with 3 -> 4 | 2 -> 2 | _ -> 1) steps.(0) steps.(1)
        (String.concat "" (List.map (fun c -> " " ^ string_of_int (int_of_z c)) ch))
    | "ops" :: n :: root :: me :: ops ->
      let n = int_of_string n and root = int_of_string root and me = int_of_string me in
      let arg t = z_of_int (int_of_string (String.sub t 1 (String.length t - 1))) in
      let op t = match t.[0] with
        | 'R' -> Some OReady | 'T' -> Some OTrigger | 'a' -> Some (OAddActions (arg t)) | 's' -> Some (OSetActions (arg t))
        | 'n' -> Some (OSetTasks (arg t)) | 't' -> Some (OAddTasks (arg t)) | _ -> None in
      let s = List.fold_left (fun s t -> match op t with Some o -> cstep s o | None -> s) cinit ops in
      let nch = List.length (children (z_of_int n) (z_of_int root) (z_of_int me)) in
      Printf.sprintf "sig=%d sent=%d state=%d pa=%d" (int_of_nat s.c_sig) (int_of_nat s.c_sig * nch)
        (match s.c_state with NotReady -> 1 | Busy -> 2 | Terminated -> 4) (int_of_z s.c_pa)
    | _ -> "<bad case>")
