open Usertrig
open Vio
let () =
  iter_cases Sys.argv.(1) (fun line ->
    match words line with
    | ["one"; n; root; me] ->
      let n = int_of_string n and root = int_of_string root and me = int_of_string me in
      let ch = children (z_of_int n) (z_of_int root) (z_of_int me) in
      "children:" ^ String.concat "" (List.map (fun c -> " " ^ string_of_int (int_of_z c)) ch)
      ^ " | cb=1 state=4"
    | ["sys"; n; root] ->
      let n = int_of_string n and root = int_of_string root in
      let msgs = all_messages (z_of_int n) (z_of_int root) in
      let recv = Array.make n 0 in
      List.iter (fun (_, r) -> let r = int_of_z r in recv.(r) <- recv.(r) + 1) msgs;
      "recv:" ^ String.concat "" (Array.to_list (Array.map (fun c -> " " ^ string_of_int c) recv))
      ^ " | cb:" ^ String.concat "" (List.init n (fun _ -> " 1"))
    | _ -> "<bad case>")
