open Dtd
open Vio
(* Model driver of the DTD checks (C03, C04): same case file as harness/h_dtd.c, one line per case
     in: <t>=<v>,<v> ... | data: v ... | runs: c ... | conflicts=<n> null=<k>
   inputs and final data come from the sequential reference [seq_dtd] (model_inputs / model_final);
   the engine [run] is also folded over a pseudo-random event list derived from the case (refused
   events are no-ops, then passes of Insert/Begin/End until all_done): its observations must equal
   the reference (C03) and the number of conflicting pairs found in `running` at the Begin events
   is printed as conflicts (C04: 0). *)

let mode_of_char = function 'r' -> R | 'w' -> W | _ -> RW

let parse_tasks body =
  let ts = String.split_on_char ';' body in
  let ts = List.map String.trim ts in
  (* a trailing empty field after the last ';' is not a task; an empty field in the middle is *)
  let ts = match List.rev ts with "" :: r -> List.rev r | _ -> ts in
  let ts = List.filter (fun t -> t <> "!") ts in   (* wait points of the inserting thread: not tasks *)
  List.map (fun t ->
    let t = if String.length t > 0 && t.[0] = '>' then String.sub t 1 (String.length t - 1) else t in
    List.filter_map (fun a ->
      if a = "." || a = "" then None
      else
        let n = String.length a in
        Some (nat_of_int (int_of_string (String.sub a 0 (n - 1))), mode_of_char a.[n - 1]))
      (words t)) ts

let str_n l = String.concat "," (List.map (fun v -> string_of_int (int_of_n v)) l)

let () =
  iter_cases Sys.argv.(1) (fun line ->
    match String.index_opt line '|' with
    | None -> "<bad case>"
    | Some bar ->
      let head = words (String.sub line 0 bar) in
      let body = String.sub line (bar + 1) (String.length line - bar - 1) in
      (match head with
       | ["dtd"; ndata; _threads; _sched; window; threshold; spin; _flags] ->
         let ndata = int_of_string ndata and window = int_of_string window
         and threshold = int_of_string threshold and spin = int_of_string spin in
         let p = parse_tasks body in
         let n = List.length p in
         let ins = model_inputs p in
         let fin = model_final p (nat_of_int ndata) in
         (* ---- engine run under a pseudo-random schedule ---- *)
         let deps = Array.of_list (deps_of p) in
         let dep k = let k = int_of_nat k in if k < n then deps.(k) else [] in
         let gate = if window > 0 then window_gate (nat_of_int window) (nat_of_int threshold) else no_window in
         let seed = ref (spin * 7919 + n * 104729 + 12345) in
         let rnd m = seed := (!seed * 1103515245 + 12345) land 0x3fffffff; if m <= 0 then 0 else (!seed lsr 8) mod m in
         let tasks = Array.of_list p in
         let conflicts = ref 0 in
         let s = ref (init mem0) in
         let apply e =
           (match e with
            | Begin t when can_begin dep !s t ->
              (* C04 observation: running tasks that conflict with the one that begins *)
              let ti = int_of_nat t in
              Array.iteri (fun j tj ->
                if j <> ti && is_running (!s.st (nat_of_int j)) && conflictb tj tasks.(ti) then incr conflicts) tasks
            | _ -> ());
           s := step fbody p dep gate !s e in
         for _ = 1 to 6 * n + 4 do
           let t = nat_of_int (rnd (max n 1)) in
           (match rnd 4 with 0 -> apply Insert | 1 | 2 -> apply (Begin t) | _ -> apply (End t))
         done;
         let guard = ref 0 in
         while not (all_done p !s) && !guard <= 3 * n + 3 do
           incr guard;
           for t = 0 to n - 1 do apply Insert; apply (Begin (nat_of_int t)); apply (End (nat_of_int t)) done
         done;
         let okobs = List.for_all2 (fun i exp -> !s.obs (nat_of_int i) = Some exp) (List.init n (fun i -> i)) ins in
         let okmem = List.for_all2 (fun d v -> !s.memo (nat_of_int d) = v) (List.init ndata (fun d -> d)) fin in
         if not (all_done p !s) then "<model engine stuck>"
         else if not (okobs && okmem) then "<model engine differs from seq_dtd>"
         else
           "in:" ^ String.concat "" (List.mapi (fun i l ->
                     " " ^ string_of_int i ^ "=" ^ (if l = [] then "-" else str_n l)) ins)
           ^ " | data:" ^ String.concat "" (List.map (fun v -> " " ^ string_of_int (int_of_n v)) fin)
           ^ " | runs:" ^ String.concat "" (List.init n (fun i -> " " ^ string_of_int (int_of_nat (!s.nruns (nat_of_int i)))))
           ^ " | conflicts=" ^ string_of_int !conflicts ^ " null=0"
       | _ -> "<bad case>"))
