open Again
open Vio
(* model driver of C16.  Case line:  again <seed>:<max> <configs…> | <program>
   (<program> in the one-line format of tools/jdfgen.py, parsed as in d_ptg.ml).
   Prints  wf=<0|1> | <inst> p0>p1>…>pk ; …   — for every instance (sorted by class, then parameters) the
   priorities seen by the successive invocations of its body under `--again seed max`: the extracted
   task-progress machine (Again/AgainDefs.v inst_invocations) run on the seeded AGAIN count; then
   " | SU <inst> …": the startup tasks in the order the successive invocations of the generated startup
   functions create them (extracted startup_chunks, concatenated), class after class. *)

let toks = ref [||] and pos = ref 0
let next () = let t = !toks.(!pos) in incr pos; t
let nint () = int_of_string (next ())
let binop_of = function
  | "add" -> Oadd | "sub" -> Osub | "mul" -> Omul | "div" -> Odiv | "mod" -> Omod
  | "min" -> Omin | "max" -> Omax | "eq" -> Oeq | "ne" -> One | "lt" -> Olt | "le" -> Ole
  | "gt" -> Ogt | "ge" -> Oge | "and" -> Oand | "or" -> Oor | s -> failwith ("op " ^ s)
let rec p_expr () =
  match next () with
  | "c" -> Ec (z_of_int (nint ()))
  | "g" -> Eg (nat_of_int (nint ()))
  | "l" -> El (nat_of_int (nint ()))
  | "b" -> let o = binop_of (next ()) in let a = p_expr () in let b = p_expr () in Eb (o, a, b)
  | "n" -> En (p_expr ())
  | "t" -> let c = p_expr () in let a = p_expr () in let b = p_expr () in Et (c, a, b)
  | s -> failwith ("expr " ^ s)
let rec times n f = if n <= 0 then [] else let x = f () in x :: times (n - 1) f
let p_target () =
  match next () with
  | "T" -> let c = nint () in let f = nint () in let n = nint () in
    let args = times n (fun () ->
        match next () with
        | "E" -> Aexp (p_expr ())
        | "S" -> let lo = p_expr () in let hi = p_expr () in let st = p_expr () in Arng (lo, hi, st)
        | s -> failwith ("arg " ^ s)) in
    Ttask (nat_of_int c, nat_of_int f, args)
  | "M" -> let n = nint () in Tmem (times n p_expr)
  | "N" -> Tnew
  | "Z" -> Tnull
  | s -> failwith ("target " ^ s)
let p_mode = function "C" -> MCtl | "R" -> MRead | "W" -> MWrite | "B" -> MRW | s -> failwith ("mode " ^ s)

(* returns (program, class names) *)
let p_program () =
  if next () <> "P" then failwith "P expected";
  let _ndata = nint () in
  let ng = nint () in
  let gl = times ng (fun () -> z_of_int (nint ())) in
  let nc = nint () in
  let names = ref [] in
  let cls = times nc (fun () ->
      if next () <> "C" then failwith "C expected";
      let name = next () in
      names := name :: !names;
      let nl = nint () in
      let locals = times nl (fun () ->
          match next () with
          | "R" -> let _ = next () in let lo = p_expr () in let hi = p_expr () in let st = p_expr () in Lrange (lo, hi, st)
          | "V" -> let _ = next () in Ldef (p_expr ())
          | s -> failwith ("local " ^ s)) in
      let np = nint () in
      let params = times np (fun () -> nat_of_int (nint ())) in
      let npl = nint () in
      let place = times npl p_expr in
      let nf = nint () in
      let flows = times nf (fun () ->
          if next () <> "F" then failwith "F expected";
          let _ = next () in
          let m = p_mode (next ()) in
          let nd = nint () in
          let deps = times nd (fun () ->
              let din = (next () = "I") in
              let g = if nint () = 1 then Some (p_expr ()) else None in
              let th = p_target () in
              let el = if nint () = 1 then Some (p_target ()) else None in
              { d_in = din; d_guard = g; d_then = th; d_else = el }) in
          { f_mode = m; f_deps = deps }) in
      let prio = if nint () = 1 then Some (p_expr ()) else None in
      let count = (nint () = 1) in
      { c_locals = locals; c_params = params; c_place = place; c_flows = flows; c_prio = prio; c_count = count }) in
  ({ p_globals = gl; p_classes = cls }, Array.of_list (List.rev !names))

let str_tid names (ci, ps) =
  names.(int_of_nat ci) ^ "(" ^ String.concat "," (List.map (fun z -> string_of_int (int_of_z z)) ps) ^ ")"
let cmp_tid (c1, p1) (c2, p2) =
  let c = compare (int_of_nat c1) (int_of_nat c2) in
  if c <> 0 then c else compare (List.map int_of_z p1) (List.map int_of_z p2)

(* decimal printing of a non-negative Z that may exceed 63 bits *)
let rec z_to_string z =
  match z with
  | Z0 -> "0"
  | Zneg _ -> "-" ^ z_to_string (Z.opp z)
  | Zpos _ ->
    let ten = z_of_int 10 in
    let q = Z.div z ten and r = Z.modulo z ten in
    (match q with Z0 -> "" | _ -> z_to_string q) ^ string_of_int (int_of_z r)


let codes s = List.init (String.length s) (fun i -> z_of_int (Char.code s.[i]))

let () =
  iter_cases Sys.argv.(1) (fun line ->
    match split_on '|' line with
    | hd :: prog :: _ ->
      let (seed, amax, cfgs) =
        (match words hd with
         | _ :: sm :: cfgs ->
           (match String.split_on_char ':' sm with
            | [a; b] -> (int_of_string a, int_of_string b, cfgs)
            | _ -> (0, 0, cfgs))
         | _ -> (0, 0, [])) in
      toks := Array.of_list (words prog); pos := 0;
      let (p, names) = p_program () in
      let wf = wf_program p in
      if not wf then "wf=0"
      else begin
        let nm = List.map codes (Array.to_list names) in
        let ids = List.sort cmp_tid (instances p) in
        let item t =
          str_tid names t ^ " " ^
          String.concat ">" (List.map (fun z -> string_of_int (int_of_z z))
                               (inst_invocations nm p (z_of_int seed) (z_of_int amax) t)) in
        (* chunked startup: what the successive invocations of the startup functions create, for the
           (iter, chunk) of the first configuration that sets them (default 64, 256) *)
        let (it, ch) =
          (match List.filter_map (fun c ->
               match String.split_on_char ':' c with
               | _ :: _ :: i :: ch :: _ -> Some (int_of_string i, int_of_string ch)
               | _ -> None) cfgs with
           | x :: _ -> x
           | [] -> (64, 256)) in
        let su = List.concat (List.mapi (fun ci c ->
            List.map (fun env -> str_tid names (nat_of_int ci, params_of c env))
              (List.concat (startup_chunks p (nat_of_int ci) c (nat_of_int it) (nat_of_int ch)))) p.p_classes) in
        "wf=1 | " ^ String.concat " ; " (List.map item ids) ^ " | SU " ^ String.concat " " su
      end
    | _ -> "<bad case>")
