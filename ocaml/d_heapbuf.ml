open Heapbuf
open Vio
(* C35 model driver: same case language and output format as harness/h_heapbuf.c *)
let next_id = ref 0
let mk_task p = let t = { tid = z_of_int !next_id; prio = z_of_int p } in incr next_id; t
let str_task t = string_of_int (int_of_z t.tid) ^ ":" ^ string_of_int (int_of_z t.prio)
let str_ret = function None -> "r=-" | Some t -> "r=" ^ str_task t
let rec olist = function [] -> [] | x :: r -> x :: olist r   (* extracted lists are OCaml lists *)

let str_slot = function None -> "_" | Some t -> str_task t
let str_level b = String.concat "," (List.map str_slot b)
let str_call (ring, d) =
  "(" ^ String.concat "," (List.map (fun t -> string_of_int (int_of_z t.tid)) ring) ^ "@" ^ string_of_int (int_of_z d) ^ ")"

let run_buffers sizes ops =
  let bufs = ref (List.map (fun s -> List.init s (fun _ -> None)) sizes) in
  let nl = List.length sizes in
  let one op =
    match words op with
    | [] -> None
    | o :: args ->
      let args = List.map int_of_string args in
      let bo =
        match o, args with
        | "o", [k] when k >= 0 && k < nl -> Some (BPop (nat_of_int k))
        | "a", d :: ps -> Some (BPushAll (List.map mk_task ps, z_of_int d))
        | "p", d :: ps -> Some (BPushPrio (List.map mk_task ps, z_of_int d))
        | _ -> None in
      (match bo with
       | None -> Some "<bad op>"
       | Some bo ->
         let (b', (r, q)) = bstep !bufs bo in
         bufs := b';
         Some (str_ret r ^ " q=" ^ String.concat "" (List.map str_call q)
               ^ " b=" ^ String.concat "/" (List.map str_level b')
               ^ " e=" ^ String.concat "" (List.map (fun b -> if is_empty b then "1" else "0") b')
               ^ " n=" ^ String.concat "," (List.map (fun b -> string_of_int (int_of_nat (occupancy b))) b'))) in
  String.concat " ; " (List.filter_map one ops)

let rec str_tree = function
  | Leaf -> "."
  | Node (l, x, r) -> "(" ^ str_task x ^ str_tree l ^ str_tree r ^ ")"
let str_heap k = function
  | None -> " " ^ string_of_int k ^ "=#"
  | Some h -> " " ^ string_of_int k ^ "=" ^ string_of_int (int_of_n h.hsize) ^ "," ^ string_of_int (int_of_z h.hprio) ^ "," ^ str_tree h.htree

let run_heaps ops =
  let tab = ref [] in
  let one op =
    match words op with
    | [] -> None
    | o :: args ->
      let args = List.map int_of_string args in
      let n = List.length !tab in
      let ho, touched =
        match o, args with
        | "c", [] -> Some HCreate, [n]
        | "i", [k; p] -> Some (HInsert (nat_of_int (if k < 0 then n else k), mk_task p)), (if k >= 0 && k < n then [k] else [])
        | "r", [k] -> Some (HRemove (nat_of_int (if k < 0 then n else k))), (if k >= 0 && k < n then [k] else [])
        | "s", [k] -> Some (HSplit (nat_of_int (if k < 0 then n else k))), (if k >= 0 && k < n then [k; n] else [])
        | _ -> None, [] in
      (match ho with
       | None -> Some "<bad op>"
       | Some ho ->
         let (s', r) = hstep !tab ho in
         tab := s';
         Some (str_ret r ^ String.concat "" (List.map (fun k -> str_heap k (List.nth s' k)) touched))) in
  let body = List.filter_map one ops in
  String.concat " ; " (body @ ["END" ^ String.concat "" (List.mapi str_heap !tab)])

let () =
  iter_cases Sys.argv.(1) (fun line ->
    next_id := 0;
    match split_on '|' line with
    | hd :: ops ->
      (match words hd with
       | "B" :: sizes when sizes <> [] -> run_buffers (List.map int_of_string sizes) ops
       | ["H"] -> run_heaps ops
       | _ -> "<bad case>")
    | [] -> "<bad case>")
