open Arena
open Vio
(* same case syntax and observation format as harness/h_arena.c

   A es al maxalloc maxcached mis [fx] | nfail f.. | T | ops(t0) | .. | ops(T-1) | sched
       ops: 1 cnt = get cnt elements, 2 k = release k-th held block, 3 k u = give k-th held block to thread u
   M eltsize cls | T | ops(t0) | .. | sched
       ops: 1 = allocate, 2 k = free k-th held element, 3 k u = give *)

let rec take n l = if n <= 0 then [] else match l with [] -> [] | x :: r -> x :: take (n - 1) r
let rec drop n l = if n <= 0 then l else match l with [] -> [] | _ :: r -> drop (n - 1) r

let parse_aops v =
  let rec go = function
    | 1 :: c :: r -> OGet (pos_of_int c) :: go r
    | 2 :: k :: r -> ORel (nat_of_int k) :: go r
    | 3 :: k :: u :: r -> OGive (nat_of_int k, nat_of_int u) :: go r
    | _ -> [] in
  go v
let parse_mops v =
  let rec go = function
    | 1 :: r -> MGet :: go r
    | 2 :: k :: r -> MRel (nat_of_int k) :: go r
    | 3 :: k :: u :: r -> MGive (nat_of_int k, nat_of_int u) :: go r
    | _ -> [] in
  go v

(* the schedule, then round-robin completion; [sample] is called on the configuration after every step *)
let run_sched step all_done is_done_t c0 nt sched sample =
  let c = ref c0 in
  let steps = Array.make nt 0 in
  let st t = if t >= 0 && t < nt && not (is_done_t !c t) then begin
      steps.(t) <- steps.(t) + 1; c := step !c (nat_of_int t); sample !c end in
  List.iter st sched;
  let k = ref 0 and dl = ref false in
  while not (all_done !c) && not !dl do
    for t = 0 to nt - 1 do st t done;
    incr k; if !k > 10000 then dl := true
  done;
  (!c, steps, !dl)

let ids l = String.concat " " (List.map (fun b -> string_of_int (int_of_nat b)) l)
let stepstr a = String.concat "" (Array.to_list (Array.map (fun s -> " " ^ string_of_int s) a))

let arena_case fields =
  match fields with
  | hd :: fl :: th :: rest ->
    let hv = ints hd in
    let es = List.nth hv 0 and al = List.nth hv 1 and ma = List.nth hv 2 and mc = List.nth hv 3
    and mis = List.nth hv 4 in
    (* optional 6th number: 1 = model of the repaired release_chunk (notes/findings/C27-cache-limit-race.patch) *)
    let fx = (match List.nth_opt hv 5 with Some 1 -> true | _ -> false) in
    let fails = (match ints fl with _ :: r -> List.map nat_of_int r | [] -> []) in
    let nt = (match ints th with n :: _ -> n | [] -> 0) in
    let progs = List.map (fun f -> parse_aops (ints f)) (take nt rest) in
    let sched = (match drop nt rest with s :: _ -> ints s | [] -> []) in
    let pre = Printf.sprintf "A hdr=%d li=%d" (int_of_z hDR) (int_of_z lI) in
    (match arena_construct (z_of_int es) (z_of_int al) (z_of_int ma) (z_of_int mc) with
     | None -> pre ^ " rc=bad"
     | Some p ->
       let mxu = ref 0 and mxr = ref 0 and mxl = ref 0 and mxv = ref 0 in
       let sample c =
         mxu := max !mxu (int_of_z c.a_used); mxr := max !mxr (int_of_z c.a_rel);
         mxl := max !mxl (List.length c.a_lifo); mxv := max !mxv (int_of_z (a_live c)) in
       let is_done_t c t = match List.nth_opt c.a_thr t with Some x -> a_is_done x | None -> true in
       let all_done c = List.for_all a_is_done c.a_thr in
       let (c, steps, dl) = run_sched (astep fx p fails) all_done is_done_t (ainit progs) nt sched sample in
       let base b = (mis * (b + 1)) mod 4096 in
       let res_str = function
         | RGot (b, cnt) ->
           let bi = int_of_nat b in
           let sz = (match List.nth_opt c.a_allocs bi with Some z -> int_of_z z | None -> -1) in
           Printf.sprintf " g%d/%d/%d/%d" bi (int_of_pos cnt)
             (int_of_z (data_off (z_of_int (base bi)) (z_of_int al))) sz
         | RNull -> " n" | ROk -> " k" | RSkip -> " x" in
       let thr_str i x = Printf.sprintf " | t%d:%s" i (String.concat "" (List.map res_str (List.rev x.t_log))) in
       let held_str x = " [" ^ ids (List.map fst x.t_held) ^ "]" in
       pre ^ Printf.sprintf " rc=0 mu=%d mr=%d" (int_of_z p.p_mu) (int_of_z p.p_mr)
       ^ String.concat "" (List.mapi thr_str c.a_thr)
       ^ " | held:" ^ String.concat "" (List.map held_str c.a_thr)
       ^ Printf.sprintf " | used=%d rel=%d lifo=[%s] allocs=%d freed=[%s]" (int_of_z c.a_used) (int_of_z c.a_rel)
           (ids c.a_lifo) (List.length c.a_allocs) (ids (List.rev c.a_freed))
       ^ Printf.sprintf " | max used=%d rel=%d lifo=%d live=%d" !mxu !mxr !mxl !mxv
       ^ " | steps:" ^ stepstr steps ^ " | dup=0 bad=0" ^ (if dl then " <deadlock>" else ""))
  | _ -> "<bad case>"

let mempool_case fields =
  match fields with
  | hd :: th :: rest ->
    let hv = ints hd in
    let esz = List.nth hv 0 in
    let nt = (match ints th with n :: _ -> n | [] -> 0) in
    let progs = List.map (fun f -> parse_mops (ints f)) (take nt rest) in
    let sched = (match drop nt rest with s :: _ -> ints s | [] -> []) in
    let is_done_t c t = match List.nth_opt c.m_thr t with Some x -> m_is_done x | None -> true in
    let all_done c = List.for_all m_is_done c.m_thr in
    let (c, steps, dl) = run_sched mstep all_done is_done_t (minit progs) nt sched (fun _ -> ()) in
    let res_str = function
      | MGot b -> Printf.sprintf " g%d/%d" (int_of_nat b)
                    (match List.nth_opt c.m_owner (int_of_nat b) with Some o -> int_of_nat o | None -> -1)
      | MOk -> " k" | MSkip -> " x" in
    let thr_str i x = Printf.sprintf " | t%d:%s" i (String.concat "" (List.map res_str (List.rev x.m_log))) in
    Printf.sprintf "M li=%d esz=%d" (int_of_z lI) (int_of_z (m_elt_size (z_of_int esz)))
    ^ String.concat "" (List.mapi thr_str c.m_thr)
    ^ " | held:" ^ String.concat "" (List.map (fun x -> " [" ^ ids x.m_held ^ "]") c.m_thr)
    ^ " | pools:" ^ String.concat "" (List.map (fun l -> " [" ^ ids l ^ "]") c.m_pools)
    ^ " | nbelt: " ^ str_zs c.m_nbelt
    ^ Printf.sprintf " | elts=%d usage=%d" (List.length c.m_owner) (int_of_z (m_usage c))
    ^ " | steps:" ^ stepstr steps ^ " | dup=0 bad=0" ^ (if dl then " <deadlock>" else "")
  | _ -> "<bad case>"

let () =
  iter_cases Sys.argv.(1) (fun line ->
    let fields = split_on '|' line in
    match fields with
    | hd :: rest when String.length hd > 0 && hd.[0] = 'A' ->
      arena_case (String.sub hd 1 (String.length hd - 1) :: rest)
    | hd :: rest when String.length hd > 0 && hd.[0] = 'M' ->
      mempool_case (String.sub hd 1 (String.length hd - 1) :: rest)
    | _ -> "<bad case>")
