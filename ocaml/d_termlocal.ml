open Termlocal
open Vio
(* same case syntax as harness/h_termlocal.c *)
let parse_op w =
  let v () = z_of_int (int_of_string (String.sub w 1 (String.length w - 1))) in
  match w.[0] with
  | 'M' -> OMonitor | 'R' -> OReady | 'Q' -> OState
  | 't' -> OAddT (v ()) | 'p' -> OAddP (v ()) | 'T' -> OSetT (v ()) | 'P' -> OSetP (v ())
  | 'G' -> OGive (w.[1] = 't') | 'K' -> OTake (w.[1] = 't')
  | _ -> failwith "bad op"

let () =
  iter_cases Sys.argv.(1) (fun line ->
    match split_on '|' line with
    | hd :: pr :: sc :: _ ->
      let rc0 = int_of_string hd in
      let prog = List.map (fun s -> List.map parse_op (words s)) (String.split_on_char ';' pr) in
      let nt = List.length prog in
      let sched = ints sc in
      let c = ref (init (z_of_int rc0) prog) in
      let steps = Array.make nt 0 in
      let done_ t = match List.nth_opt !c.thrs t with Some th -> is_done th | None -> true in
      let st t = if t >= 0 && t < nt && not (done_ t) then begin
          steps.(t) <- steps.(t) + 1; c := step !c (nat_of_int t) end in
      List.iter st sched;
      let k = ref 0 and dl = ref false in
      let all_done () = List.for_all is_done !c.thrs in
      while not (all_done ()) && not !dl do
        for t = 0 to nt - 1 do st t done;
        incr k; if !k > 300 then dl := true
      done;
      let s = !c.shd in
      let zi = int_of_z in
      Printf.sprintf "cb=%d/%d at=%d bad=%d rdy=%d | nt=%d pa=%d mon=%d rc=%d dead=%d | ret:%s | steps:%s%s"
        (zi s.cbs) (zi s.cbd) (zi s.cb_at) (zi s.cb_bad) (zi s.rdy_at)
        (zi s.nt) (zi s.pa) (zi (mon_code s.mon)) (zi s.rc) (zi s.dead)
        (String.concat " ;" (List.map (fun th ->
             String.concat "" (List.map (fun r -> " " ^ string_of_int (zi r)) (List.rev th.rets))) !c.thrs))
        (String.concat "" (Array.to_list (Array.map (fun x -> " " ^ string_of_int x) steps)))
        (if !dl then " <deadlock>" else "")
    | _ -> "<bad case>")
