open Rbtree
open Vio
(* model driver of C36: same case format and same observation format as harness/h_rbtree.c *)
let maxid = 1024
let pnode (n : node) = let (i, k) = n in string_of_int (int_of_z i) ^ ":" ^ string_of_int (int_of_z k)
let popt = function None -> "-" | Some n -> pnode n
let dump t =
  let b = Buffer.create 256 in
  let rec go = function
    | E -> Buffer.add_char b '.'
    | T (c, l, n, r) ->
      Buffer.add_char b '('; Buffer.add_char b (match c with Red -> 'R' | Black -> 'B');
      Buffer.add_char b ' '; Buffer.add_string b (pnode n);
      Buffer.add_char b ' '; go l; Buffer.add_char b ' '; go r; Buffer.add_char b ')' in
  go t; Buffer.contents b
let linked id t = match locate (z_of_int id) t [] with Some _ -> true | None -> false
let () =
  iter_cases Sys.argv.(1) (fun line ->
    let t = ref E in
    let prev = ref "." in
    let res = List.map (fun tok ->
      let r = match words tok with
        | ["i"; id; k] when int_of_string id >= 0 && int_of_string id < maxid ->
          let id = int_of_string id in
          if linked id !t then "skip" else (t := insert_new (z_of_int id) (z_of_int (int_of_string k)) !t; "ok")
        | ["r"; id] when int_of_string id >= 0 && int_of_string id < maxid ->
          let id = int_of_string id in
          if not (linked id !t) then "skip" else (t := remove (z_of_int id) !t; "ok")
        | ["u"; id; k] when int_of_string id >= 0 && int_of_string id < maxid ->
          let id = int_of_string id in
          if not (linked id !t) then "skip" else begin
            let (t', ok) = update (z_of_int id) (z_of_int (int_of_string k)) !t in
            t := t'; if ok then "ok" else "exists" end
        | ["f"; k] -> popt (find (z_of_int (int_of_string k)) !t)
        | ["l"; k] -> popt (find_or_larger (z_of_int (int_of_string k)) !t)
        | ["m"] -> popt (minimum !t)
        | ["e"] -> "each" ^ String.concat "" (List.map (fun n -> " " ^ pnode n) (nodes !t))
        | _ -> "<bad op>" in
      let d = dump !t in
      let shown = if d = !prev then "=" else d in
      prev := d; r ^ " @ " ^ shown) (List.filter (fun s -> String.trim s <> "") (String.split_on_char ',' line)) in
    if res = [] then "<empty>" else String.concat " | " res)
