open Ptg
open Vio
(* model driver of the PTG checks.  Case line:  <mode> <configs…> | <program>
   where <program> is the one-line format of tools/jdfgen.py (to_case):
     P ndata ng g… nc { C name nl { R name lo hi st | V name e } np p… npl e… nf
                        { F name mode nd { I|O (0 | 1 guard) target (0 | 1 target) } } (0 | 1 prio) count }
     target: T c f na { E e | S lo hi st } | M na e… | N | Z
     expr:   c int | g i | l i | b op e e | n e | t e e e
   mode "inst": prints  wf=<0|1> (wf_first_match) n=<count> <instances sorted by class, then parameters>
   mode "keys": prints  wf=<0|1> <inst>=<make_key>:<key_print> … (same order) *)

let toks = ref [||] and pos = ref 0
let next () = let t = !toks.(!pos) in incr pos; t
let nint () = int_of_string (next ())
let binop_of = function
  | "add" -> Oadd | "sub" -> Osub | "mul" -> Omul | "div" -> Odiv | "mod" -> Omod
  | "min" -> Omin | "max" -> Omax | "eq" -> Oeq | "ne" -> One | "lt" -> Olt | "le" -> Ole
  | "gt" -> Ogt | "ge" -> Oge | "and" -> Oand | "or" -> Oor | s -> failwith ("op " ^ s)
let rec p_expr () =
  match next () with
  | "c" -> Ec (z_of_int (nint ()))
  | "g" -> Eg (nat_of_int (nint ()))
  | "l" -> El (nat_of_int (nint ()))
  | "b" -> let o = binop_of (next ()) in let a = p_expr () in let b = p_expr () in Eb (o, a, b)
  | "n" -> En (p_expr ())
  | "t" -> let c = p_expr () in let a = p_expr () in let b = p_expr () in Et (c, a, b)
  | s -> failwith ("expr " ^ s)
let rec times n f = if n <= 0 then [] else let x = f () in x :: times (n - 1) f
let p_target () =
  match next () with
  | "T" -> let c = nint () in let f = nint () in let n = nint () in
    let args = times n (fun () ->
        match next () with
        | "E" -> Aexp (p_expr ())
        | "S" -> let lo = p_expr () in let hi = p_expr () in let st = p_expr () in Arng (lo, hi, st)
        | s -> failwith ("arg " ^ s)) in
    Ttask (nat_of_int c, nat_of_int f, args)
  | "M" -> let n = nint () in Tmem (times n p_expr)
  | "N" -> Tnew
  | "Z" -> Tnull
  | s -> failwith ("target " ^ s)
let p_mode = function "C" -> MCtl | "R" -> MRead | "W" -> MWrite | "B" -> MRW | s -> failwith ("mode " ^ s)

(* returns (program, class names) *)
let p_program () =
  if next () <> "P" then failwith "P expected";
  let _ndata = nint () in
  let ng = nint () in
  let gl = times ng (fun () -> z_of_int (nint ())) in
  let nc = nint () in
  let names = ref [] in
  let cls = times nc (fun () ->
      if next () <> "C" then failwith "C expected";
      let name = next () in
      names := name :: !names;
      let nl = nint () in
      let locals = times nl (fun () ->
          match next () with
          | "R" -> let _ = next () in let lo = p_expr () in let hi = p_expr () in let st = p_expr () in Lrange (lo, hi, st)
          | "V" -> let _ = next () in Ldef (p_expr ())
          | s -> failwith ("local " ^ s)) in
      let np = nint () in
      let params = times np (fun () -> nat_of_int (nint ())) in
      let npl = nint () in
      let place = times npl p_expr in
      let nf = nint () in
      let flows = times nf (fun () ->
          if next () <> "F" then failwith "F expected";
          let _ = next () in
          let m = p_mode (next ()) in
          let nd = nint () in
          let deps = times nd (fun () ->
              let din = (next () = "I") in
              let g = if nint () = 1 then Some (p_expr ()) else None in
              let th = p_target () in
              let el = if nint () = 1 then Some (p_target ()) else None in
              { d_in = din; d_guard = g; d_then = th; d_else = el }) in
          { f_mode = m; f_deps = deps }) in
      let prio = if nint () = 1 then Some (p_expr ()) else None in
      let count = (nint () = 1) in
      { c_locals = locals; c_params = params; c_place = place; c_flows = flows; c_prio = prio; c_count = count }) in
  ({ p_globals = gl; p_classes = cls }, Array.of_list (List.rev !names))

let str_tid names (ci, ps) =
  names.(int_of_nat ci) ^ "(" ^ String.concat "," (List.map (fun z -> string_of_int (int_of_z z)) ps) ^ ")"
let cmp_tid (c1, p1) (c2, p2) =
  let c = compare (int_of_nat c1) (int_of_nat c2) in
  if c <> 0 then c else compare (List.map int_of_z p1) (List.map int_of_z p2)

(* decimal printing of a non-negative Z that may exceed 63 bits *)
let rec z_to_string z =
  match z with
  | Z0 -> "0"
  | Zneg _ -> "-" ^ z_to_string (Z.opp z)
  | Zpos _ ->
    let ten = z_of_int 10 in
    let q = Z.div z ten and r = Z.modulo z ten in
    (match q with Z0 -> "" | _ -> z_to_string q) ^ string_of_int (int_of_z r)

let () =
  iter_cases Sys.argv.(1) (fun line ->
    match split_on '|' line with
    | hd :: prog :: _ ->
      let mode = (match words hd with m :: _ -> m | [] -> "inst") in
      toks := Array.of_list (words prog); pos := 0;
      let (p, names) = p_program () in
      let wf = wf_first_match p in   (* first match wins; wf_program implies it *)
      let ids = List.sort cmp_tid (instances p) in
      let wfs = "wf=" ^ (if wf then "1" else "0") in
      if mode = "keys" then begin
        let g = p.p_globals in
        let item (ci, ps) =
          match List.nth_opt p.p_classes (int_of_nat ci) with
          | None -> "?"
          | Some c ->
            (match complete g c ps with
             | None -> str_tid names (ci, ps) ^ "=?"
             | Some env ->
               let k = make_key g c env in
               str_tid names (ci, ps) ^ "=" ^ z_to_string k ^ ":" ^ str_tid names (ci, key_print g c k)) in
        wfs ^ " " ^ String.concat " " (List.map item ids)
      end else
        wfs ^ " n=" ^ string_of_int (List.length ids) ^ " " ^ String.concat " " (List.map (str_tid names) ids)
    | _ -> "<bad case>")
