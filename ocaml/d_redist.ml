open Redist
open Vio
(* C21 model driver: same case file as harness/h_redist.c, one observation line per case *)
let z = z_of_int
let ceil_div a b = (a + b - 1) / b
let () =
  iter_cases Sys.argv.(1) (fun line ->
    match words line with
    | "run" :: rest when List.length rest = 21 ->
      (match List.map int_of_string rest with
       | [r; py; _kpy; kqy; pt; _kpt; kqt; my; ny; mby; nby; mt; nt; mbt; nbt; sr; sc; diy; djy; dit; djt] ->
         if py < 1 || pt < 1 || r mod py <> 0 || r mod pt <> 0 then "<skip>" else begin
           let c = { rd = { bY = z mby; bT = z mbt; sz = z sr; dY = z diy; dT = z dit };
                     cd = { bY = z nby; bT = z nbt; sz = z sc; dY = z djy; dT = z djt };
                     lmtY = z (ceil_div my mby); lntY = z (ceil_div ny nby);
                     lmtT = z (ceil_div mt mbt); lntT = z (ceil_div nt nbt);
                     ncY = z ((r / py) * kqy); ncT = z ((r / pt) * kqt) } in
           let (ok, vals) = observe c in
           let b = Buffer.create 4096 in
           Buffer.add_string b (Printf.sprintf "rc=%d %d %d |" (if ok then 0 else 1)
                                  (ceil_div mt mbt * mbt) (ceil_div nt nbt * nbt));
           List.iter (fun v -> Buffer.add_char b ' '; Buffer.add_string b (string_of_int (int_of_z v))) vals;
           Buffer.contents b
         end
       | _ -> "<bad case>")
    | ["gs"; a; b; c; d; e; f] ->
      let i s = z (int_of_string s) in
      string_of_int (int_of_z (getsize (i a) (i b) (i c) (i d) (i e) (i f)))
    | ["nc"; r; py; kqy; pt; kqt; _sc] ->
      let r = int_of_string r and py = int_of_string py and kqy = int_of_string kqy
      and pt = int_of_string pt and kqt = int_of_string kqt in
      if py < 1 || pt < 1 || r mod py <> 0 || r mod pt <> 0 then "<skip>" else begin
        let d = { bY = z 1; bT = z 1; sz = z 1; dY = z 0; dT = z 0 } in
        let c = { rd = d; cd = d; lmtY = z 1; lntY = z 1; lmtT = z 1; lntT = z 1;
                  ncY = z ((r / py) * kqy); ncT = z ((r / pt) * kqt) } in
        string_of_int (int_of_z (num_cols c))
      end
    | "upd" :: rest when List.length rest = 17 ->
      (match List.map int_of_string rest with
       | [my; ny; mys; mye; nys; nye; i0; j0; tlr; tlc; brr; brc; mb; nb; offr; offc; same] ->
         let small x = x >= 1 && x <= 8 and off x = x >= 0 && x <= 8 in
         if not (small tlr && small tlc && small brr && small brc && small mb && small nb
                 && off i0 && off j0 && off offr && off offc
                 && mys >= 0 && mye >= mys && mye <= mys + 5 && nys >= 0 && nye >= nys && nye <= nys + 5)
         then "<skip>" else begin
           (* the nested row / column case split of CORE_redistribute_update *)
           match upd_seg (z my) (z mys) (z mye) (z i0) (z tlr) (z brr) (z mb) (z offr),
                 upd_seg (z ny) (z nys) (z nye) (z j0) (z tlc) (z brc) (z nb) (z offc) with
           | Some ((si, di), li), Some ((sj, dj), lj) ->
             let si = int_of_z si and di = int_of_z di and li = int_of_z li
             and sj = int_of_z sj and dj = int_of_z dj and lj = int_of_z lj in
             let cells = ref [] in
             for a = 0 to li - 1 do for b = 0 to lj - 1 do
               (* same rank: read from the source tile (value (i+1)*100+j); else from the packed piece
                  (leading dimension = its number of rows), harness buffer value = linear index *)
               let v = if same <> 0 then (si + a + 1) * 100 + (sj + b) else a + b * li in
               cells := (di + a, dj + b, v) :: !cells
             done done;
             let l = List.sort compare !cells in
             if l = [] then "-" else String.concat " " (List.map (fun (i, j, v) -> Printf.sprintf "%d,%d=%d" i j v) l)
           | _ -> "-"
         end
       | _ -> "<bad case>")
    | _ -> "<bad case>")
