open Ops
open Vio
(* C22 model driver: one observation line per case, in the format checks/C22.py builds from the
   per-rank outputs of harness/h_ops.c (see the header of that file). *)
let zs l = List.map z_of_int l
let ints_of l = List.map int_of_z l
let join sep l = String.concat sep l
let entry l = join "," (List.map string_of_int l)
let sorted ll = List.sort compare ll

let split_bar line =
  match String.index_opt line '|' with
  | None -> (line, "")
  | Some i -> (String.sub line 0 i, String.sub line (i + 1) (String.length line - i - 1))

let counts (keys : int list list) =
  (* multiset of keys -> sorted (key, count) *)
  let s = sorted keys in
  let rec go acc = function
    | [] -> List.rev acc
    | k :: r -> (match acc with
                 | (k', c) :: a when k' = k -> go ((k', c + 1) :: a) r
                 | _ -> go ((k, 1) :: acc) r) in
  go [] s

let slots = function
  | [s; mx; sq; cnt; lo; hi] -> entry (ints_of [lo; hi; cnt; s; mx; sq])
  | _ -> "null"

let () =
  iter_cases Sys.argv.(1) (fun line ->
    let (hd, tl) = split_bar line in
    match words hd with
    | "apply" :: _r :: _t :: _s :: rest ->
      (match List.map int_of_string rest with
       | [uplo; mt; nt; _mb; _nb; p; q] ->
         let calls = List.map ints_of (apply_run (z_of_int uplo) (z_of_int mt) (z_of_int nt) (z_of_int p) (z_of_int q)) in
         let a = sorted calls in
         let d = counts (List.map (function m :: n :: _ -> [m; n] | l -> l) calls) in
         "A" ^ join "" (List.map (fun e -> " " ^ entry e) a)
         ^ " | D" ^ join "" (List.map (fun (k, c) -> " " ^ entry k ^ ":" ^ string_of_int c) d)
       | _ -> "<bad case>")
    | "map" :: r :: t :: _s :: rest ->
      (match List.map int_of_string rest with
       | [mt; nt; smt; snt; _mb; _nb; p; q; fx] ->
         let r = int_of_string r and t = int_of_string t in
         let sched = List.map nat_of_int (ints tl) in
         let per_rank = List.init r (fun me ->
           let (vis, fin) = map_visits (nat_of_int mt) (nat_of_int nt) (nat_of_int t) (nat_of_int p) (nat_of_int q) (nat_of_int me) sched in
           let vis = List.map (fun (m, n) -> [int_of_nat m; int_of_nat n; me]) vis in
           let nloc = List.length (local_tiles (nat_of_int smt) (nat_of_int snt) (bc_local (nat_of_int p) (nat_of_int q) (nat_of_int me))) in
           let ok = fin && map_completes (fx <> 0) (nat_of_int nloc) (nat_of_int (List.length vis)) in
           (vis, ok)) in
         let v = sorted (List.concat (List.map fst per_rank)) in
         let d = counts (List.map (function m :: n :: _ -> [m; n] | l -> l) v) in
         let hung = List.concat (List.mapi (fun me (_, ok) -> if ok then [] else [string_of_int me]) per_rank) in
         "V" ^ join "" (List.map (fun e -> " " ^ entry e) v)
         ^ " | D" ^ join "" (List.map (fun (k, c) -> " " ^ entry k ^ ":" ^ string_of_int c) d)
         ^ " | end=" ^ (if hung = [] then "ok" else "hang@" ^ join "," hung)
       | _ -> "<bad case>")
    | "reduce" :: _r :: _t :: _s :: rest ->
      (match List.map int_of_string rest with
       | [mt; _mb; _nb] ->
         let vals = zs (ints tl) in
         let run = reduce_run (z_of_int mt) vals in
         let ents = List.sort compare (List.map (fun (ps, v) -> (ints_of ps, v)) run) in
         let root = match reduce_root_out (z_of_int mt) with
           | [RData (c, [i; j])] when c = ['R'] && int_of_z i = 0 && int_of_z j = 0 ->
             (match reduce_root_run (z_of_int mt) vals with Some v -> slots v | None -> "none")
           | _ -> "none" in
         "I" ^ join "" (List.map (fun (ps, v) -> " " ^ entry ps ^ ":" ^ (match v with Some v -> slots v | None -> "null")) ents)
         ^ " | R " ^ root ^ " | depth=" ^ string_of_int (int_of_z (reduce_depth_of (z_of_int mt)))
       | _ -> "<bad case>")
    | "reducelib" :: _r :: _t :: _s :: rest ->
      (match List.map int_of_string rest with
       | [mt; _mb; _nb] ->
         let sp = sorted (List.map ints_of (reduce_space_of (z_of_int mt))) in
         "I" ^ join "" (List.map (fun e -> " " ^ entry e) sp)
         ^ " | depth=" ^ string_of_int (int_of_z (reduce_depth_of (z_of_int mt)))
       | _ -> "<bad case>")
    | (("rcol" | "rrow") as k) :: _r :: _t :: _s :: rest ->
      (match List.map int_of_string rest with
       | [mt; nt; _mb; _nb] ->
         let (n, undef) = skeleton_run (k = "rcol") (z_of_int mt) (z_of_int nt) in
         "ops=" ^ string_of_int (int_of_z n) ^ " end=" ^ (if undef then "undef" else "ok")
       | _ -> "<bad case>")
    | _ -> "<bad case>")
