#!/usr/bin/env python3
"""tools/save_seed.py <prop> <id> <result> [note] : store a confirmed seeded change under seeded/<id>/"""
import json, os, shutil, sys
prop, sid, result = sys.argv[1], sys.argv[2], sys.argv[3]
note = sys.argv[4] if len(sys.argv) > 4 else ""
src, dst = "/tmp/seed-" + sid, "/verif/seeded/" + sid
os.makedirs(dst, exist_ok=True)
for f in os.listdir(src):
    p = os.path.join(src, f)
    if not os.path.isfile(p) or os.path.getsize(p) > 200000:
        continue
    if f.endswith((".log", ".o", ".txt")) and f not in ("PROMPT.txt",) or f in ("demo", "PROMPT.txt") or os.access(p, os.X_OK) and not f.endswith((".sh", ".py")):
        continue
    shutil.copy(p, dst)
m = {}
try:
    m = json.load(open(os.path.join(src, "meta.json")))
except Exception:
    pass
m["property"] = prop
out = ""
try:
    out = open("/tmp/seedrun_%s.out" % sid).read()
except Exception:
    pass
def clean(l):
    return l.replace("/verif/_work/", "_work/")
m["confirmed_by_lead"] = {
    "demo": "tools/confirm_seed.sh %s: demonstration exits 0 on the clean scratch worktree and non-zero with patch.diff applied" % sid,
    "check": "tools/run_seed.sh %s %s: patch applied in the scratch worktree, VERIF_REPO=<worktree> bin/check %s --tier quick (seed 1), worktree restored" % (prop, sid, prop),
    "result": result, "note": note,
    "violation_lines": [clean(l) for l in out.splitlines() if l.startswith("VIOLATION")][:4]}
json.dump(m, open(os.path.join(dst, "meta.json"), "w"), indent=1)
print("saved", dst, sorted(os.listdir(dst)))
