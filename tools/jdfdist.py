"""tools/jdfdist.py — multi-rank extension of tools/jdfgen.py for C05 (PTGDist).

  to_jdf_dist(prog)         JDF text whose task classes are placed by `: P(ci, p0, p1, p2)` (placement
                            collection of harness/ptgdist_driver.c), data in the tabular collection D
  owner(place, np, t)       rank of instance t = (class index, params) under a placement string
  data_table(prog, place, np)  rank of every element of D (the rank of the one instance that refers to it)
  seq_exec(prog)            Python replay of the sequential reference: values read / written per instance
                            and the final collection (mirror of PTGDist/PTGDistDefs.v seq_exec, and of the
                            hash of harness/ptgdist_driver.c)
  bcast_tree(n, root, sets, topo)  parents / announced outputs of one collective activation (port of
                            parsec_remote_dep_activate + propagate; used only to CLASSIFY a failing input)
  f8_program()              the minimal relay-lacks-output program (design finding F8)
  template "multiout"       producers with several output flows whose destination sets differ
python3 stdlib only.
"""
import os
import sys

sys.path.insert(0, os.path.dirname(os.path.abspath(__file__)))
import jdfgen  # noqa: E402
from jdfgen import C, G, L, B, Cls, Local, Flow, Dep, Prog  # noqa: E402

M64 = (1 << 64) - 1


# ----------------------------------------------------------------------- placement
def mmod(x, n):
    return ((x % n) + n) % n


def parse_place(s):
    w = s.split(":")
    if w[0] == "bc":
        return ("bc", int(w[1]), int(w[2]), int(w[3]), int(w[4]))
    return (w[0],)


def owner(place, np_, t):
    """rank of instance t = (ci, params) — same formulas as ptgdist_driver.c place_rank and PTGDistDefs.place_rank"""
    pl = parse_place(place) if isinstance(place, str) else place
    ci, ps = t
    p = list(ps[:3]) + [0] * (3 - len(ps[:3]))
    if pl[0] == "cyc":
        return mmod(p[0], np_)
    if pl[0] == "bc":
        _, pr, qc, mb, nb = pl
        return mmod(p[0] // mb, pr) * qc + mmod(p[1] // nb, qc)
    h = ci + 1
    for x in p:
        h = (h * 31 + mmod(x, 65536) + 7) % 65521
    return h % np_


def mem_refs(p, t):
    """[(flow index, 'in'|'out', element index)] direct memory references of instance t"""
    ci, ps = t
    c = p.classes[ci]
    env = jdfgen.complete(p.gvals, c, ps)
    out = []
    if env is None:
        return out
    for fi, f in enumerate(c.flows):
        seen_in = False
        for d in f.deps:
            tg = jdfgen.dep_target(p.gvals, env, d)
            if d.din:
                if f.mode != 'C' and seen_in:
                    continue
                if tg is not None:
                    seen_in = True
                    if tg[0] == 'M':
                        out.append((fi, 'in', jdfgen.ev(p.gvals, env, tg[1][0])))
            elif tg is not None and tg[0] == 'M':
                out.append((fi, 'out', jdfgen.ev(p.gvals, env, tg[1][0])))
    return out


def mem_private(p):
    """every element of D is referred to by at most one instance, and every reference is in range"""
    users = {}
    for t in jdfgen.instances(p):
        for fi, d, x in mem_refs(p, t):
            if not (0 <= x < p.ndata):
                return False
            if users.setdefault(x, t) != t:
                return False
    return True


def data_table(p, place, np_):
    tab = [0] * p.ndata
    for t in jdfgen.instances(p):
        for fi, d, x in mem_refs(p, t):
            if 0 <= x < p.ndata:
                tab[x] = owner(place, np_, t)
    return tab


def unspecified_elements(p):
    """elements of D whose final content the dataflow does not define: the element feeds a written flow in place and that
    flow has a (necessarily unique) writing successor — when the successor is local it keeps working in the same memory,
    when it is remote it works on a copy.  They are masked ('*') in the observations of both sides."""
    un = set()
    for t in jdfgen.instances(p):
        c = p.classes[t[0]]
        se = jdfgen.succ_edges(p, t)
        for fi, d, x in mem_refs(p, t):
            if d == 'in' and c.flows[fi].mode in ('W', 'B'):
                if any(e[0] == fi and p.classes[e[1][0]].flows[e[2]].mode in ('W', 'B') for e in se):
                    un.add(x)
    return un


def value_hazards(p):
    """[(producer instance, flow, reason)]: places where the VALUE a consumer reads could depend on the schedule or on
    the distribution, because local successors share the producer's data copy and RW flows work in place.  Rule: a
    successor whose flow is written (RW/WRITE) must be the only consumer of the producer's flow — no other successor,
    no write-back `-> D(x)` (an asynchronous memcpy by the communication thread) — and the producer's flow must itself be
    a written flow (so that the copy is exclusively its own)."""
    bad = []
    for t in jdfgen.instances(p):
        c = p.classes[t[0]]
        se = jdfgen.succ_edges(p, t)
        mo = {fi for fi, d, x in mem_refs(p, t) if d == 'out'}
        for fi in sorted({e[0] for e in se}):
            es = [e for e in se if e[0] == fi]
            wr = [e for e in es if p.classes[e[1][0]].flows[e[2]].mode in ('W', 'B')]
            if not wr:
                continue
            if len(es) > 1:
                bad.append((t, fi, "several consumers, one of them writes", wr))
            elif fi in mo:
                bad.append((t, fi, "write-back and a writing consumer", wr))
            elif c.flows[fi].mode not in ('W', 'B'):
                bad.append((t, fi, "a forwarded READ flow has a writing consumer", wr))
    return bad


def make_value_safe(p):
    """repair a generated program in place (dependency structure unchanged): drop the write-back of a flow whose only
    consumer writes, otherwise turn the writing consumer's flow into a READ flow (and drop ITS write-backs)"""
    for _ in range(12):
        hz = value_hazards(p)
        if not hz:
            return True
        t, fi, why, wr = hz[0]
        c = p.classes[t[0]]
        if why.startswith("write-back"):
            c.flows[fi].deps = [d for d in c.flows[fi].deps if d.din or not (d.then[0] == 'M' or (d.els is not None and d.els[0] == 'M'))]
        else:
            for e in wr:
                f = p.classes[e[1][0]].flows[e[2]]
                if f.mode == 'W':
                    return False
                f.mode = 'R'
                f.deps = [d for d in f.deps if d.din or not (d.then[0] == 'M' or (d.els is not None and d.els[0] == 'M'))]
    return not value_hazards(p)


def reads_new(p):
    """some instance READS a NEW tile (its content is whatever the arena holds): values unpredictable"""
    for t in jdfgen.instances(p):
        ci, ps = t
        c = p.classes[ci]
        env = jdfgen.complete(p.gvals, c, ps)
        for f in c.flows:
            if f.mode not in ('B', 'R'):
                continue
            for d in f.deps:
                if d.din:
                    tg = jdfgen.dep_target(p.gvals, env, d)
                    if tg is not None:
                        if tg[0] == 'N':
                            return True
                        break
    return False


# ----------------------------------------------------------------------- reference values
def mix64(z):
    z = (z + 0x9E3779B97F4A7C15) & M64
    z = ((z ^ (z >> 30)) * 0xBF58476D1CE4E5B9) & M64
    z = ((z ^ (z >> 27)) * 0x94D049BB133111EB) & M64
    return z ^ (z >> 31)


def hash_instance(seed, name, env):
    h = mix64(seed)
    for ch in name:
        h = mix64(h ^ ord(ch))
    for v in env:
        h = mix64(h ^ (v & 0xFFFFFFFF))
    return h


def written_value(name, env, flow, reads):
    """reads: [(flow index, value)] in increasing flow order"""
    h = hash_instance(0x5eed, name, env)
    h = mix64(h ^ flow)
    for i, v in reads:
        h = mix64(h ^ (v & M64) ^ ((i << 56) & M64))
    return h >> 3


def topo(p):
    ids = jdfgen.instances(p)
    P = {t: [e[1] for e in jdfgen.pred_edges(p, t)] for t in ids}
    placed, order, todo = set(), [], list(ids)
    while todo:
        ready = [t for t in todo if all(q in placed for q in P[t])]
        if not ready:
            raise ValueError("cycle")
        order += ready
        placed.update(ready)
        rs = set(ready)
        todo = [t for t in todo if t not in rs]
    return order


def seq_exec(p):
    """-> (per instance {t: (reads {flow: v}, writes {flow: v})}, final collection list)"""
    data = [1000 + k for k in range(p.ndata)]
    outv, res = {}, {}
    for t in topo(p):
        ci, ps = t
        c = p.classes[ci]
        env = jdfgen.complete(p.gvals, c, ps)
        inv = {}
        ine = {e[0]: e for e in jdfgen.pred_edges(p, t)}
        for fi, f in enumerate(c.flows):
            if f.mode == 'C':
                continue
            if fi in ine:
                _, q, fq = ine[fi]
                inv[fi] = outv[(q, fq)]
            else:
                v = -1
                for d in f.deps:
                    if d.din:
                        tg = jdfgen.dep_target(p.gvals, env, d)
                        if tg is not None:
                            if tg[0] == 'M':
                                x = jdfgen.ev(p.gvals, env, tg[1][0])
                                v = data[x] if 0 <= x < p.ndata else -1
                            elif tg[0] == 'N':
                                v = 0
                            break
                inv[fi] = v
        rd = [(fi, inv[fi]) for fi, f in enumerate(c.flows) if f.mode in ('R', 'B')]
        reads = dict(rd)
        writes = {}
        for fi, f in enumerate(c.flows):
            if f.mode in ('W', 'B'):
                writes[fi] = written_value(c.name, env, fi, rd)
                outv[(t, fi)] = writes[fi]
            elif f.mode == 'R':
                outv[(t, fi)] = inv[fi]
            else:
                outv[(t, fi)] = 0
        for fi, d, x in mem_refs(p, t):
            # `-> D(x)` copies the flow back; a written flow fed by `<- D(x)` works in place on the element
            if 0 <= x < p.ndata and (d == 'out' or c.flows[fi].mode in ('W', 'B')):
                data[x] = outv[(t, fi)]
        res[t] = (reads, writes)
    for x in unspecified_elements(p):
        if 0 <= x < p.ndata:
            data[x] = '*'
    return res, data


# ----------------------------------------------------------------------- collective tree (classification only)
def _child(topo_, me, him):
    if topo_ == 1:
        return me != -1 and him == me + 1
    if topo_ == 2:
        if him == 0 or me == -1:
            return False
        return (him ^ (1 << (him.bit_length() - 1))) == me
    return me == 0


def bcast_tree(n, root, sets, topo_):
    """sets: destination ranks per output (in output order).  -> {dest: (parent, set of announced outputs)}"""
    def sends(me):
        fw, sent = {root}, []
        for s in sets:
            part = sorted((r for r in set(s) if True), key=lambda r: (r + n - root) % n)
            my_idx = 0 if me == root else -1
            idx = 0
            for r in part:
                if r in fw:
                    continue
                idx += 1
                if my_idx == -1:
                    if r == me:
                        my_idx = idx
                    fw.add(r)
                    continue
                if _child(topo_, my_idx, idx):
                    sent.append(r)
                fw.add(r)
        return sent
    res = {}
    todo, seen = [root], set()
    while todo:
        me = todo.pop(0)
        if me in seen:
            continue
        seen.add(me)
        for d in sends(me):
            ann = {k for k, s in enumerate(sets) if d in s and (me == root or me in s)}
            res.setdefault(d, (me, ann))
            todo.append(d)
    return res


def relay_lacks_output(p, place, np_, topo_):
    """some producer's activation reaches a consumer of output k through a relay that does not hold k"""
    if np_ < 2 or topo_ not in (1, 2):
        return False
    for t in jdfgen.instances(p):
        root = owner(place, np_, t)
        byflow = {}
        for e in jdfgen.succ_edges(p, t):
            byflow.setdefault(e[0], set()).add(owner(place, np_, e[1]))
        sets = [sorted(r for r in byflow[k] if r != root) for k in sorted(byflow)]
        sets = [s for s in sets if s]
        if len(sets) < 2:
            continue
        tr = bcast_tree(np_, root, sets, topo_)
        for d, (par, ann) in tr.items():
            for k, s in enumerate(sets):
                if d in s and k not in ann:
                    return True
    return False


# ----------------------------------------------------------------------- printers
def to_jdf_dist(p, name="ptgcase"):
    gn = jdfgen.gnames(p)
    o = []
    o.append('extern "C" %{\n#include "ptg_rt.h"\nint ptgd_elt_bytes(void);\n%}\n')
    o.append('D   [type = "parsec_data_collection_t*"]')
    o.append('P   [type = "parsec_data_collection_t*"]')
    for g in gn:
        o.append('%s  [type = int]' % g)
    o.append("")
    for ci, c in enumerate(p.classes):
        ln = [l.name for l in c.locals]
        o.append("%s(%s)%s" % (c.name, ", ".join(ln[i] for i in c.params), " [count_deps = on]" if c.count else ""))
        for l in c.locals:
            if l.kind == 'R':
                s = "  %s = %s .. %s" % (l.name, jdfgen.jdf_expr(l.lo, gn, ln), jdfgen.jdf_expr(l.hi, gn, ln))
                if l.st != ('c', 1):
                    s += " .. %s" % jdfgen.jdf_expr(l.st, gn, ln)
                o.append(s)
            else:
                o.append("  %s = %s" % (l.name, jdfgen.jdf_expr(l.e, gn, ln)))
        pa = [ln[i] for i in c.params[:3]] + ["0"] * (3 - len(c.params[:3]))
        o.append(": P(%d, %s)" % (ci, ", ".join(pa)))
        for f in c.flows:
            first = True
            for d in f.deps:
                s = "%-5s %s " % (jdfgen.MODE_JDF[f.mode], f.name) if first else "        "
                first = False
                s += "<- " if d.din else "-> "
                if d.guard is not None:
                    s += "%s ? " % jdfgen.jdf_expr(d.guard, gn, ln)
                s += jdfgen.jdf_target(p, c, d.then, gn, ln)
                if d.els is not None:
                    s += " : " + jdfgen.jdf_target(p, c, d.els, gn, ln)
                if f.mode == 'W' and d.din and d.then[0] == 'N':
                    s += "  [type = DEFAULT]"
                o.append(s)
        if c.prio is not None:
            o.append("; %s" % jdfgen.jdf_expr(c.prio, gn, ln))
        o.append("BODY\n{")
        o.append("    PTG_BODY_BEGIN(this_task);")
        for fi, f in enumerate(c.flows):
            if f.mode in ('R', 'B'):
                o.append("    PTG_READ(this_task, %d, %s);" % (fi, f.name))
        for fi, f in enumerate(c.flows):
            if f.mode in ('W', 'B'):
                o.append("    PTG_WRITE(this_task, %d, %s);" % (fi, f.name))
        o.append("    PTG_BODY_END(this_task);")
        o.append("}\nEND\n")
    o.append('extern "C" %{')
    o.append("const int ptg_case_ndata = %d;" % p.ndata)
    o.append("parsec_taskpool_t *ptgd_case_new(parsec_data_collection_t *D, parsec_data_collection_t *P)\n{")
    o.append("    parsec_%s_taskpool_t *tp = parsec_%s_new(%s);" % (name, name, ", ".join(["D", "P"] + [str(v) for v in p.gvals])))
    o.append("    parsec_arena_datatype_set_type(&tp->arenas_datatypes[PARSEC_%s_DEFAULT_ADT_IDX],\n"
             "                                   ptgd_elt_bytes(), PARSEC_ARENA_ALIGNMENT_SSE, ptg_rt_elt_type());" % name)
    o.append("    return &tp->super;\n}")
    o.append("void ptgd_case_free(parsec_taskpool_t *tp)\n{")
    o.append("    PARSEC_OBJ_DESTRUCT(&((parsec_%s_taskpool_t *)tp)->arenas_datatypes[PARSEC_%s_DEFAULT_ADT_IDX]);" % (name, name))
    o.append("    parsec_taskpool_free(tp);\n}\n%}")
    return "\n".join(o) + "\n"


# ----------------------------------------------------------------------- programs
def _dep_in(t, g=None, els=None):
    return Dep(True, g, t, els)


def _dep_out(t, g=None):
    return Dep(False, g, t, None)


def f8_program(width=2, second=None):
    """TA(0) with two RW flows: A -> TB(1 .. width), B -> TC(second) (default: the last one).
    Under `cyc` placement on width+1 ranks: output A goes to ranks {1..width}, output B to {second}."""
    second = width if second is None else second
    p = Prog()
    p.gvals = []
    p.ndata = 4
    a = Cls("TA")
    a.locals = [Local("k", 'R', C(0), C(0), C(1))]
    a.params = [0]
    a.flows = [Flow("A", 'B', [_dep_in(('M', [C(0)])), _dep_out(('T', 1, 0, [('S', C(1), C(width), C(1))])), _dep_out(('M', [C(2)]))]),
               Flow("B", 'B', [_dep_in(('M', [C(1)])), _dep_out(('T', 2, 0, [('E', C(second))])), _dep_out(('M', [C(3)]))])]
    b = Cls("TB")
    b.locals = [Local("k", 'R', C(1), C(width), C(1))]
    b.params = [0]
    b.flows = [Flow("A", 'R', [_dep_in(('T', 0, 0, [('E', C(0))]))])]
    c = Cls("TC")
    c.locals = [Local("k", 'R', C(second), C(second), C(1))]
    c.params = [0]
    c.flows = [Flow("B", 'R', [_dep_in(('T', 0, 1, [('E', C(0))]))])]
    p.classes = [a, b, c]
    p.template = "f8"
    assert jdfgen.wf(p)
    return p


def overlap_program(n=4, wide=3):
    """directed family: producers on EVERY rank whose outputs have overlapping destination rank sets that are NOT in the
    relay-lacks-output class (under `bc.1.N.1.1` placement an instance runs on rank  second parameter mod N):
      TA(k, k)  A -> TB(k, k+1)            B -> TC(k, k+1 .. k+2)      sets {k+1} and {k+1, k+2}: the later output reaches a
                                                                        new rank behind one that an earlier output served
      TE(k, k)  C -> TD(k, k .. k+wide)    one output to the producer's own rank and the `wide` next ones: relays of a
                                                                        binomial / chain tree see the root among the consumers
    every consumer only reads; every relay consumes what it forwards"""
    p = Prog()
    p.gvals = []
    p.ndata = 3 * n

    def cls(name, lo2, hi2, flows):
        c = Cls(name)
        c.locals = [Local("k", 'R', C(0), C(n - 1), C(1)), Local("j", 'R', lo2, hi2, C(1))]
        c.params = [0, 1]
        c.flows = flows
        return c
    k = L(0)
    kk = [('E', k), ('E', k)]
    ta = cls("TA", k, k, [
        Flow("A", 'B', [_dep_in(('M', [k])), _dep_out(('T', 2, 0, [('E', k), ('E', B("add", k, C(1)))]))]),
        Flow("B", 'B', [_dep_in(('M', [B("add", k, C(n))])),
                        _dep_out(('T', 3, 0, [('E', k), ('S', B("add", k, C(1)), B("add", k, C(2)), C(1))]))])])
    te = cls("TE", k, k, [
        Flow("C", 'B', [_dep_in(('M', [B("add", k, C(2 * n))])),
                        _dep_out(('T', 4, 0, [('E', k), ('S', k, B("add", k, C(wide)), C(1))]))])])
    tb = cls("TB", B("add", k, C(1)), B("add", k, C(1)), [Flow("A", 'R', [_dep_in(('T', 0, 0, kk))])])
    tc = cls("TC", B("add", k, C(1)), B("add", k, C(2)), [Flow("B", 'R', [_dep_in(('T', 0, 1, kk))])])
    td = cls("TD", k, B("add", k, C(wide)), [Flow("C", 'R', [_dep_in(('T', 1, 0, kk))])])
    p.classes = [ta, te, tb, tc, td]
    p.template = "overlap"
    why = []
    assert jdfgen.wf(p, why), why
    assert mem_private(p) and not value_hazards(p)
    return p


def wbforms_program(T=2, K=3):
    """directed family: chains S(k, m), k = 0 .. K, that start in place on D(a + m), hand the copy from step to step
    (under `bc.N.1.1.1` / `cyc` placement step k runs on rank k mod N: the tile travels through every rank) and whose
    LAST step copies it back into a fresh element D(b + m), the final write-back being spelled in every form:
      TA   -> (k < K) ? A TA(k+1, m) : D(b + m)             ternary, the element on the FALSE side
      TB   -> (!(k < K)) ? D(b + m) : A TB(k+1, m)          ternary, the element on the TRUE side
      TC   -> (k < K) ? A TC(k+1, m)   -> (!(k < K)) ? D(b + m)      two binary guards
      TD   -> A TE(k, m)  -> D(b + ..)                      unconditional (every instance; the consumer TE only reads)
           -> (k % 2 == 0) ? D(b' + ..)                     and one more under a binary guard true and false over k
    every guard is true on some instances and false on others; the inputs use the ternary form as well"""
    p = Prog()
    p.gvals = []
    k, m = L(0), L(1)
    lt = B("lt", k, C(K))
    first = B("eq", k, C(0))
    base = [0]

    def block(n):
        b = base[0]
        base[0] += n
        return b

    def cls(name, flows):
        c = Cls(name)
        c.locals = [Local("k", 'R', C(0), C(K), C(1)), Local("m", 'R', C(0), C(T - 1), C(1))]
        c.params = [0, 1]
        c.flows = flows
        return c

    def elt(b):
        return ('M', [jdfgen.simp(B("add", C(b), m))])

    def elt2(b):
        return ('M', [jdfgen.simp(B("add", C(b), B("add", B("mul", k, C(T)), m)))])

    def chain_in(ci, a):
        return Dep(True, first, elt(a), ('T', ci, 0, [('E', B("sub", k, C(1))), ('E', m)]))

    def nxt(ci):
        return ('T', ci, 0, [('E', B("add", k, C(1))), ('E', m)])
    ta = cls("TA", [Flow("A", 'B', [chain_in(0, block(T)), Dep(False, lt, nxt(0), elt(block(T)))])])
    tb = cls("TB", [Flow("A", 'B', [chain_in(1, block(T)), Dep(False, jdfgen.N(lt), elt(block(T)), nxt(1))])])
    tc = cls("TC", [Flow("A", 'B', [chain_in(2, block(T)), Dep(False, lt, nxt(2)), Dep(False, jdfgen.N(lt), elt(block(T)))])])
    n2 = T * (K + 1)
    td = cls("TD", [Flow("A", 'B', [_dep_in(elt2(block(n2))), _dep_out(('T', 4, 0, [('E', k), ('E', m)])), _dep_out(elt2(block(n2))),
                                    Dep(False, B("eq", B("mod", k, C(2)), C(0)), elt2(block(n2)))])])
    te = cls("TE", [Flow("A", 'R', [_dep_in(('T', 3, 0, [('E', k), ('E', m)]))])])
    p.classes = [ta, tb, tc, td, te]
    p.ndata = base[0]
    p.template = "wbforms"
    why = []
    assert jdfgen.wf(p, why), why
    assert mem_private(p) and not value_hazards(p) and not reads_new(p)
    return p


def _t_multiout(g):
    """S(k) with 2-3 output flows; flow j feeds T_j(k, 0..m_j-1): under most placements the destination
    rank sets of the outputs of one producer overlap without being equal (the relay-lacks-output class
    of chain/binomial collectives), and several outputs travel in one activation message"""
    r = g.r
    n = r.range(1, 3)
    s = g.new_class([(n, False)])
    nf = r.pick([2, 2, 3])
    for j in range(nf):
        m = r.range(1, 4)
        t = g.new_class([(n, False), (m, False)])
        sa = g.add_flow(s, r.pick(['B', 'B', 'W']))
        ta = g.add_flow(t, r.pick(['R', 'B']))
        g.connect((s, sa), (t, ta), [jdfgen.same(0), jdfgen.allof(lambda u, m=m: C(m))], [jdfgen.same(0)])
        if r.chance(1, 3):
            tx = g.add_flow(t, 'C')
            sx = None
            q = g.new_class([(n, False)]) if len(g.p.classes) < 5 else None
            if q is not None:
                sx = g.add_flow(q, 'C')
                g.connect((t, tx), (q, sx), [jdfgen.same(0)], [jdfgen.same(0), jdfgen.allof(lambda u, m=m: C(m))])
                g.add_flow(q, 'B')


jdfgen._t_multiout = _t_multiout
DIST_TEMPLATES = ("chain", "bcast_gather", "diamond", "split_merge", "branch", "pipeline2d", "fan", "tri", "mixed", "multiout")


def gen_dist_program(rng, template=None, max_inst=60):
    """a well-formed program fit for several ranks: private memory references, no read of a NEW tile"""
    for _ in range(60):
        t = template or rng.pick(DIST_TEMPLATES)
        p = jdfgen.gen_program(rng, t, max_inst=max_inst)
        if p.template.endswith("fallback") and t != "chain":
            continue
        if not make_value_safe(p) or not jdfgen.wf(p) or reads_new(p) or not mem_private(p):
            continue
        if any(len(c.params) > 3 for c in p.classes) or any(len(c.flows) > 8 for c in p.classes):
            continue
        return p
    while True:
        p = jdfgen.gen_program(rng, "chain", max_inst=max_inst, rich=False)
        if make_value_safe(p) and not reads_new(p) and mem_private(p):
            return p


if __name__ == "__main__":
    sys.path.insert(0, __file__.rsplit("/", 2)[0] + "/lib")
    from vcheck import Rng
    if len(sys.argv) > 1 and sys.argv[1] == "f8":
        p = f8_program()
    else:
        seed = int(sys.argv[1]) if len(sys.argv) > 1 else 1
        p = gen_dist_program(Rng(seed), sys.argv[2] if len(sys.argv) > 2 else None)
    sys.stdout.write(to_jdf_dist(p))
    sys.stderr.write(jdfgen.to_case(p) + "\n")
    sys.stderr.write("%s %s\n" % (p.template, jdfgen.stats(p)))
