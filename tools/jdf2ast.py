#!/usr/bin/env python3
"""tools/jdf2ast.py — translate the small JDF files of parsec/data_dist/matrix (apply.jdf,
reduce.jdf, reduce_col.jdf, reduce_row.jdf) and the argument binding done by their C wrappers
(apply_wrapper.c, reduce_wrapper.c) into Gallina definitions (coq/theories/Gen/Gen_ops.v).

The check C22 runs it on every run, on the CURRENT text of the repository, so that the theorems
of Properties_C22.v are re-checked against what the files say now.  It parses exactly the subset
of the JDF language these files use and REFUSES anything else (exit status 1 = the obligation
"the model is the code" is broken):

  globals        name [ type = T  hidden = on  default = E  aligned = x ]
  task class     name(p, q…) [props]   locals `v = lo .. hi` (step 1) in header order,
                 `: coll(args)`, flows READ/RW/WRITE name with `<-`/`->` dependencies
                 `[guard ?] target [: target] [ [props] ]`, target = coll(args) | FLOW class(args) | NEW | NULL,
                 BODY … END (opaque: the identifiers are listed, a call of a global of an operator type is decoded)
  expressions    integers, identifiers, X->field, ( ), unary ! -, * / % + - << >> < <= > >= == != & | && ||, ?:,
                 (int) casts, and the idiom (int)ceil(log(E) / log(2.0))

Output conventions (see coq/theories/Ops/OpsBase.v): one record <jdf>_G of the integer inputs
(int globals without default, and X_field for every `X->field` of a pointer global), hidden
globals with a default become functions of G, every class C gives <jdf>_<C>_space, _place,
_in_<flow>, _out_<flow>, _opcall, _body and a value <jdf>_<C>_class : gclass.
usage: jdf2ast.py --repo /repo --out coq/theories/Gen/Gen_ops.v
"""
import argparse
import os
import re
import sys


class Refuse(Exception):
    pass


# ------------------------------------------------------------------ tokens
TOK = re.compile(r"""
    (?P<ws>\s+)
  | (?P<num>\d+\.\d+|\d+)
  | (?P<id>[A-Za-z_][A-Za-z0-9_]*)
  | (?P<str>"(?:[^"\\]|\\.)*")
  | (?P<op>->|<-|\.\.|<<|>>|<=|>=|==|!=|&&|\|\||[-+*/%<>!&|?:(),\[\]=;{}.])
""", re.X)


def strip_comments(txt):
    txt = re.sub(r"/\*.*?\*/", lambda m: re.sub(r"[^\n]", " ", m.group(0)), txt, flags=re.S)
    txt = re.sub(r"//[^\n]*", "", txt)
    return txt


def tokenize(txt):
    out, i = [], 0
    while i < len(txt):
        m = TOK.match(txt, i)
        if not m:
            raise Refuse("cannot tokenize at: %r" % txt[i:i + 30])
        i = m.end()
        if m.lastgroup == "ws":
            continue
        out.append((m.lastgroup, m.group(0)))
    return out


# -------------------------------------------------------------- expressions
BINPREC = [("||",), ("&&",), ("|",), ("&",), ("==", "!="), ("<", "<=", ">", ">="), ("<<", ">>"), ("+", "-"), ("*", "/", "%")]
BINFN = {"||": "c_lor", "&&": "c_land", "|": "c_bor", "&": "c_band", "==": "c_eq", "!=": "c_ne", "<": "c_lt", "<=": "c_le",
         ">": "c_gt", ">=": "c_ge", "<<": "c_shl", ">>": "c_shr", "/": "c_div", "%": "c_mod"}


class P:
    """recursive descent over a token list; expressions become tuples
       ('n', int) ('v', name) ('f', ptr, field) ('b', op, a, b) ('u', op, a) ('t', c, a, b) ('clog2', a)"""

    def __init__(self, toks):
        self.t, self.i = toks, 0

    def peek(self, k=0):
        return self.t[self.i + k][1] if self.i + k < len(self.t) else None

    def kind(self, k=0):
        return self.t[self.i + k][0] if self.i + k < len(self.t) else None

    def eat(self, s=None):
        if self.i >= len(self.t):
            raise Refuse("unexpected end, wanted %r" % s)
        k, v = self.t[self.i]
        if s is not None and v != s:
            raise Refuse("expected %r, found %r (token %d)" % (s, v, self.i))
        self.i += 1
        return v

    def expr(self):
        c = self.binary(0)
        if self.peek() == "?":
            self.eat("?")
            a = self.expr()
            self.eat(":")
            b = self.expr()
            return ("t", c, a, b)
        return c

    def binary(self, lvl):
        if lvl == len(BINPREC):
            return self.unary()
        a = self.binary(lvl + 1)
        while self.peek() in BINPREC[lvl] and not (self.peek() == "<" and False):
            op = self.eat()
            b = self.binary(lvl + 1)
            a = ("b", op, a, b)
        return a

    def unary(self):
        if self.peek() == "!":
            self.eat()
            return ("u", "!", self.unary())
        if self.peek() == "-":
            self.eat()
            return ("u", "-", self.unary())
        if self.peek() == "(" and self.peek(1) == "int" and self.peek(2) == ")":
            self.i += 3
            return self.unary()
        return self.primary()

    def primary(self):
        k, v = self.kind(), self.peek()
        if k == "num":
            self.eat()
            if "." in v:
                raise Refuse("floating constant outside the ceil(log()/log(2.0)) idiom: " + v)
            return ("n", int(v))
        if v == "(":
            self.eat("(")
            e = self.expr()
            self.eat(")")
            return e
        if k == "id":
            if v == "ceil" and self.peek(1) == "(":
                # ceil( log(E) / log(2.0) )
                self.eat()
                self.eat("(")
                self.eat("log")
                self.eat("(")
                e = self.expr()
                self.eat(")")
                self.eat("/")
                self.eat("log")
                self.eat("(")
                two = self.eat()
                if two not in ("2.0", "2"):
                    raise Refuse("ceil(log(x)/log(%s)): only base 2 is translated" % two)
                self.eat(")")
                self.eat(")")
                return ("clog2", e)
            self.eat()
            if self.peek() == "->":
                self.eat("->")
                if self.kind() != "id":
                    raise Refuse("field name expected after %s->" % v)
                f = self.eat()
                return ("f", v, f)
            if self.peek() == "(":
                raise Refuse("function call in an expression: %s(...)" % v)
            return ("v", v)
        raise Refuse("expression expected at %r" % (v,))


def parse_expr_text(s):
    p = P(tokenize(s))
    e = p.expr()
    if p.i != len(p.t):
        raise Refuse("trailing tokens in expression %r" % s)
    return e


# ----------------------------------------------------------------- the JDF
class Global:
    def __init__(self, name, props):
        self.name, self.props = name, props


class Dep:
    def __init__(self, is_in, guard, then, els):
        self.is_in, self.guard, self.then, self.els = is_in, guard, then, els


class Flow:
    def __init__(self, mode, name):
        self.mode, self.name, self.deps = mode, name, []


class Cls:
    def __init__(self, name, params):
        self.name, self.params = name, params
        self.locals, self.place, self.flows, self.body = [], None, [], ""


MODES = ("READ", "RW", "WRITE", "CTL")


def split_prologue(txt):
    """remove `extern "C" %{ … %}` blocks and %option lines"""
    txt = re.sub(r'extern\s+"C"\s+%\{.*?%\}', "", txt, flags=re.S)
    txt = re.sub(r"^\s*%option[^\n]*$", "", txt, flags=re.M)
    return txt


def cut_bodies(txt):
    """replace every BODY … END by the token BODY <k>; return text and bodies"""
    bodies = []

    def rep(m):
        bodies.append(m.group(1))
        return " BODY %d " % (len(bodies) - 1)
    txt2 = re.sub(r"\bBODY\b(.*?)^\s*END\b", rep, txt, flags=re.S | re.M)
    if re.search(r"\bEND\b", txt2):
        raise Refuse("unmatched END")
    return txt2, bodies


def parse_props(p):
    """[ k = v  k = v … ] -> dict of raw strings; values: identifier, number, string, or on/off"""
    d = {}
    p.eat("[")
    while p.peek() != "]":
        k = p.eat()
        p.eat("=")
        kind, v = p.kind(), p.eat()
        if kind == "str":
            v = v[1:-1]
        d[k] = v
    p.eat("]")
    return d


def parse_target(p):
    """coll(args) | FLOW class(args) | NEW | NULL"""
    if p.kind() != "id":
        raise Refuse("dependency target expected at %r" % p.peek())
    a = p.eat()
    if a == "NEW":
        return ("new",)
    if a == "NULL":
        return ("null",)
    if p.peek() == "(":
        return ("data", a, parse_args(p))
    if p.kind() == "id":
        c = p.eat()
        return ("task", c, a, parse_args(p))
    raise Refuse("dependency target %s: neither coll(args) nor FLOW class(args)" % a)


def parse_args(p):
    p.eat("(")
    args = []
    if p.peek() != ")":
        while True:
            args.append(p.expr())
            if p.peek() == "..":
                raise Refuse("range in the arguments of a dependency target")
            if p.peek() == ",":
                p.eat(",")
                continue
            break
    p.eat(")")
    return args


def dep_has_guard(p):
    """a '?' at parenthesis depth 0 before the end of this dependency"""
    depth, k = 0, p.i
    while k < len(p.t):
        v = p.t[k][1]
        if v == "(":
            depth += 1
        elif v == ")":
            depth -= 1
        elif depth == 0:
            if v == "?":
                return True
            if v in ("<-", "->", "BODY", "[") or v in MODES:
                return False
        k += 1
    return False


def parse_jdf(path):
    raw = open(path).read()
    txt = strip_comments(split_prologue(raw))
    txt, bodies = cut_bodies(txt)
    p = P(tokenize(txt))
    globs, classes = [], []
    while p.i < len(p.t):
        if p.kind() != "id":
            raise Refuse("%s: name expected at %r" % (path, p.peek()))
        name = p.eat()
        if p.peek() == "[":
            globs.append(Global(name, parse_props(p)))
            continue
        if p.peek() != "(":
            # a global without properties would be accepted by ptgpp; these files have none
            raise Refuse("%s: global %s without properties" % (path, name))
        p.eat("(")
        params = []
        while p.peek() != ")":
            params.append(p.eat())
            if p.peek() == ",":
                p.eat(",")
        p.eat(")")
        c = Cls(name, params)
        if p.peek() == "[":
            parse_props(p)          # [profile = off]: no semantics
        # locals
        while p.kind() == "id" and p.peek(1) == "=" and p.peek() not in MODES:
            v = p.eat()
            p.eat("=")
            lo = p.expr()
            if p.peek() != "..":
                raise Refuse("%s.%s: derived local %s = expr (only ranges lo .. hi are translated)" % (path, name, v))
            p.eat("..")
            hi = p.expr()
            if p.peek() == "..":
                raise Refuse("%s.%s: range with a step" % (path, name))
            c.locals.append((v, lo, hi))
        if [l[0] for l in c.locals] != params:
            raise Refuse("%s.%s: locals %s are not the parameters %s in header order"
                         % (path, name, [l[0] for l in c.locals], params))
        p.eat(":")
        coll = p.eat()
        c.place = (coll, parse_args(p))
        while p.peek() in MODES:
            mode = p.eat()
            if mode == "CTL":
                raise Refuse("%s.%s: CTL flow" % (path, name))
            f = Flow(mode, p.eat())
            while p.peek() in ("<-", "->"):
                is_in = p.eat() == "<-"
                guard = None
                if dep_has_guard(p):
                    guard = p.binary(0)
                    p.eat("?")
                then = parse_target(p)
                els = None
                if p.peek() == ":":
                    if guard is None:
                        raise Refuse("%s.%s: ':' without a guard" % (path, name))
                    p.eat(":")
                    els = parse_target(p)
                if p.peek() == "[":
                    parse_props(p)  # [type = DEFAULT]: datatypes are not modelled
                f.deps.append(Dep(is_in, guard, then, els))
            c.flows.append(f)
        p.eat("BODY")
        c.body = bodies[int(p.eat())]
        if p.peek() == "BODY":
            raise Refuse("%s.%s: several BODYs" % (path, name))
        classes.append(c)
    return globs, classes


# ----------------------------------------------------- the wrappers (C text)
def parse_wrapper_call(ctext, fn_new, callee):
    """in function fn_new find `callee( a, b, … )`; return (params of fn_new as {name: kind}, [arg texts])"""
    ctext = strip_comments(ctext)
    m = re.search(r"\b%s\s*\(([^)]*)\)\s*\{" % re.escape(fn_new), ctext)
    if not m:
        raise Refuse("wrapper function %s not found" % fn_new)
    kinds = {}
    for prm in m.group(1).split(","):
        prm = prm.strip()
        mm = re.match(r"(.*?)([A-Za-z_][A-Za-z0-9_]*)$", prm)
        if not mm:
            raise Refuse("cannot read parameter %r of %s" % (prm, fn_new))
        ty, nm = mm.group(1).strip(), mm.group(2)
        if "parsec_tiled_matrix_t" in ty:
            kinds[nm] = "matrix"
        elif re.match(r"(const\s+)?(int|parsec_matrix_uplo_t)$", ty):
            kinds[nm] = "int"
        else:
            kinds[nm] = "opaque"
    body = ctext[m.end():]
    mc = re.search(r"\b%s\s*\(" % re.escape(callee), body)
    if not mc:
        raise Refuse("%s does not call %s" % (fn_new, callee))
    depth, k, cur, args = 1, mc.end(), "", []
    while depth > 0:
        ch = body[k]
        if ch == "(":
            depth += 1
        elif ch == ")":
            depth -= 1
            if depth == 0:
                break
        if ch == "," and depth == 1:
            args.append(cur.strip())
            cur = ""
        else:
            cur += ch
        k += 1
    if cur.strip():
        args.append(cur.strip())
    return kinds, args


# ------------------------------------------------------------------ printer
MD_FIELDS = {"mt": "md_mt", "nt": "md_nt", "lmt": "md_lmt", "lnt": "md_lnt"}
OPERATOR_TYPES = ("parsec_tiled_matrix_unary_op_t", "parsec_operator_t", "parsec_tiled_matrix_binary_op_t")


class Unit:
    """one JDF file"""

    def __init__(self, prefix, path, consts):
        self.prefix, self.path, self.consts = prefix, path, consts
        self.globs, self.classes = parse_jdf(path)
        self.ints, self.ptrs, self.hidden, self.operators = [], [], {}, []
        for g in self.globs:
            ty = g.props.get("type", "int")
            if "default" in g.props:
                if ty != "int":
                    raise Refuse("%s: hidden global %s of type %s" % (path, g.name, ty))
                self.hidden[g.name] = parse_expr_text(g.props["default"])
            elif ty == "int":
                self.ints.append(g.name)
            elif ty in OPERATOR_TYPES:
                self.operators.append(g.name)
            elif "*" in ty:
                self.ptrs.append(g.name)
            else:
                raise Refuse("%s: global %s of type %s" % (path, g.name, ty))
        # fields of pointer globals used anywhere
        self.fields = []
        for e in self.all_exprs():
            self.collect_fields(e)
        self.gfields = list(self.ints) + ["%s_%s" % pf for pf in self.fields]

    def all_exprs(self):
        for e in self.hidden.values():
            yield e
        for c in self.classes:
            for (_, lo, hi) in c.locals:
                yield lo
                yield hi
            for a in c.place[1]:
                yield a
            for f in c.flows:
                for d in f.deps:
                    if d.guard is not None:
                        yield d.guard
                    for t in (d.then, d.els):
                        if t is not None and t[0] in ("data", "task"):
                            for a in t[-1]:
                                yield a

    def collect_fields(self, e):
        if e[0] == "f":
            if e[1] not in self.ptrs:
                raise Refuse("%s: %s->%s: %s is not a pointer global" % (self.path, e[1], e[2], e[1]))
            if (e[1], e[2]) not in self.fields:
                self.fields.append((e[1], e[2]))
        elif e[0] in ("b",):
            self.collect_fields(e[2])
            self.collect_fields(e[3])
        elif e[0] in ("u", "clog2"):
            self.collect_fields(e[-1])
        elif e[0] == "t":
            for x in e[1:]:
                self.collect_fields(x)

    def fld(self, name):
        return "%s_%s" % (self.prefix, name)

    def pe(self, e, lv):
        """Gallina text of an expression; lv = local names in scope"""
        k = e[0]
        if k == "n":
            return str(e[1])
        if k == "v":
            n = e[1]
            if n in lv:
                return n
            if n in self.ints:
                return "(%s G)" % self.fld(n)
            if n in self.hidden:
                return "(%s G)" % self.fld(n)
            if n in self.consts:
                return str(self.consts[n])
            raise Refuse("%s: unknown identifier %s in an expression" % (self.path, n))
        if k == "f":
            return "(%s G)" % self.fld("%s_%s" % (e[1], e[2]))
        if k == "u":
            return "(c_not %s)" % self.pe(e[2], lv) if e[1] == "!" else "(- %s)" % self.pe(e[2], lv)
        if k == "clog2":
            return "(c_clog2 %s)" % self.pe(e[1], lv)
        if k == "t":
            return "(c_tern %s %s %s)" % tuple(self.pe(x, lv) for x in e[1:])
        if k == "b":
            a, b = self.pe(e[2], lv), self.pe(e[3], lv)
            if e[1] in ("+", "-", "*"):
                return "(%s %s %s)" % (a, e[1], b)
            return "(%s %s %s)" % (BINFN[e[1]], a, b)
        raise Refuse("bad expression node %r" % (e,))

    def pt(self, t, lv):
        if t[0] == "new":
            return "RNew"
        if t[0] == "null":
            return "RNull"
        if t[0] == "data":
            if t[1] not in self.ptrs:
                raise Refuse("%s: %s(...) is not a collection global" % (self.path, t[1]))
            return '(RData "%s" [%s])' % (t[1], "; ".join(self.pe(a, lv) for a in t[2]))
        cls = [c for c in self.classes if c.name == t[1]]
        if not cls:
            raise Refuse("%s: dependency on unknown class %s" % (self.path, t[1]))
        if t[2] not in [f.name for f in cls[0].flows]:
            raise Refuse("%s: class %s has no flow %s" % (self.path, t[1], t[2]))
        if len(t[3]) != len(cls[0].params):
            raise Refuse("%s: %s(...) called with %d arguments" % (self.path, t[1], len(t[3])))
        return '(RTask "%s" "%s" [%s])' % (t[1], t[2], "; ".join(self.pe(a, lv) for a in t[3]))

    def pdeps(self, deps, lv):
        out = []
        for d in deps:
            g = "1" if d.guard is None else self.pe(d.guard, lv)
            e = "None" if d.els is None else "(Some %s)" % self.pt(d.els, lv)
            out.append("{| d_guard := %s; d_then := %s; d_else := %s |}" % (g, self.pt(d.then, lv), e))
        return "[" + ";\n     ".join(out) + "]"

    def body_info(self, c):
        ids = []
        for m in re.finditer(r'"(?:[^"\\]|\\.)*"|[A-Za-z_][A-Za-z0-9_]*', strip_comments(c.body)):
            s = m.group(0)
            if not s.startswith('"') and s not in ids:
                ids.append(s)
        call = None
        for opn in self.operators:
            m = re.search(r"\b%s\s*\(" % re.escape(opn), strip_comments(c.body))
            if m:
                depth, k, cur, args = 1, m.end(), "", []
                body = strip_comments(c.body)
                while depth > 0:
                    ch = body[k]
                    if ch == "(":
                        depth += 1
                    elif ch == ")":
                        depth -= 1
                        if depth == 0:
                            break
                    if ch == "," and depth == 1:
                        args.append(cur.strip())
                        cur = ""
                    else:
                        cur += ch
                    k += 1
                args.append(cur.strip())
                ints = []
                for a in args:
                    try:
                        e = parse_expr_text(a)
                        ints.append(self.pe(e, c.params))
                    except Refuse:
                        # es, the descriptor, the tile pointer, op_args: not integers, not modelled
                        continue
                call = ints
        return ids, call

    def emit(self, out):
        pr = self.prefix
        out.append("(* ---- %s *)" % os.path.basename(self.path))
        out.append("Record %s_G := { %s }." % (pr, "; ".join("%s : Z" % self.fld(f) for f in self.gfields) if self.gfields else ""))
        # hidden globals in declaration order (a default may use earlier globals)
        for g in self.globs:
            if g.name in self.hidden:
                out.append("Definition %s (G : %s_G) : Z := %s." % (self.fld(g.name), pr, self.pe(self.hidden[g.name], [])))
        for c in self.classes:
            cn = "%s_%s" % (pr, c.name)
            ps = c.params
            # execution space: the loop nest of the generated code, outermost local first
            inner = "[[%s]]" % "; ".join(ps)
            for i in range(len(c.locals) - 1, -1, -1):
                v, lo, hi = c.locals[i]
                lv = ps[:i]
                inner = "flat_map (fun %s => %s)\n    (zrange %s %s)" % (v, inner, self.pe(lo, lv), self.pe(hi, lv))
            out.append("Definition %s_space (G : %s_G) : list (list Z) :=\n  %s." % (cn, pr, inner))
            args = " ".join(ps)
            out.append("Definition %s_place (G : %s_G) (%s : Z) : ref := %s." % (cn, pr, args, self.pt(("data",) + c.place, ps)))
            for f in c.flows:
                out.append("Definition %s_in_%s (G : %s_G) (%s : Z) : list dep :=\n    %s."
                           % (cn, f.name, pr, args, self.pdeps([d for d in f.deps if d.is_in], ps)))
                out.append("Definition %s_out_%s (G : %s_G) (%s : Z) : list dep :=\n    %s."
                           % (cn, f.name, pr, args, self.pdeps([d for d in f.deps if not d.is_in], ps)))
            ids, call = self.body_info(c)
            out.append("Definition %s_opcall (G : %s_G) (%s : Z) : option (list Z) := %s."
                       % (cn, pr, args, "None" if call is None else "Some [%s]" % "; ".join(call)))
            out.append("Definition %s_body : list string := [%s]." % (cn, "; ".join('"%s"' % i for i in ids)))
            pat = "[%s]" % "; ".join(ps)

            def sel(kind):
                s = "fun f ps => match ps with %s => " % pat
                for f in c.flows:
                    s += 'if String.eqb f "%s" then %s_%s_%s G %s else ' % (f.name, cn, kind, f.name, args)
                return s + "[] | _ => [] end"
            out.append("Definition %s_class (G : %s_G) : gclass :=\n  {| g_name := \"%s\"; g_space := %s_space G;\n"
                       "     g_place := (fun ps => match ps with %s => %s_place G %s | _ => RNull end);\n"
                       "     g_flows := [%s];\n     g_in := (%s);\n     g_out := (%s);\n"
                       "     g_opcall := (fun ps => match ps with %s => %s_opcall G %s | _ => None end);\n"
                       "     g_body := %s_body |}."
                       % (cn, pr, c.name, cn, pat, cn, args, "; ".join('"%s"' % f.name for f in c.flows),
                          sel("in"), sel("out"), pat, cn, args, cn))
        out.append("Definition %s_classes (G : %s_G) : list gclass := [%s]."
                   % (pr, pr, "; ".join("%s_%s_class G" % (pr, c.name) for c in self.classes)))
        out.append("")

    def emit_wrapper(self, out, cfile, fn_new, callee):
        """the binding of the JDF globals by the C wrapper: positional over the non-hidden globals"""
        kinds, args = parse_wrapper_call(open(cfile).read(), fn_new, callee)
        formal = [g.name for g in self.globs if g.name not in self.hidden]
        if len(args) != len(formal):
            raise Refuse("%s: %s passes %d arguments, the JDF has %d non-hidden globals" % (cfile, callee, len(args), len(formal)))
        bind = dict(zip(formal, args))
        mats = [n for n, k in kinds.items() if k == "matrix"]
        ints = [n for n, k in kinds.items() if k == "int"]
        vals = {}

        def cexpr(txt):
            """integer expression of the wrapper's own parameters"""
            e = parse_expr_text(txt)

            def go(e):
                if e[0] == "n":
                    return str(e[1])
                if e[0] == "v" and e[1] in ints:
                    return e[1]
                if e[0] == "f" and e[1] in mats and e[2] in MD_FIELDS:
                    return "(%s %s)" % (MD_FIELDS[e[2]], e[1])
                if e[0] == "b" and e[1] in ("+", "-", "*"):
                    return "(%s %s %s)" % (go(e[2]), e[1], go(e[3]))
                raise Refuse("%s: argument %r of %s is not translated" % (cfile, txt, callee))
            return go(e)
        for g in self.ints:
            vals[self.fld(g)] = cexpr(bind[g])
        for (ptr, f) in self.fields:
            a = bind[ptr].strip()
            if a not in mats:
                raise Refuse("%s: %s is bound to %r, not to a matrix parameter" % (cfile, ptr, a))
            if f not in MD_FIELDS:
                raise Refuse("%s: field %s->%s is not part of the modelled descriptor" % (cfile, ptr, f))
            vals[self.fld("%s_%s" % (ptr, f))] = "(%s %s)" % (MD_FIELDS[f], a)
        prm = " ".join(["(%s : Z)" % n for n in kinds if kinds[n] == "int"] + ["(%s : mdesc)" % n for n in kinds if kinds[n] == "matrix"])
        out.append("(* %s: %s(%s) *)" % (os.path.basename(cfile), callee, ", ".join(args)))
        out.append("Definition %s_New_G %s : %s_G :=\n  {| %s |}." % (self.prefix, prm, self.prefix,
                                                                   "; ".join("%s := %s" % (k, vals[k]) for k in [self.fld(f) for f in self.gfields])))
        out.append("")


def read_consts(repo):
    txt = open(os.path.join(repo, "parsec/data_dist/matrix/matrix.h")).read()
    consts = {}
    for n in ("PARSEC_MATRIX_UPPER", "PARSEC_MATRIX_LOWER", "PARSEC_MATRIX_FULL"):
        m = re.search(r"\b%s\s*=\s*(\d+)" % n, txt)
        if not m:
            raise Refuse("matrix.h: value of %s not found" % n)
        consts[n] = int(m.group(1))
    return consts


def main():
    ap = argparse.ArgumentParser()
    ap.add_argument("--repo", default="/repo")
    ap.add_argument("--out", required=True)
    a = ap.parse_args()
    d = os.path.join(a.repo, "parsec/data_dist/matrix")
    try:
        consts = read_consts(a.repo)
        out = ["(* GENERATED by tools/jdf2ast.py from parsec/data_dist/matrix/{apply,reduce,reduce_col,reduce_row}.jdf,",
               "   apply_wrapper.c and reduce_wrapper.c — do not edit; regenerated by every run of bin/check C22. *)",
               "From Coq Require Import ZArith List String.", "From PV Require Import Ops.OpsBase.",
               "Import ListNotations.", "Local Open Scope string_scope.", "Local Open Scope Z_scope.", ""]
        out.append("Definition matrix_upper_v : Z := %d." % consts["PARSEC_MATRIX_UPPER"])
        out.append("Definition matrix_lower_v : Z := %d." % consts["PARSEC_MATRIX_LOWER"])
        out.append("Definition matrix_full_v : Z := %d." % consts["PARSEC_MATRIX_FULL"])
        out.append("")
        u = Unit("apply", os.path.join(d, "apply.jdf"), consts)
        u.emit(out)
        u.emit_wrapper(out, os.path.join(d, "apply_wrapper.c"), "parsec_apply_New", "parsec_apply_new")
        u = Unit("reduce", os.path.join(d, "reduce.jdf"), consts)
        u.emit(out)
        u = Unit("rcol", os.path.join(d, "reduce_col.jdf"), consts)
        u.emit(out)
        u.emit_wrapper(out, os.path.join(d, "reduce_wrapper.c"), "parsec_reduce_col_New", "parsec_reduce_col_new")
        u = Unit("rrow", os.path.join(d, "reduce_row.jdf"), consts)
        u.emit(out)
        u.emit_wrapper(out, os.path.join(d, "reduce_wrapper.c"), "parsec_reduce_row_New", "parsec_reduce_row_new")
    except Refuse as ex:
        sys.stderr.write("jdf2ast: REFUSED: %s\n" % ex)
        return 1
    txt = "\n".join(out) + "\n"
    old = open(a.out).read() if os.path.exists(a.out) else None
    if old != txt:
        os.makedirs(os.path.dirname(a.out), exist_ok=True)
        with open(a.out, "w") as f:
            f.write(txt)
    return 0


if __name__ == "__main__":
    sys.exit(main())
