"""tools/jdfgen.py — random PTG (JDF) programs for the PTG checks (C01, C23, later C02/C16/C24/C15/C22).

One Python structure (Prog), two printers:
    to_jdf(prog)   JDF text for parsec-ptgpp; BODYs call the hooks of harness/ptg_rt.h
    to_case(prog)  one line, the format ocaml/d_ptg.ml parses into the Coq AST (PTG/PTGDefs.v)
and a reference semantics in Python that mirrors PTGDefs.v (eval, enum, complete,
pred_edges/succ_edges with the bounds clipping of the generated iterate_successors, wf)
so that plugins can recompute the execution space from a case line (parse_case) and
the generator can reject programs that are not well formed.

python3 stdlib only.  Everything random comes from the Rng passed in (lib/vcheck.py Rng).

Expressions are tuples:  ('c', n) | ('g', i) | ('l', i) | ('b', op, a, b) | ('n', a) | ('t', c, a, b)
  op in  add sub mul div mod min max eq ne lt le gt ge and or      (C semantics, / and % truncate)
Targets:  ('T', class, flow, [arg…]) with arg ('E', e) | ('S', lo, hi, st);  ('M', [e…]);  ('N',) NEW;  ('Z',) NULL
"""
import sys

OPS = ("add", "sub", "mul", "div", "mod", "min", "max", "eq", "ne", "lt", "le", "gt", "ge", "and", "or")
CSYM = {"add": "+", "sub": "-", "mul": "*", "div": "/", "mod": "%", "eq": "==", "ne": "!=",
        "lt": "<", "le": "<=", "gt": ">", "ge": ">=", "and": "&&", "or": "||"}


# ----------------------------------------------------------------------- structure
class Local:
    def __init__(self, name, kind, lo=None, hi=None, st=None, e=None):
        self.name, self.kind, self.lo, self.hi, self.st, self.e = name, kind, lo, hi, st, e   # kind 'R' | 'V'


class Dep:
    def __init__(self, din, guard, then, els=None):
        self.din, self.guard, self.then, self.els = din, guard, then, els


class Flow:
    def __init__(self, name, mode, deps=None):
        self.name, self.mode, self.deps = name, mode, deps or []     # mode 'C' ctl | 'R' read | 'W' write | 'B' rw


class Cls:
    def __init__(self, name):
        self.name = name
        self.locals = []
        self.params = []      # header order: indices into locals
        self.place = [C(0)]
        self.flows = []
        self.prio = None
        self.count = False    # [count_deps = on]
        self.dims = []        # generator bookkeeping only


class Prog:
    def __init__(self):
        self.gvals = []
        self.classes = []
        self.ndata = 1
        self.template = ""


def C(n): return ('c', int(n))
def G(i): return ('g', i)
def L(i): return ('l', i)
def B(op, a, b): return ('b', op, a, b)
def N(a): return ('n', a)
def T(c, a, b): return ('t', c, a, b)


# --------------------------------------------------------------- reference semantics
def _quot(a, b):
    if b == 0:
        return 0            # Z.quot x 0 = 0; the generator never divides by zero
    q = abs(a) // abs(b)
    return q if (a >= 0) == (b >= 0) else -q


def _rem(a, b):
    if b == 0:
        return a            # Z.rem x 0 = x
    return a - b * _quot(a, b)


def evalop(o, x, y):
    if o == "add": return x + y
    if o == "sub": return x - y
    if o == "mul": return x * y
    if o == "div": return _quot(x, y)
    if o == "mod": return _rem(x, y)
    if o == "min": return x if x <= y else y
    if o == "max": return x if x >= y else y
    if o == "eq": return int(x == y)
    if o == "ne": return int(x != y)
    if o == "lt": return int(x < y)
    if o == "le": return int(x <= y)
    if o == "gt": return int(x > y)
    if o == "ge": return int(x >= y)
    if o == "and": return int(x != 0 and y != 0)
    if o == "or": return int(x != 0 or y != 0)
    raise ValueError(o)


def ev(Gv, Lv, e):
    k = e[0]
    if k == 'c': return e[1]
    if k == 'g': return Gv[e[1]] if e[1] < len(Gv) else 0
    if k == 'l': return Lv[e[1]] if e[1] < len(Lv) else 0
    if k == 'b': return evalop(e[1], ev(Gv, Lv, e[2]), ev(Gv, Lv, e[3]))
    if k == 'n': return int(ev(Gv, Lv, e[1]) == 0)
    if k == 't': return ev(Gv, Lv, e[2]) if ev(Gv, Lv, e[1]) != 0 else ev(Gv, Lv, e[3])
    raise ValueError(e)


def zrange(lo, hi, st):
    if st <= 0 or hi < lo:
        return []
    return list(range(lo, hi + 1, st))


def enum(Gv, ls, env=()):
    """environments (tuples of the locals' values) in enumeration order"""
    if not ls:
        return [tuple(env)]
    l, r = ls[0], ls[1:]
    env = list(env)
    if l.kind == 'R':
        out = []
        for v in zrange(ev(Gv, env, l.lo), ev(Gv, env, l.hi), ev(Gv, env, l.st)):
            out += enum(Gv, r, env + [v])
        return out
    return enum(Gv, r, env + [ev(Gv, env, l.e)])


def params_of(c, env):
    return tuple(env[i] if i < len(env) else 0 for i in c.params)


def complete(Gv, c, ps):
    if len(ps) != len(c.params):
        return None
    env = []
    for pos, l in enumerate(c.locals):
        j = c.params.index(pos) if pos in c.params else None
        if j is not None and l.kind == 'R':
            v = ps[j]
            if not (ev(Gv, env, l.lo) <= v <= ev(Gv, env, l.hi)):
                return None
            env.append(v)
        elif j is not None:
            env.append(ps[j])
        elif l.kind == 'V':
            env.append(ev(Gv, env, l.e))
        else:
            return None
    return tuple(env)


def instances(p):
    """execution space: list of (class index, params tuple) in the model's order"""
    out = []
    for ci, c in enumerate(p.classes):
        for env in enum(p.gvals, c.locals):
            out.append((ci, params_of(c, env)))
    return out


def dep_target(Gv, Lv, d):
    if d.guard is None or ev(Gv, Lv, d.guard) != 0:
        return d.then
    return d.els


def expand_args(Gv, Lv, args):
    res = [()]
    for a in args:
        vals = [ev(Gv, Lv, a[1])] if a[0] == 'E' else zrange(ev(Gv, Lv, a[1]), ev(Gv, Lv, a[2]), ev(Gv, Lv, a[3]))
        res = [r + (v,) for r in res for v in vals]
    return res


def target_tasks(Gv, Lv, fi, t):
    if t is None or t[0] != 'T':
        return []
    return [(fi, (t[1], ps), t[2]) for ps in expand_args(Gv, Lv, t[3])]


def pred_edges(p, t):
    ci, ps = t
    if ci >= len(p.classes):
        return []
    c = p.classes[ci]
    env = complete(p.gvals, c, ps)
    if env is None:
        return []
    out = []
    for fi, f in enumerate(c.flows):
        if f.mode == 'C':
            for d in f.deps:
                if d.din:
                    out += target_tasks(p.gvals, env, fi, dep_target(p.gvals, env, d))
        else:
            for d in f.deps:
                if d.din:
                    tg = dep_target(p.gvals, env, d)
                    if tg is not None:
                        out += target_tasks(p.gvals, env, fi, tg)
                        break
    return out


def in_bounds(p, t):
    return t[0] < len(p.classes) and complete(p.gvals, p.classes[t[0]], t[1]) is not None


def succ_edges(p, t):
    ci, ps = t
    if ci >= len(p.classes):
        return []
    c = p.classes[ci]
    env = complete(p.gvals, c, ps)
    if env is None:
        return []
    out = []
    for fi, f in enumerate(c.flows):
        for d in f.deps:
            if not d.din:
                out += [e for e in target_tasks(p.gvals, env, fi, dep_target(p.gvals, env, d)) if in_bounds(p, e[1])]
    return out


def wf(p, why=None, first_match=False):
    """mirror of PTGDefs.wf_program (first_match=True: of PTGDefs.wf_first_match, where the first input
    dependency of a data flow whose guard holds is the input and later ones may hold too);
    returns True/False (why: list receiving a reason)"""
    def no(msg):
        if why is not None:
            why.append(msg)
        return False
    ids = instances(p)
    idset = set(ids)
    for c in p.classes:
        if len(c.locals) > 20 or len(c.flows) > 20:
            return no("limits")
        for f in c.flows:
            if sum((2 if d.els else 1) for d in f.deps if d.din) > 10 or sum((2 if d.els else 1) for d in f.deps if not d.din) > 10:
                return no("dep limits")
        for i, l in enumerate(c.locals):
            if l.kind == 'R' and i not in c.params:
                return no("range not a parameter")
        if any(i >= len(c.locals) for i in c.params):
            return no("bad param")
    if len(idset) != len(ids):
        return no("duplicate instance ids")
    P, S = {}, {}
    for t in ids:
        P[t] = pred_edges(p, t)
        S[t] = succ_edges(p, t)
    for t in ids:
        c = p.classes[t[0]]
        env = complete(p.gvals, c, t[1])
        if env is None:
            return no("instance %s not rebuilt by complete" % (t,))
        for f in c.flows:
            if f.mode == 'C':
                for d in f.deps:
                    if d.din:
                        tg = dep_target(p.gvals, env, d)
                        if tg is not None and (tg[0] != 'T' or not target_tasks(p.gvals, env, 0, tg)):
                            return no("active CTL input without task in %s" % c.name)
            elif any(d.din for d in f.deps):
                na = sum(1 for d in f.deps if d.din and dep_target(p.gvals, env, d) is not None)
                if na < 1 or (na != 1 and not first_match):
                    return no("data flow %s of %s%s: %d active inputs" % (f.name, c.name, t[1], na))
        for e in P[t]:
            ft, q, fq = e
            if q not in idset:
                return no("pred %s of %s not an instance" % (q, t))
            if S[q].count((fq, t, ft)) != P[t].count(e):
                return no("edge %s -> %s: views differ" % (q, t))
        for e in S[t]:
            ft, s, fs = e
            if s not in idset:
                return no("succ %s of %s not an instance" % (s, t))
            if P[s].count((fs, t, ft)) != S[t].count(e):
                return no("edge %s -> %s: views differ (succ side)" % (t, s))
    for t in ids:
        pt = [e[1] for e in P[t]]
        stt = [e[1] for e in S[t]]
        for q in set(pt):
            if [e[1] for e in S[q]].count(t) != pt.count(q):
                return no("multiplicity of %s -> %s differs" % (q, t))
        for s in set(stt):
            if [e[1] for e in P[s]].count(t) != stt.count(s):
                return no("multiplicity of %s -> %s differs" % (t, s))
    # acyclic
    placed, todo = set(), list(ids)
    while todo:
        ready = [t for t in todo if all(e[1] in placed for e in P[t])]
        if not ready:
            return no("cycle")
        placed.update(ready)
        rs = set(ready)
        todo = [t for t in todo if t not in rs]
    return True


def stats(p):
    ids = instances(p)
    ne = sum(len(pred_edges(p, t)) for t in ids)
    return {"instances": len(ids), "edges": ne, "classes": len(p.classes)}


# ---------------------------------------------------------------------------- printers
def jdf_expr(e, gn, ln):
    k = e[0]
    if k == 'c':
        return str(e[1]) if e[1] >= 0 else "(0 - %d)" % (-e[1])
    if k == 'g':
        return gn[e[1]]
    if k == 'l':
        return ln[e[1]]
    if k == 'b':
        a, b = jdf_expr(e[2], gn, ln), jdf_expr(e[3], gn, ln)
        if e[1] == "min":
            return "((%s <= %s) ? %s : %s)" % (a, b, a, b)
        if e[1] == "max":
            return "((%s >= %s) ? %s : %s)" % (a, b, a, b)
        return "(%s %s %s)" % (a, CSYM[e[1]], b)
    if k == 'n':
        return "(! %s)" % jdf_expr(e[1], gn, ln)
    if k == 't':
        return "(%s ? %s : %s)" % (jdf_expr(e[1], gn, ln), jdf_expr(e[2], gn, ln), jdf_expr(e[3], gn, ln))
    raise ValueError(e)


def case_expr(e):
    k = e[0]
    if k in ('c', 'g', 'l'):
        return "%s %d" % (k, e[1])
    if k == 'b':
        return "b %s %s %s" % (e[1], case_expr(e[2]), case_expr(e[3]))
    if k == 'n':
        return "n %s" % case_expr(e[1])
    return "t %s %s %s" % (case_expr(e[1]), case_expr(e[2]), case_expr(e[3]))


MODE_JDF = {'C': "CTL", 'R': "READ", 'W': "WRITE", 'B': "RW"}


def gnames(p):
    return ["G%d" % i for i in range(len(p.gvals))]


def jdf_target(p, c, t, gn, ln):
    if t[0] == 'T':
        tc = p.classes[t[1]]
        args = []
        for a in t[3]:
            if a[0] == 'E':
                args.append(jdf_expr(a[1], gn, ln))
            else:
                s = "%s .. %s" % (jdf_expr(a[1], gn, ln), jdf_expr(a[2], gn, ln))
                if a[3] != ('c', 1):
                    s += " .. %s" % jdf_expr(a[3], gn, ln)
                args.append(s)
        return "%s %s(%s)" % (tc.flows[t[2]].name, tc.name, ", ".join(args))
    if t[0] == 'M':
        return "D(%s)" % ", ".join(jdf_expr(a, gn, ln) for a in t[1])
    return "NEW" if t[0] == 'N' else "NULL"


def to_jdf(p, name="ptgcase"):
    gn = gnames(p)
    o = []
    o.append('extern "C" %{\n#include "ptg_rt.h"\n%}\n')
    o.append('D   [type = "parsec_data_collection_t*"]')
    for g in gn:
        o.append('%s  [type = int]' % g)
    o.append("")
    for c in p.classes:
        ln = [l.name for l in c.locals]
        o.append("%s(%s)%s" % (c.name, ", ".join(ln[i] for i in c.params), " [count_deps = on]" if c.count else ""))
        for l in c.locals:
            if l.kind == 'R':
                s = "  %s = %s .. %s" % (l.name, jdf_expr(l.lo, gn, ln), jdf_expr(l.hi, gn, ln))
                if l.st != ('c', 1):
                    s += " .. %s" % jdf_expr(l.st, gn, ln)
                o.append(s)
            else:
                o.append("  %s = %s" % (l.name, jdf_expr(l.e, gn, ln)))
        o.append(": D(%s)" % ", ".join(jdf_expr(e, gn, ln) for e in c.place))
        for f in c.flows:
            first = True
            for d in f.deps:
                s = "%-5s %s " % (MODE_JDF[f.mode], f.name) if first else "        "
                first = False
                s += "<- " if d.din else "-> "
                if d.guard is not None:
                    s += "%s ? " % jdf_expr(d.guard, gn, ln)
                s += jdf_target(p, c, d.then, gn, ln)
                if d.els is not None:
                    s += " : " + jdf_target(p, c, d.els, gn, ln)
                if f.mode == 'W' and d.din and d.then[0] == 'N':
                    s += "  [type = DEFAULT]"
                o.append(s)
        if c.prio is not None:
            o.append("; %s" % jdf_expr(c.prio, gn, ln))
        o.append("BODY\n{")
        o.append("    PTG_BODY_BEGIN(this_task);")
        for fi, f in enumerate(c.flows):
            if f.mode in ('R', 'B'):
                o.append("    PTG_READ(this_task, %d, %s);" % (fi, f.name))
        for fi, f in enumerate(c.flows):
            if f.mode in ('W', 'B'):
                o.append("    PTG_WRITE(this_task, %d, %s);" % (fi, f.name))
        o.append("    PTG_BODY_END(this_task);")
        o.append("}\nEND\n")
    o.append('extern "C" %{')
    o.append("const int ptg_case_ndata = %d;" % p.ndata)
    o.append("parsec_taskpool_t *ptg_case_new(parsec_data_collection_t *D)\n{")
    o.append("    parsec_%s_taskpool_t *tp = parsec_%s_new(%s);" % (name, name, ", ".join(["D"] + [str(v) for v in p.gvals])))
    o.append("    parsec_arena_datatype_set_type(&tp->arenas_datatypes[PARSEC_%s_DEFAULT_ADT_IDX],\n"
             "                                   PTG_RT_ELT_BYTES, PARSEC_ARENA_ALIGNMENT_SSE, ptg_rt_elt_type());" % name)
    o.append("    return &tp->super;\n}")
    o.append("void ptg_case_free(parsec_taskpool_t *tp)\n{")
    o.append("    PARSEC_OBJ_DESTRUCT(&((parsec_%s_taskpool_t *)tp)->arenas_datatypes[PARSEC_%s_DEFAULT_ADT_IDX]);" % (name, name))
    o.append("    parsec_taskpool_free(tp);\n}\n%}")
    return "\n".join(o) + "\n"


def case_target(t):
    if t[0] == 'T':
        s = "T %d %d %d" % (t[1], t[2], len(t[3]))
        for a in t[3]:
            s += (" E " + case_expr(a[1])) if a[0] == 'E' else (" S %s %s %s" % (case_expr(a[1]), case_expr(a[2]), case_expr(a[3])))
        return s
    if t[0] == 'M':
        return "M %d%s" % (len(t[1]), "".join(" " + case_expr(a) for a in t[1]))
    return t[0]


def to_case(p):
    """one line; grammar in docs/PTG_NOTES.md"""
    o = ["P", str(p.ndata), str(len(p.gvals))] + [str(v) for v in p.gvals] + [str(len(p.classes))]
    for c in p.classes:
        o += ["C", c.name, str(len(c.locals))]
        for l in c.locals:
            if l.kind == 'R':
                o += ["R", l.name, case_expr(l.lo), case_expr(l.hi), case_expr(l.st)]
            else:
                o += ["V", l.name, case_expr(l.e)]
        o += [str(len(c.params))] + [str(i) for i in c.params]
        o += [str(len(c.place))] + [case_expr(e) for e in c.place]
        o += [str(len(c.flows))]
        for f in c.flows:
            o += ["F", f.name, f.mode, str(len(f.deps))]
            for d in f.deps:
                o += ["I" if d.din else "O"]
                o += ["0"] if d.guard is None else ["1", case_expr(d.guard)]
                o += [case_target(d.then)]
                o += ["0"] if d.els is None else ["1", case_target(d.els)]
        o += ["0"] if c.prio is None else ["1", case_expr(c.prio)]
        o += ["1" if c.count else "0"]
    return " ".join(o)


class _Tok:
    def __init__(self, s):
        self.t = s.split()
        self.i = 0

    def next(self):
        x = self.t[self.i]
        self.i += 1
        return x

    def int(self):
        return int(self.next())


def _p_expr(tk):
    k = tk.next()
    if k in ('c', 'g', 'l'):
        return (k, tk.int())
    if k == 'b':
        o = tk.next()
        a = _p_expr(tk)
        b = _p_expr(tk)
        return ('b', o, a, b)
    if k == 'n':
        return ('n', _p_expr(tk))
    if k == 't':
        c = _p_expr(tk)
        a = _p_expr(tk)
        b = _p_expr(tk)
        return ('t', c, a, b)
    raise ValueError("bad expr token " + k)


def _p_target(tk):
    k = tk.next()
    if k == 'T':
        c, f, n = tk.int(), tk.int(), tk.int()
        args = []
        for _ in range(n):
            a = tk.next()
            if a == 'E':
                args.append(('E', _p_expr(tk)))
            else:
                lo = _p_expr(tk)
                hi = _p_expr(tk)
                st = _p_expr(tk)
                args.append(('S', lo, hi, st))
        return ('T', c, f, args)
    if k == 'M':
        n = tk.int()
        return ('M', [_p_expr(tk) for _ in range(n)])
    return (k,)


def parse_case(line):
    tk = _Tok(line)
    assert tk.next() == "P"
    p = Prog()
    p.ndata = tk.int()
    p.gvals = [tk.int() for _ in range(tk.int())]
    for _ in range(tk.int()):
        assert tk.next() == "C"
        c = Cls(tk.next())
        for _ in range(tk.int()):
            k = tk.next()
            nm = tk.next()
            if k == 'R':
                lo = _p_expr(tk)
                hi = _p_expr(tk)
                st = _p_expr(tk)
                c.locals.append(Local(nm, 'R', lo, hi, st))
            else:
                c.locals.append(Local(nm, 'V', e=_p_expr(tk)))
        c.params = [tk.int() for _ in range(tk.int())]
        c.place = [_p_expr(tk) for _ in range(tk.int())]
        for _ in range(tk.int()):
            assert tk.next() == "F"
            f = Flow(tk.next(), tk.next())
            for _ in range(tk.int()):
                din = tk.next() == "I"
                g = _p_expr(tk) if tk.int() else None
                th = _p_target(tk)
                el = _p_target(tk) if tk.int() else None
                f.deps.append(Dep(din, g, th, el))
            c.flows.append(f)
        c.prio = _p_expr(tk) if tk.int() else None
        c.count = bool(tk.int())
        p.classes.append(c)
    return p


# ------------------------------------------------------------------------ generator
# Every class is built on a "frame": 1 to 3 dimensions; dimension d has a canonical
# coordinate u_d in [0, n_d) and the parameter value k_d = lo_d + st_d * u_d.  lo_d is an
# expression over globals/constants (so that other classes can name it), st_d a positive
# constant; n_d is a constant or (second dimension) depends on u_0: "tri" n = u_0 + 1.
# Edges between classes are built in canonical coordinates (families below) and
# translated to parameter expressions on both sides; the Python wf() decides whether
# the result is a valid program (rejection sampling protects against template slips).

def simp(e):
    """constant folding and identities, to keep the generated text readable"""
    k = e[0]
    if k == 'b':
        o, a, b = e[1], simp(e[2]), simp(e[3])
        if a[0] == 'c' and b[0] == 'c' and not (o in ("div", "mod") and b[1] == 0):
            return C(evalop(o, a[1], b[1]))
        if o == "add":
            if a == C(0): return b
            if b == C(0): return a
            if b[0] == 'c' and b[1] < 0: return ('b', "sub", a, C(-b[1]))
        if o == "sub" and b == C(0): return a
        if o == "sub" and b[0] == 'c' and b[1] < 0: return ('b', "add", a, C(-b[1]))
        if o == "mul":
            if a == C(1): return b
            if b == C(1): return a
            if a == C(0) or b == C(0): return C(0)
        if o == "div" and b == C(1): return a
        if o == "and":
            if a[0] == 'c' and a[1] != 0 and isbool(b): return b
            if b[0] == 'c' and b[1] != 0 and isbool(a): return a
            if (a[0] == 'c' and a[1] == 0) or (b[0] == 'c' and b[1] == 0): return C(0)
        return ('b', o, a, b)
    if k == 'n':
        return ('n', simp(e[1]))
    if k == 't':
        return ('t', simp(e[1]), simp(e[2]), simp(e[3]))
    return e


def isbool(e):
    return (e[0] == 'b' and e[1] in ("eq", "ne", "lt", "le", "gt", "ge", "and", "or")) or e[0] == 'n'


def U(i): return ('U', i)


def affine_U(e):
    """(i, d) when e is U(i) + d, else None"""
    if e[0] == 'U':
        return e[1], 0
    if e[0] == 'b' and e[1] in ("add", "sub") and e[2][0] == 'U' and e[3][0] == 'c':
        return e[2][1], (e[3][1] if e[1] == "add" else -e[3][1])
    return None


def subst_U(e, m):
    """replace ('U', i) by m[i]"""
    k = e[0]
    if k == 'U':
        return m[e[1]]
    if k == 'b':
        return ('b', e[1], subst_U(e[2], m), subst_U(e[3], m))
    if k == 'n':
        return ('n', subst_U(e[1], m))
    if k == 't':
        return ('t', subst_U(e[1], m), subst_U(e[2], m), subst_U(e[3], m))
    return e


def subst_locals(e, m):
    """replace ('l', i) by m[i]"""
    k = e[0]
    if k == 'l':
        return m[e[1]]
    if k == 'b':
        return ('b', e[1], subst_locals(e[2], m), subst_locals(e[3], m))
    if k == 'n':
        return ('n', subst_locals(e[1], m))
    if k == 't':
        return ('t', subst_locals(e[1], m), subst_locals(e[2], m), subst_locals(e[3], m))
    return e


def conj(gs):
    gs = [g for g in gs if g is not None]
    if not gs:
        return None
    r = gs[0]
    for g in gs[1:]:
        r = B("and", r, g)
    return r


class Dim:
    """one dimension of a frame"""
    def __init__(self, lo_g, lo_val, st, n, tri=False, pidx=None):
        self.lo_g = lo_g      # expression over globals/constants
        self.lo_val = lo_val  # its value
        self.st = st          # positive int
        self.n = n            # number of values (rectangular) — for tri: n of the outer dimension
        self.tri = tri        # n_d(u_0) = u_0 + 1
        self.pidx = pidx      # index of the parameter local in the class


class Gen:
    """draws one program"""
    def __init__(self, rng, max_inst=120, rich=True):
        self.r = rng
        self.p = Prog()
        self.max_inst = max_inst
        self.rich = rich
        self.names = iter(["TA", "TB", "TC", "TD", "TE", "TF"])
        self.data_next = 0

    # ---- globals and bounds
    def new_global(self, val):
        self.p.gvals.append(val)
        return len(self.p.gvals) - 1

    def lo_expr(self, val):
        """an expression over globals/constants whose value is val"""
        r = self.r
        k = r.below(5)
        if k <= 1 or not self.rich:
            return C(val)
        if k == 2:                                   # G - c
            c = r.range(0, 4)
            return B("sub", G(self.new_global(val + c)), C(c))
        if k == 3 and val % 2 == 0 and val != 0:     # G * 2 or G * -2
            return B("mul", G(self.new_global(val // 2)), C(2))
        g = self.new_global(r.range(1, 6))
        return B("sub", B("add", C(val), G(g)), G(g))

    def count_expr(self, n):
        """expression with value n-1 (for hi = lo + st*(n-1)) as (N - 1) with N a global, or a constant"""
        if self.r.chance(1, 2) and self.rich:
            return B("sub", G(self.new_global(n)), C(1))
        return C(n - 1)

    # ---- classes
    def new_class(self, dims_spec):
        """dims_spec: list of (n, tri) ; returns class index.  Creates locals (ranges, sometimes
        derived locals holding the lower bound or an unused value), random steps and lower bounds."""
        r = self.r
        c = Cls(next(self.names))
        ci = len(self.p.classes)
        self.p.classes.append(c)
        names = ["k", "m", "n"]
        for d, (n, tri) in enumerate(dims_spec):
            lo_val = r.pick([0, 0, 0, 1, -1, -2, -3, 2, 5]) if self.rich else 0
            st = r.pick([1, 1, 1, 1, 2, 3]) if self.rich else 1
            lo_g = self.lo_expr(lo_val)
            lo_here = lo_g
            if self.rich and r.chance(1, 4):          # derived local holding the lower bound
                c.locals.append(Local("b%d" % d, 'V', e=lo_g))
                lo_here = L(len(c.locals) - 1)
            if tri:
                # n_d = u_0 + 1 values: hi = lo + st * u_0, u_0 = (k_0 - lo_0) / st_0
                d0 = c.dims[0]
                u0 = simp(B("div", B("sub", L(d0.pidx), d0.lo_g), C(d0.st)))
                hi = simp(B("add", lo_here, B("mul", C(st), u0)))
            else:
                hi = simp(B("add", lo_here, B("mul", C(st), self.count_expr(n))))
            if self.rich and r.chance(1, 6) and not tri:
                hi = B("min", hi, B("add", hi, C(r.range(0, 3))))      # min/max in a bound
            st_e = C(st)
            if self.rich and st > 1 and r.chance(1, 3):
                st_e = G(self.new_global(st))                          # step given by a global
            c.locals.append(Local(names[d], 'R', lo_here, hi, st_e))
            pidx = len(c.locals) - 1
            c.dims.append(Dim(lo_g, lo_val, st, n, tri, pidx))
            if self.rich and r.chance(1, 5):          # an unused derived local in the middle of the nest
                c.locals.append(Local("w%d" % d, 'V', e=simp(B("add", B("mul", L(pidx), C(2)), C(1)))))
        c.params = [d.pidx for d in c.dims]
        if self.rich and r.chance(1, 3):
            c.count = True
        if self.rich and r.chance(1, 2):
            c.prio = self.prio_expr(c)
        return ci

    def prio_expr(self, c):
        r = self.r
        e = L(c.dims[0].pidx)
        k = r.below(4)
        if k == 0: return e
        if k == 1: return B("sub", C(10), e)
        if k == 2 and len(c.dims) > 1: return B("add", B("mul", e, C(3)), L(c.dims[1].pidx))
        return B("mod", B("mul", e, C(7)), C(5))

    # canonical coordinate of dimension d of class ci, as an expression over ITS locals
    def canon(self, ci, d):
        dm = self.p.classes[ci].dims[d]
        return simp(B("div", B("sub", L(dm.pidx), dm.lo_g), C(dm.st)))

    # parameter value of dimension d of class ci for canonical expression u (over someone else's locals)
    def actual(self, ci, d, u):
        dm = self.p.classes[ci].dims[d]
        return simp(B("add", dm.lo_g, B("mul", C(dm.st), u)))

    def nvals(self, ci, d, u0=None):
        """expression (over the caller's locals) of the number of values of dimension d; u0 = canonical of dim 0"""
        dm = self.p.classes[ci].dims[d]
        if dm.tri:
            return simp(B("add", u0, C(1)))
        return C(dm.n)

    def add_flow(self, ci, mode, name=None):
        c = self.p.classes[ci]
        nm = name or ("X" if mode == 'C' else "A") + ("" if not c.flows else str(len(c.flows)))
        c.flows.append(Flow(nm, mode))
        return len(c.flows) - 1

    # ---- edges.  src/dst: (ci, fi).  fwd: list (per dst dimension) of either ('u', expr over SRC canonical
    # coordinates) or ('r', lo_canon, hi_canon) range;  bwd likewise for the src dimensions in terms of DST
    # canonical coordinates.  gs / gd: extra guards in canonical coordinates of the own side.
    # bound_guards: add the "target exists" tests explicitly (else rely on the clipping of the runtime on the
    # output side; the input side always needs them).
    def connect(self, src, dst, fwd, bwd, gs=None, gd=None, out_bounds=True, else_in=None, else_out=None):
        (sc, sf), (dc, df) = src, dst
        S, Dd = self.p.classes[sc], self.p.classes[dc]

        def side(me_ci, other_ci, spec, want_bounds):
            me, other = self.p.classes[me_ci], self.p.classes[other_ci]
            mu = [U(i) for i in range(len(me.dims))]
            canon = [self.canon(me_ci, i) for i in range(len(me.dims))]
            args, guards = [], []
            u0_other = None
            for i, sp in enumerate(spec):
                dm = other.dims[i]
                if sp[0] == 'u':
                    u = simp(sp[1](mu))
                    af = affine_U(u)
                    # same lower bound and step on both sides: stay in parameter space (k + d*st)
                    if af is not None and me.dims[af[0]].lo_g == dm.lo_g and me.dims[af[0]].st == dm.st:
                        args.append(('E', simp(B("add", L(me.dims[af[0]].pidx), C(af[1] * dm.st)))))
                    else:
                        args.append(('E', self.actual(other_ci, i, subst_U(u, canon))))
                    if i == 0:
                        u0_other = u
                    if want_bounds:
                        ur = subst_U(u, canon)
                        need_lo, need_hi = True, True
                        if af is not None and not me.dims[af[0]].tri:
                            # my own coordinate lies in [0, n_me): only the violated side needs a test
                            need_lo = af[1] < 0
                            need_hi = dm.tri or (af[1] + me.dims[af[0]].n - 1 > dm.n - 1)
                        elif u[0] == 'c':
                            need_lo = u[1] < 0
                            need_hi = dm.tri or u[1] > dm.n - 1
                        if need_lo:
                            guards.append(simp(B("ge", ur, C(0))))
                        if need_hi:
                            nv = self.nvals(other_ci, i, subst_U(u0_other, canon) if u0_other is not None else None)
                            guards.append(simp(B("lt", ur, nv)))
                else:
                    lo_u, hi_u = subst_U(simp(sp[1](mu)), canon), subst_U(simp(sp[2](mu)), canon)
                    args.append(('S', self.actual(other_ci, i, lo_u), self.actual(other_ci, i, hi_u), C(dm.st)))
            return args, guards, canon

        oargs, og, cs = side(sc, dc, fwd, out_bounds)
        iargs, ig, cd = side(dc, sc, bwd, True)
        gso = conj(([subst_U(gs([U(i) for i in range(len(S.dims))]), cs)] if gs else []) + og)
        gdi = conj(([subst_U(gd([U(i) for i in range(len(Dd.dims))]), cd)] if gd else []) + ig)
        S.flows[sf].deps.append(Dep(False, self.tidy_guard(gso), ('T', dc, df, oargs), else_out))
        Dd.flows[df].deps.append(Dep(True, self.tidy_guard(gdi), ('T', sc, sf, iargs), else_in))

    def tidy_guard(self, g):
        if g is None:
            return None
        g = simp(g)
        if g[0] == 'c':
            return None if g[1] != 0 else C(0)
        return g

    # ---- memory references
    def mem_ref(self, ci):
        """D(e) with e distinct per instance of the class: a fresh block of the collection"""
        c = self.p.classes[ci]
        base = self.data_next
        # linearise canonical coordinates; tri dims use the rectangular bound n0
        e, mult, tot = C(base), 1, 1
        for d, dm in enumerate(c.dims):
            nd = c.dims[0].n if dm.tri else dm.n
            e = B("add", e, B("mul", C(mult), self.canon(ci, d)))
            mult *= nd
        self.data_next += mult
        return ('M', [simp(e)])

    def finish_flows(self):
        """give every READ/RW flow an input for the instances no task feeds, and RW/WRITE flows an output"""
        r = self.r
        for ci, c in enumerate(self.p.classes):
            for f in c.flows:
                if f.mode == 'C':
                    continue
                ins = [d for d in f.deps if d.din]
                if f.mode == 'W':
                    f.deps.insert(0, Dep(True, None, ('N',)))
                else:
                    src = self.mem_ref(ci) if (f.mode == 'B' or r.chance(3, 4)) else ('Z',)
                    if f.mode == 'B' and r.chance(1, 4):
                        src = ('N',)
                    if src[0] == 'Z' and any(not d.din for d in f.deps):
                        src = self.mem_ref(ci)        # do not forward NULL
                    if not ins:
                        f.deps.insert(0, Dep(True, None, src))
                    elif len(ins) == 1 and ins[0].els is None:
                        d = ins[0]
                        if d.guard is None:
                            pass                       # always fed by a task
                        elif r.chance(1, 2):
                            d.els = src                # g ? A T(..) : D(..)
                        else:
                            k = f.deps.index(d)
                            nd = Dep(True, N(d.guard), src)
                            if r.chance(1, 2):
                                f.deps.insert(k, nd)   # (!g) ? D(..) first
                            else:
                                f.deps.insert(k + 1, nd)
                    # (several guarded task inputs: built exclusive and exhaustive by the template)
                if f.mode in ('B', 'W') and r.chance(1, 2):
                    f.deps.append(Dep(False, None, self.mem_ref(ci)))
        self.p.ndata = max(1, self.data_next)


# ---- canonical helpers
def same(i): return ('u', lambda u, i=i: u[i])
def shift(i, d): return ('u', lambda u, i=i, d=d: simp(B("add", u[i], C(d))))
def const(v): return ('u', lambda u, v=v: C(v))
def half(i): return ('u', lambda u, i=i: B("div", u[i], C(2)))
def dbl(i, o): return ('u', lambda u, i=i, o=o: simp(B("add", B("mul", u[i], C(2)), C(o))))
def allof(nexpr): return ('r', lambda u: C(0), lambda u, n=nexpr: simp(B("sub", n(u), C(1))))
def rng2(i): return ('r', lambda u, i=i: B("mul", u[i], C(2)), lambda u, i=i: B("add", B("mul", u[i], C(2)), C(1)))


FIRST_MATCH_TEMPLATES = ("firstmatch",)      # accepted by wf(first_match=True) only (overlapping input guards)
TEMPLATES = ("chain", "bcast_gather", "diamond", "split_merge", "branch", "pipeline2d", "fan", "tri", "mixed")


def gen_program(rng, template=None, max_inst=120, rich=True, tries=40, **genattrs):
    """draw a well-formed program; returns Prog (p.template names the template used).
    template: one of TEMPLATES, or "keys" (parameter-space shapes, independent tasks; genattrs
    allow_derived_param / allow_permuted switch its two special shapes)."""
    for _ in range(tries):
        r = rng.fork()
        t = template or r.pick(TEMPLATES)
        g = Gen(r, max_inst, rich)
        for k, v in genattrs.items():
            setattr(g, k, v)
        try:
            getattr(sys.modules[__name__], "_t_" + t)(g)
            g.finish_flows()
        except StopIteration:
            continue
        p = g.p
        p.template = t
        n = len(instances(p))
        if n == 0 or n > max_inst:
            continue
        if wf(p, first_match=(t in FIRST_MATCH_TEMPLATES)):
            return p
    # fall back to the simplest program
    g = Gen(rng.fork(), max_inst, False)
    _t_chain(g)
    g.finish_flows()
    g.p.template = "chain-fallback"
    assert wf(g.p)
    return g.p


def _t_chain(g):
    """T(k) -> T(k+d): one or two chains, optionally fed by a source class and drained by a sink"""
    r = g.r
    n = r.range(2, 8)
    t = g.new_class([(n, False)])
    a = g.add_flow(t, 'B')
    d = r.pick([1, 1, 2])
    g.connect((t, a), (t, a), [shift(0, d)], [shift(0, -d)], out_bounds=r.chance(1, 2))
    if r.chance(1, 2):
        x = g.add_flow(t, 'C')
        g.connect((t, x), (t, x), [shift(0, 1)], [shift(0, -1)], out_bounds=r.chance(1, 2))
    if r.chance(1, 2):
        s = g.new_class([(n, False)])
        b = g.add_flow(s, 'B')
        rd = g.add_flow(t, 'R')
        g.connect((s, b), (t, rd), [same(0)], [same(0)], out_bounds=r.chance(1, 2))


def _t_bcast_gather(g):
    """S(k) -> T(k, 0..M-1) -> CTL gather R(k)"""
    r = g.r
    n, m = r.range(1, 6), r.range(1, 6)
    s = g.new_class([(n, False)])
    t = g.new_class([(n, False), (m, False)])
    q = g.new_class([(n, False)])
    sa = g.add_flow(s, 'B')
    ta = g.add_flow(t, r.pick(['R', 'B']))
    g.connect((s, sa), (t, ta), [same(0), allof(lambda u: C(m))], [same(0)])
    tx = g.add_flow(t, 'C')
    qx = g.add_flow(q, 'C')
    g.connect((t, tx), (q, qx), [same(0)], [same(0), allof(lambda u: C(m))])
    if r.chance(1, 2):                       # one element also sends its data
        tw = g.add_flow(t, 'W')
        qa = g.add_flow(q, 'R')
        j = r.below(m)
        g.connect((t, tw), (q, qa), [same(0)], [same(0), const(j)], gs=lambda u: B("eq", u[1], C(j)))
    else:
        g.add_flow(q, 'B')


def _t_diamond(g):
    """A(0) -> B(0..n-1) -> C(0): fan-out with a range, control gather back"""
    r = g.r
    n = r.range(1, 8)
    a = g.new_class([(1, False)])
    b = g.new_class([(n, False)])
    c = g.new_class([(1, False)])
    aa = g.add_flow(a, 'B')
    ba = g.add_flow(b, r.pick(['R', 'B']))
    g.connect((a, aa), (b, ba), [allof(lambda u: C(n))], [const(0)])
    bx = g.add_flow(b, 'C')
    cx = g.add_flow(c, 'C')
    g.connect((b, bx), (c, cx), [const(0)], [allof(lambda u: C(n))])
    ca = g.add_flow(c, 'B')
    if r.chance(1, 2):
        g.connect((a, aa), (c, ca), [const(0)], [const(0)])
    if r.chance(1, 2):
        ax = g.add_flow(a, 'C')
        cy = g.add_flow(c, 'C')
        g.connect((a, ax), (c, cy), [const(0)], [const(0)])


def _t_split_merge(g):
    """S(k) -> (k even) ? TE(k/2) : TO(k/2) -> M(k): conditional routing, ternary in and out"""
    r = g.r
    n = r.range(2, 8)
    s = g.new_class([(n, False)])
    te = g.new_class([((n + 1) // 2, False)])
    to = g.new_class([(n // 2, False)])
    sa = g.add_flow(s, 'B')
    ea = g.add_flow(te, 'B')
    oa = g.add_flow(to, 'B')
    S, E, O = g.p.classes[s], g.p.classes[te], g.p.classes[to]
    us = g.canon(s, 0)
    even = simp(B("eq", B("mod", us, C(2)), C(0)))
    h = simp(B("div", us, C(2)))
    if r.chance(1, 2):      # one ternary output
        S.flows[sa].deps.append(Dep(False, even, ('T', te, ea, [('E', g.actual(te, 0, h))]),
                                    ('T', to, oa, [('E', g.actual(to, 0, h))])))
    else:
        S.flows[sa].deps.append(Dep(False, even, ('T', te, ea, [('E', g.actual(te, 0, h))])))
        S.flows[sa].deps.append(Dep(False, N(even), ('T', to, oa, [('E', g.actual(to, 0, h))])))
    ue, uo = g.canon(te, 0), g.canon(to, 0)
    E.flows[ea].deps.append(Dep(True, None, ('T', s, sa, [('E', g.actual(s, 0, simp(B("mul", ue, C(2)))))])))
    O.flows[oa].deps.append(Dep(True, None, ('T', s, sa, [('E', g.actual(s, 0, simp(B("add", B("mul", uo, C(2)), C(1)))))])))
    if r.chance(2, 3):
        m = g.new_class([(n, False)])
        ma = g.add_flow(m, r.pick(['R', 'B']))
        M = g.p.classes[m]
        um = g.canon(m, 0)
        evm = simp(B("eq", B("mod", um, C(2)), C(0)))
        hm = simp(B("div", um, C(2)))
        M.flows[ma].deps.append(Dep(True, evm, ('T', te, ea, [('E', g.actual(te, 0, hm))]),
                                    ('T', to, oa, [('E', g.actual(to, 0, hm))])))
        E.flows[ea].deps.append(Dep(False, None, ('T', m, ma, [('E', g.actual(m, 0, simp(B("mul", ue, C(2)))))])))
        O.flows[oa].deps.append(Dep(False, None, ('T', m, ma, [('E', g.actual(m, 0, simp(B("add", B("mul", uo, C(2)), C(1)))))])))


def _t_branch(g):
    """S(k) -> T(2k..2k+1) (binary branching with a range), T(j) <- S(j/2); T pairs join in U(k) through two flows"""
    r = g.r
    n = r.range(1, 5)
    s = g.new_class([(n, False)])
    t = g.new_class([(2 * n, False)])
    sa = g.add_flow(s, 'B')
    ta = g.add_flow(t, 'B')
    g.connect((s, sa), (t, ta), [rng2(0)], [half(0)])
    if r.chance(2, 3):
        u = g.new_class([(n, False)])
        u1 = g.add_flow(u, 'B')
        u2 = g.add_flow(u, 'R')
        T_ = g.p.classes[t]
        ut = g.canon(t, 0)
        ev_ = simp(B("eq", B("mod", ut, C(2)), C(0)))
        ht = simp(B("div", ut, C(2)))
        T_.flows[ta].deps.append(Dep(False, ev_, ('T', u, u1, [('E', g.actual(u, 0, ht))]),
                                     ('T', u, u2, [('E', g.actual(u, 0, ht))])))
        uu = g.canon(u, 0)
        U = g.p.classes[u]
        U.flows[u1].deps.append(Dep(True, None, ('T', t, ta, [('E', g.actual(t, 0, simp(B("mul", uu, C(2)))))])))
        U.flows[u2].deps.append(Dep(True, None, ('T', t, ta, [('E', g.actual(t, 0, simp(B("add", B("mul", uu, C(2)), C(1)))))])))


def _t_pipeline2d(g):
    """T(i, j) -> T(i, j+1) rows; first column fed by S(i); last column drained by a CTL to U(i)"""
    r = g.r
    n, m = r.range(1, 5), r.range(2, 6)
    t = g.new_class([(n, False), (m, False)])
    ta = g.add_flow(t, 'B')
    g.connect((t, ta), (t, ta), [same(0), shift(1, 1)], [same(0), shift(1, -1)], out_bounds=r.chance(1, 2))
    if r.chance(1, 2):
        tx = g.add_flow(t, 'C')                   # column dependencies as controls
        g.connect((t, tx), (t, tx), [shift(0, 1), same(1)], [shift(0, -1), same(1)], out_bounds=r.chance(1, 2))
    if r.chance(1, 2):
        u = g.new_class([(n, False)])
        ux = g.add_flow(u, 'C')
        ty = g.add_flow(t, 'C')
        g.connect((t, ty), (u, ux), [same(0)], [same(0), const(m - 1)], gs=lambda uu: B("eq", uu[1], C(m - 1)))
        g.add_flow(u, 'B')


def _t_fan(g):
    """Z(0) broadcasts to T(0..n-1) with a range; T(k) all signal W(0) by CTL gather; W also waits for Z"""
    r = g.r
    n = r.range(1, 8)
    z = g.new_class([(1, False)])
    t = g.new_class([(n, False)])
    za = g.add_flow(z, 'W')
    ta = g.add_flow(t, 'R')
    g.connect((z, za), (t, ta), [allof(lambda u: C(n))], [const(0)])
    tb = g.add_flow(t, 'B')
    g.connect((t, tb), (t, tb), [shift(0, 1)], [shift(0, -1)], out_bounds=r.chance(1, 2))
    if r.chance(2, 3):
        w = g.new_class([(1, False)])
        tx = g.add_flow(t, 'C')
        wx = g.add_flow(w, 'C')
        g.connect((t, tx), (w, wx), [const(0)], [allof(lambda u: C(n))])
        g.add_flow(w, 'R')


def _t_tri(g):
    """triangular space T(i, j), j <= i: rows chained through the diagonal"""
    r = g.r
    n = r.range(2, 6)
    t = g.new_class([(n, False), (0, True)])
    ta = g.add_flow(t, 'B')
    # T(i, j) -> T(i, j+1) within the row
    g.connect((t, ta), (t, ta), [same(0), shift(1, 1)], [same(0), shift(1, -1)], out_bounds=r.chance(1, 2))
    # diagonal element T(i, i) -CTL-> T(i+1, 0)
    tx = g.add_flow(t, 'C')
    g.connect((t, tx), (t, tx), [shift(0, 1), const(0)], [shift(0, -1), ('u', lambda u: simp(B("sub", u[0], C(1))))],
              gs=lambda u: B("eq", u[1], u[0]), gd=lambda u: B("eq", u[1], C(0)), out_bounds=r.chance(1, 2))
    if r.chance(1, 2):
        s = g.new_class([(n, False)])
        sx = g.add_flow(s, 'C')
        ty = g.add_flow(t, 'C')
        # every T(i, *) signals S(i): gather over a range whose length depends on i
        g.connect((t, ty), (s, sx), [same(0)], [same(0), allof(lambda u: simp(B("add", u[0], C(1))))])
        g.add_flow(s, 'R')


def _t_gather2(g):
    """many successors T(k) with EXACTLY TWO inputs tracked by a counter, whose two predecessors are startup
    tasks and therefore complete concurrently on different threads (races in parsec_update_deps_with_counter:
    first-arrival CAS against concurrent decrement).  Variants: control gather `CTL X <- X P(k, 0 .. 1)`;
    two data inputs from two producer classes with [count_deps = on]; one data + one control."""
    r = g.r
    n = getattr(g, "gather_n", None) or r.range(250, 500)
    variant = getattr(g, "gather_variant", None) or r.pick(["ctl", "ctl", "data2", "mixed"])
    if variant == "ctl":
        p = g.new_class([(n, False), (2, False)])
        t = g.new_class([(n, False)])
        px = g.add_flow(p, 'C')
        tx = g.add_flow(t, 'C')
        g.connect((p, px), (t, tx), [same(0)], [same(0), allof(lambda u: C(2))])
        g.p.classes[t].count = False          # the range in the input selects the counter by itself
    else:
        pa = g.new_class([(n, False)])
        pb = g.new_class([(n, False)])
        t = g.new_class([(n, False)])
        a = g.add_flow(pa, 'B')
        ta = g.add_flow(t, 'R')
        g.connect((pa, a), (t, ta), [same(0)], [same(0)])
        if variant == "data2":
            b = g.add_flow(pb, 'B')
            tb = g.add_flow(t, 'R')
        else:
            b = g.add_flow(pb, 'C')
            tb = g.add_flow(t, 'C')
        g.connect((pb, b), (t, tb), [same(0)], [same(0)])
        g.p.classes[t].count = True           # [count_deps = on]
    for c in g.p.classes:
        c.prio = None


def _t_firstmatch(g):
    """first match wins: a mask-mode consumer CONS with two input flows fed by the two output flows of ONE producer
    instance, where flow A lists the task dependency under a guard followed by an unguarded (or overlapping)
    memory fallback:      RW A <- (k > lo) ? X PROD(k)   <- D(k)        READ B <- (k > lo) ? Y PROD(k) : D(k)
    PROD releases its flows in order, Y (-> B) before X (-> A): if the runtime went on scanning A's dependencies past
    the first match it would pre-mark A from the fallback, start CONS(k) when B arrives and again when A arrives.
    KEEP(k) reads both outputs too (with --slow it keeps the producer's data alive so that a duplicate shows up in
    the body log instead of a crash).  Only wf(first_match=True) / wf_first_match accepts these programs."""
    r = g.r
    n = r.range(2, 7)
    extra = r.pick([0, 1, 1])                  # CONS instances not fed by PROD: the fallback is really used there
    prod = g.new_class([(n, False)])
    cons = g.new_class([(n + extra, False)])
    P_, C_ = g.p.classes[prod], g.p.classes[cons]
    C_.count = False                           # mask mode
    swapped = r.chance(1, 5)                   # sometimes A is fed by the producer's first flow
    fy = g.add_flow(prod, 'B', "Y")
    fx = g.add_flow(prod, 'B', "X")
    if swapped:
        fy, fx = fx, fy
    a = g.add_flow(cons, r.pick(['B', 'R']), "A")
    b = g.add_flow(cons, 'R', "B")
    # PROD(u) -> CONS(u + extra)
    g.connect((prod, fy), (cons, b), [shift(0, extra)], [shift(0, -extra)])
    g.connect((prod, fx), (cons, a), [shift(0, extra)], [shift(0, -extra)])
    da = [d for d in C_.flows[a].deps if d.din][0]
    uc = g.canon(cons, 0)
    if da.guard is None:                       # same sizes: a guard that always holds
        da.guard = simp(B("ge", uc, C(0)))
    fb = g.mem_ref(cons)
    k = C_.flows[a].deps.index(da)
    style = r.below(3)
    if style == 0:
        C_.flows[a].deps.insert(k + 1, Dep(True, None, fb))                              # unguarded, final
    elif style == 1:
        C_.flows[a].deps.insert(k + 1, Dep(True, simp(B("ge", uc, C(0))), fb))           # overlapping guard
    else:
        C_.flows[a].deps.insert(k + 1, Dep(True, simp(B("lt", uc, C(extra + 1))), fb))   # overlaps for one instance only
        C_.flows[a].deps.insert(k + 2, Dep(True, None, g.mem_ref(cons)))
    db = [d for d in C_.flows[b].deps if d.din][0]
    if db.guard is None and r.chance(1, 2):    # B may use the idiom as well
        db.guard = simp(B("ge", uc, C(0)))
        C_.flows[b].deps.append(Dep(True, None, g.mem_ref(cons)))
    if r.chance(4, 5):
        keep = g.new_class([(n, False)])
        kk = g.add_flow(keep, 'R', "K")
        kl = g.add_flow(keep, 'R', "L")
        g.connect((prod, fx), (keep, kk), [same(0)], [same(0)])
        g.connect((prod, fy), (keep, kl), [same(0)], [same(0)])
    if r.chance(1, 3):                         # something downstream of CONS
        if C_.flows[a].mode == 'B':
            t = g.new_class([(n + extra, False)])
            ta = g.add_flow(t, 'R')
            g.connect((cons, a), (t, ta), [same(0)], [same(0)])


def _t_mixed(g):
    """two templates side by side in one taskpool (independent sub-graphs)"""
    r = g.r
    a, b = r.pick(TEMPLATES[:-1]), r.pick(["chain", "diamond", "fan"])
    getattr(sys.modules[__name__], "_t_" + a)(g)
    if len(g.p.classes) <= 2:
        getattr(sys.modules[__name__], "_t_" + b)(g)


def _t_keys(g):
    """C23: parameter-space shapes.  1-3 classes of independent tasks with 1-4 parameters: negative and
    expression bounds, steps, bounds that depend on earlier parameters (triangles, windows), derived locals
    in the nest; sometimes a parameter defined by an expression, sometimes a header order different from
    the definition order (both are reported by C23's oracle, see notes/findings)."""
    r = g.r
    allow_derived_param = getattr(g, "allow_derived_param", True)
    allow_permuted = getattr(g, "allow_permuted", True)
    for _ in range(r.range(1, 3)):
        c = Cls(next(g.names))
        g.p.classes.append(c)
        ci = len(g.p.classes) - 1
        np_ = r.pick([1, 2, 2, 3, 3, 4])
        budget = 48
        pnames = ["k", "m", "n", "q"]
        plist = []                  # local indices of the parameters, definition order
        info = []                   # (local index, lo value known?, lo_expr, st) of the previous parameters
        for d in range(np_):
            size = max(1, min(r.range(1, 6), budget))
            budget = max(1, budget // size)
            st = r.pick([1, 1, 1, 2, 3])
            kind = r.pick(["rect", "rect", "neg", "expr", "tri", "window", "derivedbound"]) if d > 0 else \
                r.pick(["rect", "rect", "neg", "expr"])
            if kind == "rect":
                lo = C(r.pick([0, 0, 1, -1, -2, 3]))
                hi = simp(B("add", lo, C(st * (size - 1))))
            elif kind == "neg":                       # all values negative (the generated max starts at 0)
                lo = C(-(st * (size - 1)) - r.range(1, 4))
                hi = simp(B("add", lo, C(st * (size - 1))))
            elif kind == "expr":
                gi = g.new_global(r.range(1, 5))
                lo = simp(B("sub", G(gi), C(r.range(0, 6))))
                hi = simp(B("add", lo, B("mul", C(st), g.count_expr(size))))
            elif kind == "tri":                       # upper bound grows with the previous parameter
                pl, plo, pst = info[-1]
                lo = C(r.pick([0, -1, 2]))
                hi = simp(B("add", lo, B("mul", C(st), B("div", B("sub", L(pl), plo), C(pst)))))
            elif kind == "window":                    # a window around the previous parameter
                pl, plo, pst = info[-1]
                lo = simp(B("sub", L(pl), C(r.range(0, 2))))
                hi = simp(B("add", L(pl), C(r.range(0, 2))))
                st = 1
            else:                                     # bound through a derived local
                pl, plo, pst = info[-1]
                c.locals.append(Local("h%d" % d, 'V', e=simp(B("add", B("mul", L(pl), C(r.pick([1, 2, -1]))), C(r.range(0, 3))))))
                hl = len(c.locals) - 1
                lo = B("min", L(hl), C(r.range(-2, 2)))
                hi = simp(B("add", lo, C(st * (size - 1))))
            c.locals.append(Local(pnames[d], 'R', lo, hi, C(st)))
            li = len(c.locals) - 1
            plist.append(li)
            info.append((li, lo if lo[0] == 'c' or lo[0] == 'b' and all(x[0] != 'l' for x in _leaves(lo)) else C(0), st))
            if r.chance(1, 4):
                c.locals.append(Local("w%d" % d, 'V', e=simp(B("sub", B("mul", L(li), C(3)), C(1)))))
        if allow_derived_param and r.chance(1, 8):    # a parameter defined by an expression
            pos = r.range(1, len(c.locals))
            prev = [i for i in plist if i < pos]
            if prev:
                e = simp(B("add", B("mul", L(prev[-1]), C(r.pick([1, 2, -1]))), C(r.range(-2, 3))))
                c.locals.insert(pos, Local("z", 'V', e=e))
                # renumber the references of the locals behind the insertion point
                for l in c.locals[pos + 1:]:
                    m = {i: L(i if i < pos else i + 1) for i in range(len(c.locals))}
                    if l.kind == 'R':
                        l.lo, l.hi, l.st = subst_locals(l.lo, m), subst_locals(l.hi, m), subst_locals(l.st, m)
                    else:
                        l.e = subst_locals(l.e, m)
                plist = [i if i < pos else i + 1 for i in plist]
                plist = sorted(plist + [pos])
        c.params = list(plist)
        if allow_permuted and len(plist) > 1 and r.chance(1, 8):
            c.params = r.shuffle(plist)
        c.flows.append(Flow("A", 'R', [Dep(True, None, ('M', [C(0)]))]))
        if r.chance(1, 3):
            c.prio = L(plist[0])
    g.data_next = max(g.data_next, 1)


def _t_keysbig(g):
    """C23: few instances in a HUGE bounding box.  1-2 classes of independent tasks with 3-4 parameters, each
    taking 2-6 values spread by a large step (2^10 .. 2^30) over a range of 2^k (sometimes +-1) values, negative
    lower bounds; the product of the ranges of the leading parameters (the multiplier of the last digit of the
    key) is drawn from {2^31 - small, 2^31 + small, 2^32, 2^40, 2^62..2^63}; the total stays <= 2^64, inside the
    hypothesis of C23_keys_injective.  Every range fits an int (<= 2^30), every value an int32."""
    r = g.r
    target = getattr(g, "big_target", None)
    for _ in range(r.range(1, 2)):
        c = Cls(next(g.names))
        g.p.classes.append(c)
        kind = target or r.pick(["31-", "31+", "32", "40", "63"])
        np_ = 4 if kind == "63" else r.pick([3, 3, 4])
        nlead = np_ - 1
        e = {"31-": 31, "31+": 31, "32": 32, "40": 40, "63": r.pick([62, 63])}[kind]
        if e > 30 * nlead:
            e = 30 * nlead
        # split the exponent over the leading parameters, each at most 30 and at least 1
        exps = [1] * nlead
        left = e - nlead
        while left > 0:
            i = r.below(nlead)
            if exps[i] < 30:
                exps[i] += 1
                left -= 1
        boxes = [1 << x for x in exps]
        if kind in ("31-", "31+"):
            i = max(range(nlead), key=lambda j: exps[j])
            boxes[i] += -1 if kind == "31-" else 1
        last_box = r.pick([2, 2, 3]) if e < 62 else 2
        if e >= 63:
            last_box = 2
        boxes.append(last_box)
        names = ["k", "m", "n", "q"]
        total = 1
        for d, R in enumerate(boxes):
            # values lo, lo+st, ..., lo+(cnt-1)*st with (cnt-1)*st = R-1: the bounding box has exactly R values
            cands = [cnt for cnt in (2, 3, 4, 6) if R > 1 and (R - 1) % (cnt - 1) == 0 and total * cnt <= 150]
            if R == 1:
                cnt, st = 1, 1
            elif cands and r.chance(3, 4):
                cnt = r.pick(cands)
                st = (R - 1) // (cnt - 1)
            else:
                cnt, st = 2, R - 1                # the two end points of the range
            total *= cnt
            lo = r.pick([0, -(R // 2), -(R // 2), -(R - 1), -r.range(0, min(R - 1, 1000))])
            hi = lo + (cnt - 1) * st
            lo_e, hi_e = C(lo), C(hi)
            if r.chance(1, 4):
                gi = g.new_global(r.range(1, 9))
                lo_e = simp(B("sub", B("add", C(lo), G(gi)), G(gi)))
            st_e = C(st) if not r.chance(1, 4) else G(g.new_global(st))
            c.locals.append(Local(names[d], 'R', lo_e, hi_e, st_e))
            if r.chance(1, 5):
                c.locals.append(Local("w%d" % d, 'V', e=simp(B("div", L(len(c.locals) - 1), C(3)))))
        c.params = [i for i, l in enumerate(c.locals) if l.kind == 'R']
        c.flows.append(Flow("A", 'R', [Dep(True, None, ('M', [C(0)]))]))
    g.data_next = max(g.data_next, 1)


def _t_keysperm(g):
    """C23: header order != definition order for PURE range parameters.  1-3 classes of independent tasks with 2-4
    range parameters of different sizes / lower bounds / steps, no derived parameter and no local in between, whose
    header is a non-identity permutation of the definition order (attr perm = tuple fixes it for the first class).
    make_key and key_print both work in definition order; a generator that mixes the two orders prints another
    instance's values."""
    r = g.r
    fixed = getattr(g, "perm", None)
    for ci in range(1 if fixed else r.range(1, 3)):
        c = Cls(next(g.names))
        g.p.classes.append(c)
        np_ = len(fixed) if fixed else r.pick([2, 3, 3, 4])
        sizes = r.shuffle([2, 3, 4, 5, 7])[:np_]          # pairwise different range sizes
        los = r.shuffle([-4, -3, -1, 0, 2, 5, 9])[:np_]   # pairwise different lower bounds
        names = ["k", "m", "n", "q"]
        for d in range(np_):
            st = r.pick([1, 1, 2, 3])
            lo = C(los[d])
            if d > 0 and r.chance(1, 4):                  # a bound that depends on the previous parameter
                lo = simp(B("add", L(d - 1), C(los[d])))
            hi = simp(B("add", lo, C(st * (sizes[d] - 1))))
            c.locals.append(Local(names[d], 'R', lo, hi, C(st)))
        ident = list(range(np_))
        perm = list(fixed) if fixed else ident
        while perm == ident and not fixed:
            perm = r.shuffle(ident)
        c.params = perm
        c.flows.append(Flow("A", 'R', [Dep(True, None, ('M', [C(0)]))]))
    g.data_next = max(g.data_next, 1)


def local_order_params(c, header_params):
    """the parameter values in DEFINITION order, given them in header order"""
    order = sorted(range(len(c.params)), key=lambda j: c.params[j])
    return tuple(header_params[j] for j in order)


def range_boxes(p):
    """per class: the ranges (max - min + 1 with the generated code's initial values) of the parameters in
    definition order — what make_key multiplies"""
    out = []
    for c in p.classes:
        bs = []
        for pos, l in enumerate(c.locals):
            if pos not in c.params:
                continue
            if l.kind != 'R':
                bs.append(1)
                continue
            mn, mx = 0x7fffffff, 0
            for env in enum(p.gvals, c.locals[:pos]):
                a, b = ev(p.gvals, list(env), l.lo), ev(p.gvals, list(env), l.hi)
                mn, mx = min(mn, a, b), max(mx, a, b)
            bs.append(mx - mn + 1)
        out.append(bs)
    return out


def _leaves(e):
    if e[0] == 'b':
        return _leaves(e[2]) + _leaves(e[3])
    if e[0] == 'n':
        return _leaves(e[1])
    if e[0] == 't':
        return _leaves(e[1]) + _leaves(e[2]) + _leaves(e[3])
    return [e]


def has_derived_param(c):
    return any(c.locals[i].kind == 'V' for i in c.params)


def header_permuted(c):
    return list(c.params) != sorted(c.params)


if __name__ == "__main__":
    sys.path.insert(0, __file__.rsplit("/", 2)[0] + "/lib")
    from vcheck import Rng
    seed = int(sys.argv[1]) if len(sys.argv) > 1 else 1
    tmpl = sys.argv[2] if len(sys.argv) > 2 else None
    p = gen_program(Rng(seed), tmpl)
    sys.stdout.write(to_jdf(p))
    sys.stderr.write(to_case(p) + "\n")
    sys.stderr.write("%s %s\n" % (p.template, stats(p)))
