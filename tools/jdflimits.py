"""Generator of JDF programs around the runtime limits (C24).
A program is a list of functions; a function = (nlocals_extra, flows);
a flow = (access in 'R','W','RW','C', deps) ; a dep = (dir 'i'/'o', guard 'u'/'b'/'t').
One Python structure, two printers: JDF text and the one-line model case."""

def jdf_text(prog, malformed=None):
    out = ['extern "C" %{', '#include "parsec/data_dist/matrix/two_dim_rectangle_cyclic.h"', '%}',
           'A          [type = "parsec_data_collection_t*"]', 'NT         [type = int]', '']
    for fi, (nloc, flows) in enumerate(prog):
        fn = "F%d" % fi
        out.append("%s(k)" % fn)
        out.append("  k = 0 .. NT")
        for j in range(nloc):
            out.append("  l%d = k + %d" % (j, j))
        out.append(": A(k,0)")
        for xi, (acc, deps) in enumerate(flows):
            name = "X%d" % xi
            kw = {"R": "READ", "W": "WRITE", "RW": "RW", "C": "CTL"}[acc]
            lines = []
            for di, (d, g) in enumerate(deps):
                arrow = "<-" if d == "i" else "->"
                cond = "(k %% 97) == %d" % di
                off = ("-%d" if d == "i" else "+%d")
                if acc == "C":
                    tgt1 = "%s %s(k%s)" % (name, fn, off % 1)
                    tgt2 = "%s %s(k%s)" % (name, fn, off % 2)
                elif acc == "R" and d == "o":
                    # a READ flow forwards to tasks only
                    tgt1 = "%s %s(k%s)" % (name, fn, off % 1)
                    tgt2 = "%s %s(k%s)" % (name, fn, off % 2)
                else:
                    # memory reference; a ternary names memory on one side and a task on the other
                    # (two memory references in one ternary make ptgpp emit a duplicate accessor)
                    tgt1, tgt2 = "A(k,0)", "%s %s(k%s)" % (name, fn, off % 1)
                if g == "u":
                    lines.append("%s %s" % (arrow, tgt1))
                elif g == "b":
                    lines.append("%s %s ? %s" % (arrow, cond, tgt1))
                else:
                    lines.append("%s %s ? %s : %s" % (arrow, cond, tgt1, tgt2))
            if not lines:
                lines = ["<- A(k,0)"] if acc != "C" else []
            first = True
            for ln in lines:
                out.append(("  %-5s %s %s" % (kw, name, ln)) if first else ("           %s" % ln))
                first = False
            if not lines:
                out.append("  %-5s %s" % (kw, name))
        out.append("BODY")
        out.append("    (void)k;")
        out.append("END")
        out.append("")
    txt = "\n".join(out) + "\n"
    if malformed and malformed.startswith("unbound-"):
        # an extra control flow of the first class carries the unbound identifier kk at the named position
        tgt = {"unbound-guard": "(kk % 97) == 0 ? ZZ F0(k-1)",
               "unbound-arg":   "(k % 97) == 0 ? ZZ F0(kk-1)",
               "unbound-then":  "(k % 97) == 0 ? ZZ F0((k > 0) ? kk : k-1)",
               "unbound-else":  "(k % 97) == 0 ? ZZ F0((k > 0) ? k-1 : kk)"}[malformed]
        txt = txt.replace("BODY", "  CTL   ZZ <- %s\n              -> (k %% 97) == 1 ? ZZ F0(k+1)\nBODY" % tgt, 1)
    if malformed == "syntax":
        txt = txt.replace("BODY", "BODDY", 1)
    elif malformed == "paren":
        txt = txt.replace("k = 0 .. NT", "k = (0 .. NT", 1)
    elif malformed == "unbound":
        txt = txt.replace("k = 0 .. NT", "k = 0 .. NTX", 1)
    return txt


def case_text(prog, malformed=None):
    """one-line model case: M | nloc : acc deps ; acc deps ; ... / nloc : ...   deps as e.g. iu ib it ou"""
    fs = []
    for (nloc, flows) in prog:
        fl = []
        for (acc, deps) in flows:
            fl.append(acc + " " + " ".join(d + g for (d, g) in deps))
        fs.append("%d : %s" % (nloc, " ; ".join(fl)))
    return "%s | %s" % (malformed or "ok", " / ".join(fs))


def parse_case(line):
    head, body = line.split("|", 1)
    mal = head.strip()
    prog = []
    for ftxt in body.split("/"):
        nl, fl = ftxt.split(":", 1)
        flows = []
        for x in fl.split(";"):
            w = x.split()
            if not w:
                continue
            flows.append((w[0], [(t[0], t[1]) for t in w[1:]]))
        prog.append((int(nl), flows))
    return (None if mal == "ok" else mal), prog
