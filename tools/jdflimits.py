"""Generator of JDF programs around the runtime limits (C24).
A program is a list of functions; a function = (nlocals_extra, flows);
a flow = (access in 'R','W','RW','C', deps) ; a dep = (dir 'i'/'o', guard 'u'/'b'/'t'/'m'; 'm' is a ternary whose
two branches both reference memory) or
(dir, guard, L, CT, CF): L local definitions "[ i0 = 0 .. 1, … ]" at the dependency level, CT / CF in front
of the call of the true / false branch (only where the target is a task).
One Python structure, two printers: JDF text and the one-line model case."""

def jdf_text(prog, malformed=None):
    out = ['extern "C" %{', '#include "parsec/data_dist/matrix/two_dim_rectangle_cyclic.h"', '%}',
           'A          [type = "parsec_data_collection_t*"]', 'NT         [type = int]', '']
    for fi, (nloc, flows) in enumerate(prog):
        fn = "F%d" % fi
        out.append("%s(k)" % fn)
        out.append("  k = 0 .. NT")
        for j in range(nloc):
            out.append("  l%d = k + %d" % (j, j))
        out.append(": A(k,0)")
        for xi, (acc, deps) in enumerate(flows):
            name = "X%d" % xi
            kw = {"R": "READ", "W": "WRITE", "RW": "RW", "C": "CTL"}[acc]
            lines = []
            for di, dep in enumerate(deps):
                d, g = dep[0], dep[1]
                nl, nct, ncf = ldefs(dep)
                arrow = "<-" if d == "i" else "->"
                cond = "(k %% 97) == %d" % di
                off = ("-%d" if d == "i" else "+%d")
                if acc == "C":
                    tgt1 = "%s %s(k%s)" % (name, fn, off % 1)
                    tgt2 = "%s %s(k%s)" % (name, fn, off % 2)
                elif acc == "R" and d == "o":
                    # a READ flow forwards to tasks only
                    tgt1 = "%s %s(k%s)" % (name, fn, off % 1)
                    tgt2 = "%s %s(k%s)" % (name, fn, off % 2)
                else:
                    # memory reference; a ternary names memory on one side and a task on the other
                    # (two memory references in one ternary make ptgpp emit a duplicate accessor)
                    tgt1, tgt2 = "A(k,0)", "%s %s(k%s)" % (name, fn, off % 1)
                if nl or nct or ncf:
                    # local definitions: every defined name is used in the call it scopes over
                    sgn = "-" if d == "i" else "+"
                    dl = ("[ %s ] " % ", ".join("i%d = 0 .. 1" % j for j in range(nl))) if nl else ""
                    iuse = "".join("%si%d" % (sgn, j) for j in range(nl))
                    def call(t, n, pre):
                        cl = ("[ %s ] " % ", ".join("%s%d = 0 .. 1" % (pre, j) for j in range(n))) if n else ""
                        return cl + t[:-1] + iuse + "".join("%s%s%d" % (sgn, pre, j) for j in range(n)) + ")"
                    tgt1, tgt2 = call(tgt1, nct, "m"), call(tgt2, ncf, "n")
                    arrow = arrow + " " + dl.rstrip() if dl else arrow
                if g == "u":
                    lines.append("%s %s" % (arrow, tgt1))
                elif g == "b":
                    lines.append("%s %s ? %s" % (arrow, cond, tgt1))
                elif g == "m":
                    lines.append("%s %s ? A(k,0) : A(k,0)" % (arrow, cond))
                else:
                    lines.append("%s %s ? %s : %s" % (arrow, cond, tgt1, tgt2))
            if not lines:
                lines = ["<- A(k,0)"] if acc != "C" else []
            first = True
            for ln in lines:
                out.append(("  %-5s %s %s" % (kw, name, ln)) if first else ("           %s" % ln))
                first = False
            if not lines:
                out.append("  %-5s %s" % (kw, name))
        out.append("BODY")
        out.append("    (void)k;")
        out.append("END")
        out.append("")
    txt = "\n".join(out) + "\n"
    if malformed and malformed.startswith("unbound-"):
        # an extra control flow of the first class carries the unbound identifier kk at the named position
        tgt = {"unbound-guard": "(kk % 97) == 0 ? ZZ F0(k-1)",
               "unbound-arg":   "(k % 97) == 0 ? ZZ F0(kk-1)",
               "unbound-then":  "(k % 97) == 0 ? ZZ F0((k > 0) ? kk : k-1)",
               "unbound-else":  "(k % 97) == 0 ? ZZ F0((k > 0) ? k-1 : kk)"}[malformed]
        txt = txt.replace("BODY", "  CTL   ZZ <- %s\n              -> (k %% 97) == 1 ? ZZ F0(k+1)\nBODY" % tgt, 1)
    if malformed == "syntax":
        txt = txt.replace("BODY", "BODDY", 1)
    elif malformed == "paren":
        txt = txt.replace("k = 0 .. NT", "k = (0 .. NT", 1)
    elif malformed == "unbound":
        txt = txt.replace("k = 0 .. NT", "k = 0 .. NTX", 1)
    return txt


def ldefs(dep):
    return tuple(dep[2:5]) if len(dep) >= 5 else (0, 0, 0)


def dep_token(dep):
    l = ldefs(dep)
    return dep[0] + dep[1] + ((".%d.%d.%d" % l) if any(l) else "")


def case_text(prog, malformed=None):
    """one-line model case: M | nloc : acc deps ; acc deps ; ... / nloc : ...   deps as e.g. iu ib it ou"""
    fs = []
    for (nloc, flows) in prog:
        fl = []
        for (acc, deps) in flows:
            fl.append(acc + " " + " ".join(dep_token(dep) for dep in deps))
        fs.append("%d : %s" % (nloc, " ; ".join(fl)))
    return "%s | %s" % (malformed or "ok", " / ".join(fs))


def parse_case(line):
    head, body = line.split("|", 1)
    mal = head.strip()
    prog = []
    for ftxt in body.split("/"):
        nl, fl = ftxt.split(":", 1)
        flows = []
        for x in fl.split(";"):
            w = x.split()
            if not w:
                continue
            deps = []
            for t in w[1:]:
                x = t.split(".")
                deps.append((t[0], t[1]) if len(x) == 1 else (t[0], t[1], int(x[1]), int(x[2]), int(x[3])))
            flows.append((w[0], deps))
        prog.append((int(nl), flows))
    return (None if mal == "ok" else mal), prog
