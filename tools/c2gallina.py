#!/usr/bin/env python3
"""c2gallina.py — regenerate Gallina definitions of small pure integer C functions from the
repository's current source (DESIGN.md 2.4).

  c2gallina.py --repo /repo --build <pbuild> --file parsec/remote_dep.c \
               --fn f1 --fn f2 --module Gen_bcast --out coq/theories/Gen/Gen_bcast.v [--fuel 40]

The C text is parsed by clang (-Xclang -ast-dump=json); the translator accepts a fixed subset:
  * parameters and locals of integer type; member expressions / pointer derefs of integer type
    are treated as extra read-only inputs named after their access path (a->b.c  ~>  a_b_c);
  * expressions: integer literals, + - * / % << >> & | ^ ~ ! - (unary), comparisons, && || ?:,
    sizeof(int-like), integral casts, calls to other functions translated in the same run;
  * statements: declarations, assignments (= and op=, ++/--), if/else, return, for/while with
    break/continue (-> a fuelled Fixpoint over all live variables), (void) casts, empty statements.
Anything else is REFUSED (exit status 3): a refusal is a broken obligation, never a pass.

Semantics emitted (over Z): signed arithmetic is exact (no-overflow is a hypothesis of the
theorems); '/' and '%' are Z.quot and Z.rem (C truncation); shifts are Z.shiftl/Z.shiftr; results
of unsigned 32/64-bit +,-,*,<<,~ and unary minus are reduced mod 2^32 / 2^64; comparisons yield
0/1; a loop that runs out of fuel makes the function return the distinguished value OUT_OF_FUEL
(-(2^62)), which the theorems exclude.
Trusted: clang's AST, this translator, the subset semantics above.
"""
import argparse, re
import json
import os
import subprocess
import sys

OUT_OF_FUEL = "(- (2 ^ 62))"


class Refuse(Exception):
    pass


def clang_ast(repo, build, cfile, fn):
    inc = ["-I" + os.path.join(build, "parsec/include"), "-I" + build,
           "-I" + os.path.join(repo, "parsec/include"), "-I" + repo,
           "-I/usr/lib/x86_64-linux-gnu/openmpi/include", "-I/usr/lib/x86_64-linux-gnu/openmpi/include/openmpi"]
    cmd = ["clang", "-fsyntax-only", "-Xclang", "-ast-dump=json", "-Xclang", "-ast-dump-filter=" + fn,
           "-std=gnu11", "-DNDEBUG", "-D_GNU_SOURCE", "-DBUILDING_PARSEC", "-mcx16", "-w"] + inc + \
          [os.path.join(repo, cfile)]
    p = subprocess.run(cmd, stdout=subprocess.PIPE, stderr=subprocess.PIPE, universal_newlines=True)
    s = p.stdout
    dec = json.JSONDecoder()
    i, objs = 0, []
    while i < len(s):
        while i < len(s) and s[i].isspace():
            i += 1
        if i >= len(s):
            break
        o, j = dec.raw_decode(s, i)
        objs.append(o)
        i = j
    for o in objs:
        if o.get("kind") == "FunctionDecl" and o.get("name") == fn and \
                any(c.get("kind") == "CompoundStmt" for c in o.get("inner", [])):
            return o
    raise Refuse("no definition of %s found in %s (clang rc=%d: %s)" % (fn, cfile, p.returncode, p.stderr[-300:]))


def qual(n):
    return n.get("type", {}).get("qualType", "")


def is_unsigned(t):
    t = t.replace("const ", "").strip()
    return t.startswith("unsigned") or t in ("uint32_t", "uint64_t", "uint8_t", "uint16_t", "size_t", "parsec_key_t")


def width(t):
    t = t.replace("const ", "").strip()
    if t in ("unsigned long", "unsigned long long", "uint64_t", "size_t", "long", "long long", "int64_t", "parsec_key_t"):
        return 64
    if t in ("unsigned char", "uint8_t", "char", "int8_t"):
        return 8
    if t in ("unsigned short", "uint16_t", "short", "int16_t"):
        return 16
    return 32


INT_TYPES = {"int", "unsigned int", "long", "unsigned long", "long long", "unsigned long long", "short",
             "unsigned short", "char", "unsigned char", "int32_t", "uint32_t", "int64_t", "uint64_t",
             "uint8_t", "int8_t", "uint16_t", "int16_t", "size_t", "unsigned", "parsec_key_t", "_Bool"}


def is_int_type(t):
    return t.replace("const ", "").replace("volatile ", "").strip() in INT_TYPES


class Fn:
    def __init__(self, node, known, fuel):
        self.node = node
        self.name = node["name"]
        self.known = known          # names of functions translated in this run
        self.fuel = fuel
        self.params = []
        self.extra = []             # access paths used as extra inputs
        self.aux = []               # auxiliary loop definitions (text)
        self.nloop = 0
        self.ids = {}               # clang decl id -> variable name

    # ---------------- expressions ----------------
    def wrap(self, txt, t):
        if is_unsigned(t):
            return "(Z.land %s (2 ^ %d - 1))" % (txt, width(t))
        return txt

    def path(self, n):
        """access path of a member / deref / array-subscript-with-literal expression"""
        k = n["kind"]
        if k == "DeclRefExpr":
            return n["referencedDecl"]["name"]
        if k in ("ImplicitCastExpr", "ParenExpr", "CStyleCastExpr"):
            return self.path(n["inner"][0])
        if k == "MemberExpr":
            return self.path(n["inner"][0]) + "_" + n["name"]
        if k == "UnaryOperator" and n["opcode"] == "*":
            return self.path(n["inner"][0]) + "_deref"
        raise Refuse("unsupported access path node " + k)

    def expr(self, n):
        """Gallina term of type Z"""
        k = n["kind"]
        if k == "IntegerLiteral":
            return "(%s)" % n["value"]
        if k == "CharacterLiteral":
            return "(%d)" % n["value"]
        if k in ("ParenExpr", "ConstantExpr"):
            return self.expr(n["inner"][0])
        if k in ("ImplicitCastExpr", "CStyleCastExpr"):
            ck = n.get("castKind")
            if ck in ("LValueToRValue", "NoOp"):
                return self.expr(n["inner"][0])
            if ck == "IntegralCast":
                inner = self.expr(n["inner"][0])
                src, dst = qual(n["inner"][0]), qual(n)
                if is_unsigned(dst) and not (is_unsigned(src) and width(src) <= width(dst)):
                    return "(Z.land %s (2 ^ %d - 1))" % (inner, width(dst))
                if (not is_unsigned(dst)) and (width(dst) < width(src) or (is_unsigned(src) and width(dst) == width(src))):
                    # implementation-defined in C; gcc/clang wrap in two's complement
                    return "(scast %d %s)" % (width(dst), inner)
                return inner
            if ck == "IntegralToBoolean":
                return "(if %s then 1 else 0)" % self.cond(n["inner"][0])
            raise Refuse("unsupported cast " + str(ck))
        if k == "DeclRefExpr":
            rd = n["referencedDecl"]
            if rd["kind"] in ("ParmVarDecl", "VarDecl"):
                if not is_int_type(qual(n)):
                    raise Refuse("non-integer variable %s : %s" % (rd["name"], qual(n)))
                if rd["id"] not in self.ids:
                    raise Refuse("reference to global or unknown variable " + rd["name"])
                return self.ids[rd["id"]]
            if rd["kind"] == "EnumConstantDecl":
                raise Refuse("enum constant %s (value not in the AST dump)" % rd["name"])
            raise Refuse("unsupported reference kind " + rd["kind"])
        if k == "MemberExpr" or (k == "UnaryOperator" and n["opcode"] == "*"):
            if not is_int_type(qual(n)):
                raise Refuse("non-integer member/deref of type " + qual(n))
            p = self.path(n)
            if p not in self.extra:
                self.extra.append(p)
            return p
        if k == "UnaryExprOrTypeTraitExpr" and n.get("name") == "sizeof":
            t = n.get("argType", {}).get("qualType")
            if t is None and n.get("inner"):
                t = qual(n["inner"][0])
            if t is None or not is_int_type(t):
                raise Refuse("sizeof of non-integer type " + str(t))
            return "(%d)" % (width(t) // 8)
        if k == "UnaryOperator":
            op = n["opcode"]
            a = n["inner"][0]
            if op == "-":
                return self.wrap("(- %s)" % self.expr(a), qual(n))
            if op == "+":
                return self.expr(a)
            if op == "~":
                if is_unsigned(qual(n)):
                    return "(Z.lxor %s (2 ^ %d - 1))" % (self.expr(a), width(qual(n)))
                return "(Z.lnot %s)" % self.expr(a)
            if op == "!":
                return "(if %s then 0 else 1)" % self.cond(a)
            raise Refuse("unary operator %s in expression position" % op)
        if k == "BinaryOperator":
            op = n["opcode"]
            a, b = n["inner"]
            t = qual(n)
            if op in ("+", "-", "*"):
                return self.wrap("(%s %s %s)" % (self.expr(a), op, self.expr(b)), t)
            if op == "/":
                return "(Z.quot %s %s)" % (self.expr(a), self.expr(b))
            if op == "%":
                return "(Z.rem %s %s)" % (self.expr(a), self.expr(b))
            if op == "<<":
                return self.wrap("(Z.shiftl %s %s)" % (self.expr(a), self.expr(b)), t)
            if op == ">>":
                return "(Z.shiftr %s %s)" % (self.expr(a), self.expr(b))
            if op == "&":
                return "(Z.land %s %s)" % (self.expr(a), self.expr(b))
            if op == "|":
                return "(Z.lor %s %s)" % (self.expr(a), self.expr(b))
            if op == "^":
                return "(Z.lxor %s %s)" % (self.expr(a), self.expr(b))
            if op in ("==", "!=", "<", "<=", ">", ">=", "&&", "||"):
                return "(if %s then 1 else 0)" % self.cond(n)
            if op == ",":
                raise Refuse("comma operator")
            raise Refuse("binary operator %s in expression position" % op)
        if k == "ConditionalOperator":
            c, a, b = n["inner"]
            return "(if %s then %s else %s)" % (self.cond(c), self.expr(a), self.expr(b))
        if k == "CallExpr":
            callee = n["inner"][0]
            while callee["kind"] in ("ImplicitCastExpr", "ParenExpr"):
                callee = callee["inner"][0]
            if callee["kind"] != "DeclRefExpr":
                raise Refuse("indirect call")
            name = callee["referencedDecl"]["name"]
            if name not in self.known:
                raise Refuse("call to %s, which is not translated in this run" % name)
            args = " ".join(self.expr(a) for a in n["inner"][1:])
            self.calls = getattr(self, "calls", set()) | {name}
            return "(%s %s)" % (name, args)
        raise Refuse("unsupported expression node " + k)

    def cond(self, n):
        """Gallina term of type bool"""
        k = n["kind"]
        if k == "ParenExpr":
            return self.cond(n["inner"][0])
        if k == "ImplicitCastExpr" and n.get("castKind") in ("LValueToRValue", "NoOp", "IntegralCast", "IntegralToBoolean"):
            if n.get("castKind") in ("IntegralCast", "IntegralToBoolean") or n["inner"][0]["kind"] in ("ParenExpr", "BinaryOperator", "UnaryOperator"):
                return self.cond(n["inner"][0])
        if k == "BinaryOperator":
            op = n["opcode"]
            a, b = n["inner"]
            m = {"==": "Z.eqb", "<": "Z.ltb", "<=": "Z.leb", ">": "Z.gtb", ">=": "Z.geb"}
            if op in m:
                return "(%s %s %s)" % (m[op], self.expr(a), self.expr(b))
            if op == "!=":
                return "(negb (Z.eqb %s %s))" % (self.expr(a), self.expr(b))
            if op == "&&":
                return "(andb %s %s)" % (self.cond(a), self.cond(b))
            if op == "||":
                return "(orb %s %s)" % (self.cond(a), self.cond(b))
        if k == "UnaryOperator" and n["opcode"] == "!":
            return "(negb %s)" % self.cond(n["inner"][0])
        return "(negb (Z.eqb %s 0))" % self.expr(n)

    # ---------------- statements ----------------
    def assign_target(self, n):
        while n["kind"] in ("ParenExpr",):
            n = n["inner"][0]
        if n["kind"] != "DeclRefExpr" or n["referencedDecl"]["id"] not in self.ids:
            raise Refuse("assignment to something that is not a local integer variable")
        if not is_int_type(qual(n)):
            raise Refuse("assignment to non-integer variable")
        return self.ids[n["referencedDecl"]["id"]], qual(n)

    def flatten(self, n):
        if n is None or n == {} or "kind" not in n:
            return []
        if n["kind"] == "CompoundStmt":
            out = []
            for c in n.get("inner", []):
                out += self.flatten(c)
            return out
        if n["kind"] == "NullStmt":
            return []
        return [n]

    def stmts(self, ss, env, k_fall, k_break=None, k_cont=None):
        """translate a statement list; env = list of live variable names (Gallina binders in scope);
        k_fall(env) -> term for falling off the end; k_break / k_cont likewise inside loops"""
        if not ss:
            return k_fall(env)
        s, rest = ss[0], ss[1:]
        k = s["kind"]
        go = lambda e: self.stmts(rest, e, k_fall, k_break, k_cont)
        if k == "CompoundStmt":
            return self.stmts(self.flatten(s) + rest, env, k_fall, k_break, k_cont)
        if k == "NullStmt":
            return go(env)
        if k in ("ParenExpr", "CStyleCastExpr") and qual(s) == "void":
            return go(env)          # (void)x; and assert() under NDEBUG
        if k == "DeclStmt":
            txt_open, env2 = "", list(env)
            for d in s["inner"]:
                if d["kind"] != "VarDecl" or not is_int_type(qual(d)):
                    raise Refuse("declaration of non-integer local %s : %s" % (d.get("name"), qual(d)))
                name = d["name"]
                init = "(0)"
                if d.get("inner"):
                    init = self.expr(d["inner"][0])
                    if is_unsigned(qual(d)):
                        init = "(Z.land %s (2 ^ %d - 1))" % (init, width(qual(d)))
                self.ids[d["id"]] = name
                txt_open += "let %s := %s in\n" % (name, init)
                if name not in env2:
                    env2.append(name)
            return txt_open + self.stmts(rest, env2, k_fall, k_break, k_cont)
        if k == "BinaryOperator" and s["opcode"] == "=":
            v, t = self.assign_target(s["inner"][0])
            return "let %s := %s in\n%s" % (v, self.expr(s["inner"][1]), go(env))
        if k == "CompoundAssignOperator":
            v, t = self.assign_target(s["inner"][0])
            op = s["opcode"][:-1]
            fake = {"kind": "BinaryOperator", "opcode": op, "type": {"qualType": t},
                    "inner": [{"kind": "ImplicitCastExpr", "castKind": "LValueToRValue", "type": {"qualType": t},
                               "inner": [s["inner"][0]]}, s["inner"][1]]}
            return "let %s := %s in\n%s" % (v, self.expr(fake), go(env))
        if k == "UnaryOperator" and s["opcode"] in ("++", "--"):
            v, t = self.assign_target(s["inner"][0])
            e = self.wrap("(%s %s 1)" % (v, "+" if s["opcode"] == "++" else "-"), t)
            return "let %s := %s in\n%s" % (v, e, go(env))
        if k == "ReturnStmt":
            if not s.get("inner"):
                raise Refuse("return without value")
            return self.expr(s["inner"][0])
        if k == "BreakStmt":
            if k_break is None:
                raise Refuse("break outside a loop")
            return k_break(env)
        if k == "ContinueStmt":
            if k_cont is None:
                raise Refuse("continue outside a loop")
            return k_cont(env)
        if k == "IfStmt":
            inner = s["inner"]
            c = self.cond(inner[0])
            a = self.flatten(inner[1])
            b = self.flatten(inner[2]) if len(inner) > 2 else []
            ta = self.stmts(a + rest, list(env), k_fall, k_break, k_cont)
            tb = self.stmts(b + rest, list(env), k_fall, k_break, k_cont)
            return "(if %s\n then %s\n else %s)" % (c, ta, tb)
        if k in ("ForStmt", "WhileStmt"):
            if k == "ForStmt":
                init, _, cnd, inc, body = s["inner"]
            else:
                init, cnd, inc, body = {}, s["inner"][0], {}, s["inner"][1]
            pre = self.flatten(init) if init and "kind" in init else []
            # translate the init statements first (they may declare the counter)
            def after_init(env1):
                self.nloop += 1
                lname = "%s_loop%d" % (self.name, self.nloop)
                vars_ = list(env1)
                pack = lambda e: "(CNext [%s])" % "; ".join(e)
                recur = lambda e: "(%s fuel %s)" % (lname, " ".join(e))
                def k_continue(e):
                    incs = self.flatten(inc) if inc and "kind" in inc else []
                    return self.stmts(incs, [x for x in e if x in vars_], lambda e2: recur(vars_), None, None)
                bodytxt = self.stmts(self.flatten(body), list(vars_), k_continue,
                                     lambda e: pack(vars_), k_continue)
                condtxt = self.cond(cnd) if cnd and "kind" in cnd else "true"
                # inside the loop body a `return e` must be wrapped: handled by RET marker below
                aux = ("Fixpoint %s (fuel : nat) %s : cres :=\n  match fuel with\n  | O => CFuel\n  | S fuel =>\n"
                       "    if %s\n    then %s\n    else %s\n  end.\n") % (
                    lname, " ".join("(%s : Z)" % v for v in vars_), condtxt, bodytxt, pack(vars_))
                self.aux.append(aux)
                resttxt = self.stmts(rest, list(vars_), k_fall, k_break, k_cont)
                return ("match %s (%s) %s with\n | CRet r => %s\n | CNext [%s] => %s\n | _ => %s\n end" % (
                    lname, self.fuel, " ".join(vars_), "r" if k_break is None else "(CRET_IN_LOOP r)",
                    "; ".join(vars_), resttxt, OUT_OF_FUEL if k_break is None else "CFuel"))
            return self.stmts(pre, env, after_init, None, None)
        raise Refuse("unsupported statement node " + k)

    def translate(self):
        body = None
        for c in self.node.get("inner", []):
            if c["kind"] == "ParmVarDecl":
                if not is_int_type(qual(c)):
                    # pointer/struct parameters are allowed only through access paths
                    self.ids[c["id"]] = None
                    continue
                self.params.append(c["name"])
                self.ids[c["id"]] = c["name"]
            elif c["kind"] == "CompoundStmt":
                body = c
        if body is None:
            raise Refuse("no body")
        self.in_loop = False
        txt = self.stmts_top(body)
        allp = self.params + self.extra
        hdr = "Definition %s %s : Z :=\n" % (self.name, " ".join("(%s : Z)" % p for p in allp)) if allp else \
              "Definition %s : Z :=\n" % self.name
        return "".join(self.aux) + hdr + txt + ".\n"

    def translate_locals(self, names):
        """translate the initialisers of the named local variables of the function (the formula
        fragments of a larger function that is not translatable as a whole): one Definition
        <fn>__<var> per variable, parameters = the integer locals/parameters it mentions, then the
        values it reads through pointers"""
        decls = []

        def walk(n):
            if isinstance(n, dict):
                if n.get("kind") in ("ParmVarDecl", "VarDecl") and "id" in n:
                    decls.append(n)
                for c in n.get("inner", []) or []:
                    walk(c)
        walk(self.node)
        order = []
        for d in decls:
            self.ids[d["id"]] = d["name"]
            if d["name"] not in order:
                order.append(d["name"])
        out = ""
        for v in names:
            cand = [d for d in decls if d["name"] == v and d.get("init") and d.get("inner")]
            if len(cand) != 1:
                raise Refuse("%d initialised declarations of local %s in %s" % (len(cand), v, self.name))
            if not is_int_type(qual(cand[0])):
                raise Refuse("local %s is not an integer" % v)
            self.extra = []
            body = self.expr(cand[0]["inner"][0])
            used = [x for x in order if x != v and re.search(r"(?<![A-Za-z0-9_])%s(?![A-Za-z0-9_])" % re.escape(x), body)
                    and x not in self.extra]
            allp = used + self.extra
            out += "\n(* %s, local %s : parameters %s *)\n" % (self.name, v, ", ".join(allp) or "-")
            out += "Definition %s__%s %s : Z :=\n%s.\n" % (self.name, v, " ".join("(%s : Z)" % q for q in allp), body)
        return out

    def stmts_top(self, body):
        # returns inside loops produce `CRet e`; at top level they produce `e`.  We translate loop
        # bodies with a patched ReturnStmt handler by temporarily switching a flag.
        return self.stmts(self.flatten(body), list(self.params), lambda e: OUT_OF_FUEL)


# returns inside loop bodies must yield `CRet e`: patch by wrapping Fn.stmts for loop bodies
_orig_stmts = Fn.stmts


def _stmts(self, ss, env, k_fall, k_break=None, k_cont=None):
    if ss and ss[0]["kind"] == "ReturnStmt" and k_break is not None:
        if not ss[0].get("inner"):
            raise Refuse("return without value")
        return "(CRet %s)" % self.expr(ss[0]["inner"][0])
    return _orig_stmts(self, ss, env, k_fall, k_break, k_cont)


Fn.stmts = _stmts

PRELUDE = """(* GENERATED by tools/c2gallina.py from %s — do not edit; regenerated on every run. *)
From Coq Require Import ZArith List Bool.
Import ListNotations.
Local Open Scope Z_scope.
Inductive cres := CRet (v : Z) | CNext (e : list Z) | CFuel.
(* conversion to a signed type of w bits (two's-complement wrap, as gcc and clang do) *)
Definition scast (w x : Z) : Z := (x + 2 ^ (w - 1)) mod 2 ^ w - 2 ^ (w - 1).
"""


def main():
    ap = argparse.ArgumentParser()
    ap.add_argument("--repo", default="/repo")
    ap.add_argument("--build", required=True)
    ap.add_argument("--file", required=True)
    ap.add_argument("--fn", action="append", required=True)
    ap.add_argument("--out", required=True)
    ap.add_argument("--fuel", default="70%nat")
    ap.add_argument("--locals", action="append", default=[],
                    help="fn:var1,var2 — translate the initialisers of these locals of fn instead of the whole function")
    a = ap.parse_args()
    try:
        out = PRELUDE % (a.file + " : " + ", ".join(a.fn))
        known = []
        loc = dict((x.split(":")[0], x.split(":")[1].split(",")) for x in a.locals)
        for fn in a.fn:
            node = clang_ast(a.repo, a.build, a.file, fn)
            f = Fn(node, set(known), a.fuel)
            if fn in loc:
                out += f.translate_locals(loc[fn])
                continue
            txt = f.translate()
            if "CRET_IN_LOOP" in txt:
                raise Refuse("return inside a nested loop")
            out += "\n(* %s : parameters %s%s *)\n" % (fn, ", ".join(f.params) or "-",
                                                      ("; inputs read through pointers: " + ", ".join(f.extra)) if f.extra else "")
            out += txt
            known.append(fn)
    except Refuse as e:
        sys.stderr.write("c2gallina: REFUSED: %s\n" % e)
        sys.exit(3)
    old = open(a.out).read() if os.path.exists(a.out) else None
    if old != out:
        os.makedirs(os.path.dirname(a.out), exist_ok=True)
        with open(a.out, "w") as f:
            f.write(out)
    sys.exit(0)


if __name__ == "__main__":
    main()
