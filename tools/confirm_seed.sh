#!/bin/sh
# tools/confirm_seed.sh <id> [script] : confirm a seeded change in its scratch worktree /tmp/seedwt-<id>:
# the demonstration passes on the clean tree, fails with the patch; tree restored afterwards.
id=$1; s=${2:-run.sh}; wt=/tmp/seedwt-$id; d=/tmp/seed-$id
git -C $wt checkout -q -- .
[ -d $wt/_b ] && cmake --build $wt/_b --target parsec parsec-ptgpp -j 4 > $d/confirm_build0.log 2>&1
(cd $d && timeout 2400 bash $d/$s > $d/confirm_clean.log 2>&1); c=$?
git -C $wt apply $d/patch.diff || { echo "$id: patch does not apply"; exit 2; }
[ -d $wt/_b ] && cmake --build $wt/_b --target parsec parsec-ptgpp -j 4 > $d/confirm_build1.log 2>&1
(cd $d && timeout 2400 bash $d/$s > $d/confirm_patched.log 2>&1); p=$?
git -C $wt checkout -q -- .
echo "$id: demo clean rc=$c patched rc=$p"
