#!/usr/bin/env python3
"""tools/mkseedprompt.py Cnn [k] — print the prompt for a fresh seeding sub-agent (property text only)."""
import json, sys, os
V = os.path.dirname(os.path.dirname(os.path.abspath(__file__)))
pid = sys.argv[1]
k = sys.argv[2] if len(sys.argv) > 2 else "a"
for l in open(os.path.join(V, "properties.jsonl")):
    p = json.loads(l)
    if p["id"] == pid:
        break
else:
    sys.exit("no such property")
text = "%s — %s\n  Statement: %s\n  It must hold for: %s\n  Code involved (paths in the repository): %s" % (
    p["id"], p["title"], p["statement"], p["quantifier"]["text"], ", ".join(p["anchors"]["files"]))
t = open(os.path.join(V, "notes/prompts/SEED_TEMPLATE.md")).read()
t = t[t.index("You are given a scratch git worktree"):]
wt = "/tmp/seedwt-%s%s" % (pid, k)
print(t.replace("{WT}", wt).replace("{ID}", pid + k).replace("{PROPERTY_TEXT}", text))
