#!/usr/bin/env python3
"""tools/mkseedtable.py — regenerate the table of DESIGN.md section 9 from seeded/*/meta.json"""
import json, os, re, glob
V = os.path.dirname(os.path.dirname(os.path.abspath(__file__)))
rows = []
for d in sorted(glob.glob(os.path.join(V, "seeded", "*"))):
    try:
        m = json.load(open(os.path.join(d, "meta.json")))
    except Exception:
        continue
    sid = os.path.basename(d)
    def one(x, n):
        x = " ".join(str(x).split())
        return (x[:n] + "…") if len(x) > n else x
    files = m.get("files_changed") or []
    if isinstance(files, str):
        files = [files]
    files = ", ".join(os.path.basename(str(f)) for f in files)[:60]
    c = m.get("confirmed_by_lead", {})
    rows.append("| %s | %s | %s | %s | %s |" % (sid, files, one(m.get("summary", ""), 230).replace("|", "/"),
                                             one(m.get("needs_to_manifest", ""), 200).replace("|", "/"),
                                             one(c.get("result", ""), 330).replace("|", "/")))
hdr = ("| id | file(s) | change | needs to manifest | result of the check |\n|----|---------|--------|-------------------|---------------------|\n")
p = os.path.join(V, "DESIGN.md")
s = open(p).read()
sec = s.index("## 9. Seeded changes")
a = s.index("| id | ", sec)
b = s.index("\n\n", a) if "\n\n" in s[a:] else len(s)
s = s[:a] + hdr + "\n".join(rows) + s[b:]
open(p, "w").write(s)
print(len(rows), "seeds")
