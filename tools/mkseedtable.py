#!/usr/bin/env python3
"""tools/mkseedtable.py — regenerate the table of DESIGN.md section 9 from seeded/*/meta.json"""
import json, os, re, glob
V = os.path.dirname(os.path.dirname(os.path.abspath(__file__)))
rows = []
for d in sorted(glob.glob(os.path.join(V, "seeded", "*"))):
    try:
        m = json.load(open(os.path.join(d, "meta.json")))
    except Exception:
        continue
    sid = os.path.basename(d)
    def one(x, n):
        x = " ".join(str(x).split())
        return (x[:n] + "…") if len(x) > n else x
    files = m.get("files_changed") or []
    if isinstance(files, str):
        files = [files]
    files = ", ".join(os.path.basename(str(f)) for f in files)[:60]
    c = m.get("confirmed_by_lead", {})
    rows.append("| %s | %s | %s | %s | %s |" % (sid, files, one(m.get("summary", ""), 230).replace("|", "/"),
                                             one(m.get("needs_to_manifest", ""), 200).replace("|", "/"),
                                             one(c.get("result", ""), 330).replace("|", "/")))
def cat(r):
    r0 = r.lower()
    if r0.startswith("caught after") or r0.startswith("missed at first") or "initially missed" in r0:
        return "after"
    if "no-failing-input-found" in r0 and not r0.startswith("caught after"):
        return "corr"
    return "first"
cats = {"first": 0, "after": 0, "corr": 0}
for d in sorted(glob.glob(os.path.join(V, "seeded", "*"))):
    try:
        cats[cat(json.load(open(os.path.join(d, "meta.json"))).get("confirmed_by_lead", {}).get("result", ""))] += 1
    except Exception:
        pass
summary = ("Summary (generated): %d seeded changes kept; %d reported with a failing input by the check as it stood when the change "
           "arrived; %d missed or reported only as a broken correspondence at first and reported with a failing input after the "
           "check was strengthened (the strengthening is described in the last column); %d still reported only as a broken "
           "obligation (`no-failing-input-found`).\n\n" % (sum(cats.values()), cats["first"], cats["after"], cats["corr"]))
hdr = ("| id | file(s) | change | needs to manifest | result of the check |\n|----|---------|--------|-------------------|---------------------|\n")
p = os.path.join(V, "DESIGN.md")
s = open(p).read()
sec = s.index("## 9. Seeded changes")
a = s.index("| id | ", sec)
if "Summary (generated):" in s[sec:a]:
    a0 = s.index("Summary (generated):", sec)
    s = s[:a0] + s[a:]
    a = s.index("| id | ", sec)
s = s[:a] + summary + s[a:]
a = s.index("| id | ", sec)
b = s.index("\n\n", a) if "\n\n" in s[a:] else len(s)
s = s[:a] + hdr + "\n".join(rows) + s[b:]
open(p, "w").write(s)
print(len(rows), "seeds")
