#!/bin/sh
# tools/run_all.sh [tier] : run every enabled check on /repo sequentially, rewrite evidence, report rc and wall time
tier=${1:-quick}; cd /verif
for c in $(cat checks/ENABLED); do
  s=$(date +%s); VERIF_SEED=${VERIF_SEED:-1} timeout 3600 bin/check $c --tier $tier > /tmp/all_$c.out 2>&1; rc=$?; e=$(date +%s)
  echo "$c rc=$rc $((e-s))s viol=$(grep -c '^VIOLATION' /tmp/all_$c.out) known=$(grep -c '^KNOWN-FINDING' /tmp/all_$c.out)"
done
