"""Typed-flow PTG programs for property C18 (component reshape): case language, JDF printer,
random generator.  Stdlib only; rng is a vcheck.Rng.

A program is a list of task classes over one collection descA of tiles of mb x mb elements
of esz bytes.  Class c has instances (k, r), k = 0..NT-1, r = 0..R_c-1; instance (k, r) is
placed on ( : descA(tile) ) and may write back to its own tile
        tile(c, k, r) = base_c + k * R_c + r,      base_c = sum_{d < c} NT * R_d.
Every class has ONE data flow A.
  input   D ty td          A <- descA(tile(c,k,r))            [type = ty  type_data = td]
          T p sh ti tri     A <- A Cp((k + sh) % NT, 0)        [type = ti  type_remote = tri]
  outputs E q to tro        A -> A Cq((k + NT - sh_q) % NT, 0 .. R_q-1)  [type = to  type_remote = tro]
          M ty td           A -> descA(tile(c,k,r))            [type = ty  type_data = td]
          F q to tro        A -> B Cq((k + NT - sh2_q) % NT, 0 .. R_q-1) [type = to  type_remote = tro]
in the textual order of the case (ptgpp regroups them by local type).
A class may have a SECOND data flow   READ B <- A Cp((k + sh2) % NT, 0) [type = ti2 type_remote = tri2]
(no outputs; "B bfirst p sh2 ti2 tri2" after the outputs; bfirst = 1: B is declared before A, which
gives B flow index 0 when A has no output) and CONTROL inputs from gate classes ("G n g..":
CTL gin_g <- gout Cg(k), Cg has R = 1): the task is then made ready by a control flow and every
data input is looked up again at execution time.
Shapes: 0 none (attribute absent), 1 FULL (the name DEFAULT), 2 LOWER, 3 UPPER (with the
diagonal), 4 LOWS, 5 UPPS (without).  Only classes with R = 1 have consumers.

Case line:
  R nranks short mt cores M mb esz N NT O ntiles o.. C nc { c R mode modify  in  nouts {out} } [T bcast]
  bcast: broadcast topology of the run (runtime_comm_coll_bcast: 0 star = default here, 1 chain, 2 binomial)
  mode: W (RW flow) | R (READ flow);  modify: the body xors every byte of the tile with c+1.
"""

TNAMES = ["-", "DEFAULT", "LOWER_TILE", "UPPER_TILE", "LOWS_TILE", "UPPS_TILE"]
SHORT = ["-", "FULL", "LOWER", "UPPER", "LOWS", "UPPS"]


class Cls:
    def __init__(self, R=1, mode="W", modify=0, inp=None, outs=None):
        self.R, self.mode, self.modify = R, mode, modify
        self.inp = inp          # ('D', ty, td) | ('T', p, sh, ti, tri)
        self.outs = outs or []  # ('E', q, to, tro) | ('F', q, to, tro) | ('M', ty, td)
        self.inp2 = None        # None | (bfirst, p, sh, ti, tri): second data flow B
        self.gates = []         # classes whose control flow gates this one

    def fidx_a(self):
        return 1 if (self.inp2 and self.inp2[0] and not self.outs) else 0

    def fidx_b(self):
        return 1 - self.fidx_a()


class Prog:
    def __init__(self):
        self.nranks, self.short, self.mt, self.cores = 1, 1, 0, 2
        self.mb, self.esz, self.nt = 3, 4, 1
        self.bcast = 0      # runtime_comm_coll_bcast: 0 star, 1 chain, 2 binomial (trailing "T n" of the case, star when absent)
        self.owner = []
        self.classes = []

    def base(self, c):
        return sum(self.nt * d.R for d in self.classes[:c])

    def ntiles(self):
        return self.base(len(self.classes))

    def tile(self, c, k, r):
        return self.base(c) + k * self.classes[c].R + r

    def rank_of(self, c, k, r):
        return self.owner[self.tile(c, k, r)] % self.nranks


def to_case(p):
    w = ["R", p.nranks, p.short, p.mt, p.cores, "M", p.mb, p.esz, "N", p.nt, "O", len(p.owner)] + list(p.owner)
    w += ["C", len(p.classes)]
    for c in p.classes:
        w += ["c", c.R, c.mode, c.modify] + list(c.inp) + [len(c.outs)]
        for o in c.outs:
            w += list(o)
        if c.inp2:
            w += ["B"] + list(c.inp2)
        if c.gates:
            w += ["G", len(c.gates)] + list(c.gates)
    if p.bcast:
        w += ["T", p.bcast]
    return " ".join(str(x) for x in w)


def parse_case(line):
    t = line.split()
    pos = [0]

    def nx():
        pos[0] += 1
        return t[pos[0] - 1]

    def ni():
        return int(nx())

    def expect(s):
        x = nx()
        if x != s:
            raise ValueError("expected %s got %s" % (s, x))
    p = Prog()
    expect("R"); p.nranks, p.short, p.mt, p.cores = ni(), ni(), ni(), ni()
    expect("M"); p.mb, p.esz = ni(), ni()
    expect("N"); p.nt = ni()
    expect("O"); n = ni(); p.owner = [ni() for _ in range(n)]
    expect("C"); nc = ni()
    for _ in range(nc):
        expect("c")
        c = Cls(ni(), nx(), ni())
        k = nx()
        if k == "D":
            c.inp = ("D", ni(), ni())
        elif k == "T":
            c.inp = ("T", ni(), ni(), ni(), ni())
        else:
            raise ValueError("bad input kind " + k)
        for _ in range(ni()):
            k = nx()
            if k == "E":
                c.outs.append(("E", ni(), ni(), ni()))
            elif k == "F":
                c.outs.append(("F", ni(), ni(), ni()))
            elif k == "M":
                c.outs.append(("M", ni(), ni()))
            else:
                raise ValueError("bad output kind " + k)
        if pos[0] < len(t) and t[pos[0]] == "B":
            nx()
            c.inp2 = (ni(), ni(), ni(), ni(), ni())
        if pos[0] < len(t) and t[pos[0]] == "G":
            nx()
            c.gates = [ni() for _ in range(ni())]
        p.classes.append(c)
    if pos[0] < len(t) and t[pos[0]] == "T":
        nx()
        p.bcast = ni()
    if pos[0] != len(t):
        raise ValueError("trailing tokens")
    return p


def wf(p):
    """static well-formedness (None = fine, else why not)"""
    if not (1 <= p.nranks <= 4 and p.mb >= 1 and p.esz in (1, 4, 8) and p.nt >= 1 and p.classes):
        return "bad header"
    if len(p.owner) != p.ntiles():
        return "owner table has %d entries for %d tiles" % (len(p.owner), p.ntiles())
    for ci, c in enumerate(p.classes):
        if c.R < 1 or c.mode not in ("W", "R"):
            return "bad class %d" % ci
        if c.inp[0] == "T":
            _, q, sh, ti, tri = c.inp
            if not (0 <= q < ci) or not (0 <= sh < p.nt):
                return "class %d: bad producer" % ci
            if p.classes[q].R != 1:
                return "class %d: producer is replicated" % ci
            if sum(1 for o in p.classes[q].outs if o[0] == "E" and o[1] == ci) != 1:
                return "class %d: producer %d does not name it exactly once" % (ci, q)
        if c.inp2:
            bf, q, sh, ti, tri = c.inp2
            if not (0 <= q < ci) or not (0 <= sh < p.nt) or p.classes[q].R != 1:
                return "class %d: bad producer of flow B" % ci
            if sum(1 for o in p.classes[q].outs if o[0] == "F" and o[1] == ci) != 1:
                return "class %d: producer %d does not feed its flow B exactly once" % (ci, q)
            if bf and c.outs:
                return "class %d: B declared first but A has outputs" % ci
        for g in c.gates:
            if not (0 <= g < ci) or p.classes[g].R != 1:
                return "class %d: bad gate %d" % (ci, g)
        if len(set(c.gates)) != len(c.gates):
            return "class %d: gate named twice" % ci
        nm = 0
        for o in c.outs:
            if o[0] == "E":
                if not (ci < o[1] < len(p.classes)) or p.classes[o[1]].inp[0] != "T" or p.classes[o[1]].inp[1] != ci:
                    return "class %d: output to %d is not matched" % (ci, o[1])
                if c.R != 1:
                    return "class %d: replicated class with consumers" % ci
            elif o[0] == "F":
                if not (ci < o[1] < len(p.classes)) or not p.classes[o[1]].inp2 or p.classes[o[1]].inp2[1] != ci:
                    return "class %d: output to flow B of %d is not matched" % (ci, o[1])
                if c.R != 1:
                    return "class %d: replicated class with consumers" % ci
            else:
                nm += 1
                if c.mode != "W":
                    return "class %d: READ flow written back" % ci
        if nm > 1:
            return "class %d: two write-backs" % ci
        for kind in ("E", "F"):
            if len([o for o in c.outs if o[0] == kind]) != len({o[1] for o in c.outs if o[0] == kind}):
                return "class %d: consumer named twice" % ci
    return None


def _attrs(a, b, second):
    s = []
    if a:
        s.append("type = %s" % TNAMES[a])
    if b:
        s.append("%s = %s" % (second, TNAMES[b]))
    return ("  [" + " ".join(s) + "]") if s else ""


def to_jdf(p, name="rscase"):
    L = []
    L.append('extern "C" %{')
    L.append('#include "reshape_rt.h"')
    L.append("%}")
    L.append("")
    L.append('descA  [type = "parsec_data_collection_t*"]')
    L.append('NT     [type = "int"]')
    L.append("")
    for ci, c in enumerate(p.classes):
        base = p.base(ci)
        tile = "%d + k * %d + r" % (base, c.R)
        L.append("C%d(k, r)" % ci)
        L.append("k = 0 .. NT-1")
        L.append("r = 0 .. %d" % (c.R - 1))
        L.append(": descA(%s)" % tile)
        mode = "RW  " if c.mode == "W" else "READ"
        bline = None
        if c.inp2:
            bf, q2, sh2, ti2, tri2 = c.inp2
            bline = "READ B <- A C%d((k + %d) %% NT, 0)%s" % (q2, sh2, _attrs(ti2, tri2, "type_remote"))
            if bf:
                L.append(bline)
        if c.inp[0] == "D":
            first = "%s A <- descA(%s)%s" % (mode, tile, _attrs(c.inp[1], c.inp[2], "type_data"))
        else:
            _, q, sh, ti, tri = c.inp
            first = "%s A <- A C%d((k + %d) %% NT, 0)%s" % (mode, q, sh, _attrs(ti, tri, "type_remote"))
        L.append(first)
        for o in c.outs:
            if o[0] == "E":
                q = o[1]
                sh = p.classes[q].inp[2]
                L.append("       -> A C%d((k + NT - %d) %% NT, 0 .. %d)%s" % (q, sh, p.classes[q].R - 1, _attrs(o[2], o[3], "type_remote")))
            elif o[0] == "F":
                q = o[1]
                sh = p.classes[q].inp2[2]
                L.append("       -> B C%d((k + NT - %d) %% NT, 0 .. %d)%s" % (q, sh, p.classes[q].R - 1, _attrs(o[2], o[3], "type_remote")))
            else:
                L.append("       -> descA(%s)%s" % (tile, _attrs(o[1], o[2], "type_data")))
        if bline and not c.inp2[0]:
            L.append(bline)
        for g in c.gates:
            L.append("CTL  gin%d <- gout C%d(k, 0)" % (g, g))
        gated = [qi for qi, Q in enumerate(p.classes) if ci in Q.gates]
        for n, qi in enumerate(gated):
            L.append("%s -> gin%d C%d(k, 0 .. %d)" % ("CTL  gout" if n == 0 else "         ", ci, qi, p.classes[qi].R - 1))
        L.append("BODY")
        L.append("{")
        if c.inp2:
            L.append("    RS_BODY2(this_task, %d, k, r, _f_A, %d, _f_B);" % (ci, c.modify))
        else:
            L.append("    RS_BODY(this_task, %d, k, r, _f_A, %d);" % (ci, c.modify))
        L.append("}")
        L.append("END")
        L.append("")
    L.append('extern "C" %{')
    L.append("const int rs_case_ntiles = %d;" % p.ntiles())
    L.append("const int rs_case_mb = %d;" % p.mb)
    L.append("const int rs_case_esz = %d;" % p.esz)
    L.append("const int rs_case_nclasses = %d;" % len(p.classes))
    L.append("const int rs_case_owner[] = { %s };" % ", ".join(str(x) for x in p.owner))
    L.append("parsec_taskpool_t *rs_case_new(parsec_data_collection_t *D) {")
    L.append("    parsec_%s_taskpool_t *tp = parsec_%s_new(D, %d);" % (name, name, p.nt))
    L.append("    if (NULL == tp) return NULL;")
    for s in range(1, len(TNAMES)):
        L.append("#if defined(PARSEC_%s_%s_ADT_IDX)" % (name, TNAMES[s]))
        L.append("    tp->arenas_datatypes[PARSEC_%s_%s_ADT_IDX] = *rs_adt(%d);" % (name, TNAMES[s], s))
        L.append("#endif")
    L.append("    return (parsec_taskpool_t *)tp;")
    L.append("}")
    L.append("%}")
    return "\n".join(L) + "\n"


# ------------------------------------------------------------------ static structure helpers
def out_lt(o):
    return o[2] if o[0] in ("E", "F") else o[1]


def order_outs(outs):
    """the order parsec-ptgpp gives to the output dependencies of a flow: grouped by local [type] in order of
    first appearance, the untyped group first (jdf.c:jdf_reorder_dep_list_by_type)"""
    un = [o for o in outs if out_lt(o) == 0]
    ty = [o for o in outs if out_lt(o) != 0]
    res = []
    while ty:
        t = out_lt(ty[0])
        res += [o for o in ty if out_lt(o) == t]
        ty = [o for o in ty if out_lt(o) != t]
    return un + res


def succs(p, c, k):
    """successor instances of (c, k, 0) in the order of the generated iterate_successors:
    dicts q k r to tro ti tri rank"""
    res = []
    for o in order_outs(p.classes[c].outs):
        if o[0] not in ("E", "F"):
            continue
        q = o[1]
        Q = p.classes[q]
        if o[0] == "E":
            _, _, sh, ti, tri = Q.inp
            fl, flow = Q.fidx_a(), "A"
        else:
            _, _, sh, ti, tri = Q.inp2
            fl, flow = Q.fidx_b(), "B"
        kq = (k + p.nt - sh) % p.nt
        for r in range(Q.R):
            res.append({"q": q, "k": kq, "r": r, "to": o[2], "tro": o[3], "ti": ti, "tri": tri, "rank": p.rank_of(q, kq, r),
                        "fl": fl, "flow": flow})
    return res


def short_conflict(p):
    """the documented unsupported case: with short messages, two different messages (different
    (type, type_remote) groups) of one producer instance to the same remote rank"""
    for c, C in enumerate(p.classes):
        if C.R != 1:
            continue
        for k in range(p.nt):
            me = p.rank_of(c, k, 0)
            seen = {}
            for u in succs(p, c, k):
                if u["rank"] == me:
                    continue
                seen.setdefault(u["rank"], set()).add((u["to"], u["tro"]))
            if any(len(v) > 1 for v in seen.values()):
                return True
    return False


def chain_only(p, c):
    """class c and all its ancestors are the only successor of their producer (R = 1, one E output, no
    write-back on the producer): its body may modify the tile without racing with another reader"""
    while True:
        C = p.classes[c]
        if C.R != 1:
            return False
        if C.inp[0] == "D":
            return True
        q = C.inp[1]
        Q = p.classes[q]
        if len(Q.outs) != 1 or C.inp2 or Q.inp2:
            return False
        c = q


# ------------------------------------------------------------------------------ generator
def gen_program(rng, nranks=1, clean=False, maxcls=5):
    """random program; clean: every producer gives all its consumers the same output [type] (outside the
    stale-promise defect class, see notes/findings)"""
    p = Prog()
    p.nranks = nranks
    p.mb = rng.pick([2, 3, 3, 4, 5])
    p.esz = rng.pick([1, 4, 4, 8])
    p.nt = rng.pick([1, 1, 2, 3])
    ncls = rng.range(2, maxcls)
    # size classes of the shapes: remote edges keep the packed size (see C18.py assumptions)
    tri_shapes = [2, 3]
    stri_shapes = [4, 5]

    def any_shape():
        return rng.pick([0, 0, 1, 2, 2, 3, 3, 4, 5])
    root = Cls(1, "W", rng.pick([0, 0, 1]), ("D", rng.pick([0, 0, 0, 2, 3, 1]), rng.pick([0, 0, 0, 2, 3])), [])
    p.classes.append(root)
    for ci in range(1, ncls):
        cands = [i for i in range(ci) if p.classes[i].R == 1 and len([o for o in p.classes[i].outs if o[0] == "E"]) < 4]
        q = rng.pick(cands) if cands else 0
        Q = p.classes[q]
        sh = rng.below(p.nt)
        R = rng.pick([1, 1, 1, 2, 3])
        if clean:
            prev = [o for o in Q.outs if o[0] == "E"]
            to = prev[0][2] if prev else any_shape()
        else:
            to = any_shape()
        ti = rng.pick([0, 0, to, any_shape()])
        # remote attributes: absent, or a pair of the same packed size
        kind = rng.pick([0, 0, 1, 2, 3])
        if kind == 0:
            tro, tri = 0, 0
        elif kind == 1:
            tro, tri = rng.pick([(1, 1), (1, 0), (0, 1)])
        elif kind == 2:
            tro, tri = rng.pick(tri_shapes), rng.pick(tri_shapes)
        else:
            tro, tri = rng.pick(stri_shapes), rng.pick(stri_shapes)
        mode = rng.pick(["W", "W", "R"])
        c = Cls(R, mode, 0, ("T", q, sh, ti, tri), [])
        p.classes.append(c)
        Q.outs.insert(rng.below(len(Q.outs) + 1), ("E", ci, to, tro))
    # R > 1 only for leaves: reduce replicated classes that got consumers
    for c in p.classes:
        if any(o[0] == "E" for o in c.outs):
            c.R = 1
    # write-backs
    for c in p.classes:
        if c.mode == "W" and rng.chance(1, 2):
            c.outs.insert(rng.below(len(c.outs) + 1), ("M", rng.pick([0, 0, 2, 3, 1, 4]), rng.pick([0, 0, 2, 3, 5])))
    # bodies that modify their tile where no other task can observe the race
    for ci, c in enumerate(p.classes):
        if ci > 0 and chain_only(p, ci) and rng.chance(1, 2):
            c.modify = 1
    nt = p.ntiles()
    style = rng.below(4)
    if style == 0:
        p.owner = [0] * nt
    elif style == 1:
        p.owner = [i for i in range(nt)]
    elif style == 2:
        p.owner = [rng.below(4) for _ in range(nt)]
    else:   # per class
        p.owner = []
        for ci, c in enumerate(p.classes):
            o = rng.below(4)
            p.owner += [o] * (p.nt * c.R)
    p.cores = rng.pick([1, 2, 4])
    p.mt = rng.pick([0, 0, 1])
    p.short = 1
    assert wf(p) is None, wf(p)
    return p


def with_config(p, nranks, short, mt=None, cores=None):
    import copy
    q = copy.deepcopy(p)
    q.nranks, q.short = nranks, short
    if mt is not None:
        q.mt = mt
    if cores is not None:
        q.cores = cores
    return q


# ------------------------------------------------ the documented semantics (CHANGELOG.ptg.md), statically
def nsel(s, mb):
    """number of elements a shape selects in an mb x mb tile"""
    return {1: mb * mb, 2: mb * (mb + 1) // 2, 3: mb * (mb + 1) // 2, 4: mb * (mb - 1) // 2, 5: mb * (mb - 1) // 2}[s]


def expected_local(d, to, ti):
    p = d if (to == 0 or to == d) else to
    u = p if ti == 0 else ti
    return None if (p == d and u == d) else (p, u)


def declared(p):
    """type of the copy every instance holds according to the documentation, and whether every declared
    conversion fits (packs no more than it unpacks; remote: packs exactly what the receiver's type takes).
    -> (valid, why, {(c, k, r): dtt})"""
    dtt, own = {}, {}
    for ci, C in enumerate(p.classes):
        for k in range(p.nt):
            for r in range(C.R):
                me = p.rank_of(ci, k, r)
                if C.inp[0] == "D":
                    _, ty, td = C.inp
                    src, dst = (td or 1), (ty or td)
                    if (ty == 0 and td == 0) or dst == 1:
                        dtt[(ci, k, r)], own[(ci, k, r)] = 1, True
                    else:
                        if nsel(src, p.mb) > nsel(dst, p.mb):
                            return False, "C%d reads more than its type takes" % ci, dtt
                        dtt[(ci, k, r)], own[(ci, k, r)] = dst, False
                else:
                    _, q, sh, ti, tri = C.inp
                    pk_ = (q, (k + sh) % p.nt, 0)
                    d = dtt[pk_]
                    o = [x for x in p.classes[q].outs if x[0] == "E" and x[1] == ci][0]
                    if p.rank_of(*pk_) == me:
                        e = expected_local(d, o[2], ti)
                        if e is None:
                            dtt[(ci, k, r)] = d
                        else:
                            if nsel(e[0], p.mb) > nsel(e[1], p.mb):
                                return False, "C%d <- C%d packs more than it unpacks" % (ci, q), dtt
                            dtt[(ci, k, r)] = e[1]
                    else:
                        a, b = (o[3] or d), (tri or 1)
                        if nsel(a, p.mb) != nsel(b, p.mb):
                            return False, "C%d <- C%d remote sizes differ" % (ci, q), dtt
                        dtt[(ci, k, r)] = b
                    own[(ci, k, r)] = False
                if C.inp2:
                    _, q, sh, ti, tri = C.inp2
                    pk_ = (q, (k + sh) % p.nt, 0)
                    d = dtt[pk_]
                    o = [x for x in p.classes[q].outs if x[0] == "F" and x[1] == ci][0]
                    if p.rank_of(*pk_) == me:
                        e = expected_local(d, o[2], ti)
                        if e is not None and nsel(e[0], p.mb) > nsel(e[1], p.mb):
                            return False, "C%d.B <- C%d packs more than it unpacks" % (ci, q), dtt
                    else:
                        a, b = (o[3] or d), (tri or 1)
                        if nsel(a, p.mb) != nsel(b, p.mb):
                            return False, "C%d.B <- C%d remote sizes differ" % (ci, q), dtt
                for x in C.outs:
                    if x[0] == "M" and not own[(ci, k, r)]:
                        a, b = (x[1] or dtt[(ci, k, r)]), (x[2] or 1)
                        if nsel(a, p.mb) > nsel(b, p.mb):
                            return False, "C%d writes back more than the tile type takes" % ci, dtt
    return True, "", dtt


def mixed_outputs(p):
    """the situations in which the carried reshape promise of notes/findings/C18-stale-promise.md matters:
    a producer instance serves, on its OWN rank, successors through output dependencies of different [type]
    (stale promise, truncating conversion, NULL execution stream), or sends to another rank a message that is
    received PACKED (unfulfilled promises there) together with another message (NULL execution stream)"""
    for ci, C in enumerate(p.classes):
        if C.R != 1:
            continue
        for k in range(p.nt):
            me = p.rank_of(ci, k, 0)
            local, msgs = set(), {}
            for u in succs(p, ci, k):
                if u["rank"] == me:
                    local.add(u["to"])
                else:
                    msgs.setdefault(u["rank"], {}).setdefault((u["to"], u["tro"]), set()).add(u["tri"] or 1)
            if len(local) > 1:
                return True
            for m in msgs.values():
                if len(m) > 1 and any(len(v) > 1 for v in m.values()):
                    return True
    return False


def gen_twoflow(rng, nranks=2):
    """the family of the second data flow: one producer flow fans out copies of different type_remote (full, two
    triangles) to consumers on ONE other rank; consumers C / C2 receive the two triangles on two data flows declared
    in both orders (flow indices 0/1 and 1/0, the producer's flow has index 0), and are made ready by control flows
    from two gate tasks that consume the same copies, so that every data input is looked up again at execution time
    (the promise of the later message sits in the consumer's own repo entry, at the CONSUMER's flow index)."""
    p = Prog()
    p.nranks = nranks
    p.mb = rng.pick([2, 3, 3, 4])
    p.esz = rng.pick([1, 4, 4, 8])
    p.nt = rng.pick([1, 2, 2, 3])
    a, b = rng.pick([(2, 3), (3, 2), (2, 3), (4, 5)])
    swap = rng.chance(1, 2)          # which triangle goes to flow A of the consumers
    ta, tb = (b, a) if swap else (a, b)
    loc = rng.pick([0, 0, 0, 2])     # local [type] on some edges (remote path ignores it)
    sh = rng.below(p.nt)
    P0 = Cls(1, "W", rng.pick([0, 1]), ("D", 0, 0), [])
    p.classes = [P0]

    def single(t, mode="R"):
        ci = len(p.classes)
        p.classes.append(Cls(1, mode, 0, ("T", 0, sh, 0, t), []))
        P0.outs.append(("E", ci, 0, t))
        return ci
    if rng.chance(2, 3):
        single(rng.pick([0, 1]))                       # full-tile consumer: a third message
    ga, gb = single(ta), single(tb)                    # gates
    ncons = rng.pick([2, 2, 3])
    for n in range(ncons):
        ci = len(p.classes)
        c = Cls(rng.pick([1, 1, 2]), "R", 0, ("T", 0, sh, rng.pick([0, 0, loc]), ta), [])
        c.inp2 = (n % 2, 0, sh, 0, tb)                 # alternate the declaration order of A and B
        c.gates = rng.pick([[ga, gb], [ga, gb], [gb], [ga]])
        p.classes.append(c)
        P0.outs.append(("E", ci, 0, ta))
        P0.outs.append(("F", ci, 0, tb))
    P0.outs = rng.shuffle(P0.outs)
    if rng.chance(1, 3):
        P0.outs.insert(rng.below(len(P0.outs) + 1), ("M", 0, 0))
    # producer on rank 0, every consumer on rank 1 (one remote rank receives all the messages)
    p.owner = [0] * p.nt
    for c in p.classes[1:]:
        p.owner += [1] * (p.nt * c.R)
    p.cores = rng.pick([1, 2])
    p.mt = rng.pick([0, 0, 1])
    p.short = 0
    assert wf(p) is None, wf(p)
    return p


def single_message(p):
    """every producer instance sends ONE message (one (type, type_remote) group) to the other ranks: the situation in
    which a forwarding broadcast tree (chain, binomial) is usable here (two messages with different destination sets
    abort in the relay, finding F8 of C13)"""
    for ci, C in enumerate(p.classes):
        if C.R != 1:
            continue
        for k in range(p.nt):
            me = p.rank_of(ci, k, 0)
            if len({(u["to"], u["tro"]) for u in succs(p, ci, k) if u["rank"] != me}) > 1:
                return False
    return True


def gen_bcast(rng, nranks=3):
    """the family of the forwarding broadcast: ONE output dependency of a producer on rank 0 fans out over all the ranks
    (a replicated consumer class, 2 instances per rank), every consumer receives with the same type_remote, except an odd
    consumer (another class fed by the same message: same type and type_remote on the producer's side) placed on the
    rank that is an interior node of the chain / binomial tree (rank 1 for root 0) and declaring another reception type of
    the same packed size: that rank receives PACKED bytes and FORWARDS them; the consumers of the ranks behind it must
    still observe the producer's elements."""
    p = Prog()
    p.nranks = nranks
    p.mb = rng.pick([2, 3, 3, 4])
    p.esz = rng.pick([1, 4, 4, 8])
    p.nt = rng.pick([1, 1, 2])
    a, b = rng.pick([(2, 3), (3, 2), (2, 3), (4, 5), (5, 4)])
    tro = rng.pick([a, a, b])                 # what the producer packs
    R = 2 * nranks
    P0 = Cls(1, "W", rng.pick([0, 1]), ("D", 0, 0), [])
    many = Cls(R, "R", 0, ("T", 0, 0, 0, a), [])
    odd = Cls(1, "R", 0, ("T", 0, 0, 0, b), [])
    order = rng.pick([0, 1])
    p.classes = [P0, many, odd] if order == 0 else [P0, odd, many]
    im, io = (1, 2) if order == 0 else (2, 1)
    P0.outs = [("E", im, 0, tro), ("E", io, 0, tro)] if rng.chance(1, 2) else [("E", io, 0, tro), ("E", im, 0, tro)]
    owner = {0: [0] * p.nt}
    owner[im] = [(r % nranks) for k in range(p.nt) for r in range(R)]
    owner[io] = [1] * p.nt
    p.owner = owner[0] + owner[1] + owner[2]
    p.cores = 1
    p.mt = rng.pick([0, 0, 1])
    p.short = rng.pick([0, 1])
    p.bcast = rng.pick([1, 2])
    assert wf(p) is None, wf(p)
    return p
