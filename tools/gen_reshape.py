"""Typed-flow PTG programs for property C18 (component reshape): case language, JDF printer,
random generator.  Stdlib only; rng is a vcheck.Rng.

A program is a list of task classes over one collection descA of tiles of mb x mb elements
of esz bytes.  Class c has instances (k, r), k = 0..NT-1, r = 0..R_c-1; instance (k, r) is
placed on ( : descA(tile) ) and may write back to its own tile
        tile(c, k, r) = base_c + k * R_c + r,      base_c = sum_{d < c} NT * R_d.
Every class has ONE data flow A.
  input   D ty td          A <- descA(tile(c,k,r))            [type = ty  type_data = td]
          T p sh ti tri     A <- A Cp((k + sh) % NT, 0)        [type = ti  type_remote = tri]
  outputs E q to tro        A -> A Cq((k + NT - sh_q) % NT, 0 .. R_q-1)  [type = to  type_remote = tro]
          M ty td           A -> descA(tile(c,k,r))            [type = ty  type_data = td]
in the textual order of the case (ptgpp regroups them by local type).
Shapes: 0 none (attribute absent), 1 FULL (the name DEFAULT), 2 LOWER, 3 UPPER (with the
diagonal), 4 LOWS, 5 UPPS (without).  Only classes with R = 1 have consumers.

Case line:
  R nranks short mt cores M mb esz N NT O ntiles o.. C nc { c R mode modify  in  nouts {out} }
  mode: W (RW flow) | R (READ flow);  modify: the body xors every byte of the tile with c+1.
"""

TNAMES = ["-", "DEFAULT", "LOWER_TILE", "UPPER_TILE", "LOWS_TILE", "UPPS_TILE"]
SHORT = ["-", "FULL", "LOWER", "UPPER", "LOWS", "UPPS"]


class Cls:
    def __init__(self, R=1, mode="W", modify=0, inp=None, outs=None):
        self.R, self.mode, self.modify = R, mode, modify
        self.inp = inp          # ('D', ty, td) | ('T', p, sh, ti, tri)
        self.outs = outs or []  # ('E', q, to, tro) | ('M', ty, td)


class Prog:
    def __init__(self):
        self.nranks, self.short, self.mt, self.cores = 1, 1, 0, 2
        self.mb, self.esz, self.nt = 3, 4, 1
        self.owner = []
        self.classes = []

    def base(self, c):
        return sum(self.nt * d.R for d in self.classes[:c])

    def ntiles(self):
        return self.base(len(self.classes))

    def tile(self, c, k, r):
        return self.base(c) + k * self.classes[c].R + r

    def rank_of(self, c, k, r):
        return self.owner[self.tile(c, k, r)] % self.nranks


def to_case(p):
    w = ["R", p.nranks, p.short, p.mt, p.cores, "M", p.mb, p.esz, "N", p.nt, "O", len(p.owner)] + list(p.owner)
    w += ["C", len(p.classes)]
    for c in p.classes:
        w += ["c", c.R, c.mode, c.modify] + list(c.inp) + [len(c.outs)]
        for o in c.outs:
            w += list(o)
    return " ".join(str(x) for x in w)


def parse_case(line):
    t = line.split()
    pos = [0]

    def nx():
        pos[0] += 1
        return t[pos[0] - 1]

    def ni():
        return int(nx())

    def expect(s):
        x = nx()
        if x != s:
            raise ValueError("expected %s got %s" % (s, x))
    p = Prog()
    expect("R"); p.nranks, p.short, p.mt, p.cores = ni(), ni(), ni(), ni()
    expect("M"); p.mb, p.esz = ni(), ni()
    expect("N"); p.nt = ni()
    expect("O"); n = ni(); p.owner = [ni() for _ in range(n)]
    expect("C"); nc = ni()
    for _ in range(nc):
        expect("c")
        c = Cls(ni(), nx(), ni())
        k = nx()
        if k == "D":
            c.inp = ("D", ni(), ni())
        elif k == "T":
            c.inp = ("T", ni(), ni(), ni(), ni())
        else:
            raise ValueError("bad input kind " + k)
        for _ in range(ni()):
            k = nx()
            if k == "E":
                c.outs.append(("E", ni(), ni(), ni()))
            elif k == "M":
                c.outs.append(("M", ni(), ni()))
            else:
                raise ValueError("bad output kind " + k)
        p.classes.append(c)
    if pos[0] != len(t):
        raise ValueError("trailing tokens")
    return p


def wf(p):
    """static well-formedness (None = fine, else why not)"""
    if not (1 <= p.nranks <= 4 and p.mb >= 1 and p.esz in (1, 4, 8) and p.nt >= 1 and p.classes):
        return "bad header"
    if len(p.owner) != p.ntiles():
        return "owner table has %d entries for %d tiles" % (len(p.owner), p.ntiles())
    for ci, c in enumerate(p.classes):
        if c.R < 1 or c.mode not in ("W", "R"):
            return "bad class %d" % ci
        if c.inp[0] == "T":
            _, q, sh, ti, tri = c.inp
            if not (0 <= q < ci) or not (0 <= sh < p.nt):
                return "class %d: bad producer" % ci
            if p.classes[q].R != 1:
                return "class %d: producer is replicated" % ci
            if sum(1 for o in p.classes[q].outs if o[0] == "E" and o[1] == ci) != 1:
                return "class %d: producer %d does not name it exactly once" % (ci, q)
        nm = 0
        for o in c.outs:
            if o[0] == "E":
                if not (ci < o[1] < len(p.classes)) or p.classes[o[1]].inp[0] != "T" or p.classes[o[1]].inp[1] != ci:
                    return "class %d: output to %d is not matched" % (ci, o[1])
                if c.R != 1:
                    return "class %d: replicated class with consumers" % ci
            else:
                nm += 1
                if c.mode != "W":
                    return "class %d: READ flow written back" % ci
        if nm > 1:
            return "class %d: two write-backs" % ci
        if len([o for o in c.outs if o[0] == "E"]) != len({o[1] for o in c.outs if o[0] == "E"}):
            return "class %d: consumer named twice" % ci
    return None


def _attrs(a, b, second):
    s = []
    if a:
        s.append("type = %s" % TNAMES[a])
    if b:
        s.append("%s = %s" % (second, TNAMES[b]))
    return ("  [" + " ".join(s) + "]") if s else ""


def to_jdf(p, name="rscase"):
    L = []
    L.append('extern "C" %{')
    L.append('#include "reshape_rt.h"')
    L.append("%}")
    L.append("")
    L.append('descA  [type = "parsec_data_collection_t*"]')
    L.append('NT     [type = "int"]')
    L.append("")
    for ci, c in enumerate(p.classes):
        base = p.base(ci)
        tile = "%d + k * %d + r" % (base, c.R)
        L.append("C%d(k, r)" % ci)
        L.append("k = 0 .. NT-1")
        L.append("r = 0 .. %d" % (c.R - 1))
        L.append(": descA(%s)" % tile)
        mode = "RW  " if c.mode == "W" else "READ"
        if c.inp[0] == "D":
            first = "%s A <- descA(%s)%s" % (mode, tile, _attrs(c.inp[1], c.inp[2], "type_data"))
        else:
            _, q, sh, ti, tri = c.inp
            first = "%s A <- A C%d((k + %d) %% NT, 0)%s" % (mode, q, sh, _attrs(ti, tri, "type_remote"))
        L.append(first)
        for o in c.outs:
            if o[0] == "E":
                q = o[1]
                sh = p.classes[q].inp[2]
                L.append("       -> A C%d((k + NT - %d) %% NT, 0 .. %d)%s" % (q, sh, p.classes[q].R - 1, _attrs(o[2], o[3], "type_remote")))
            else:
                L.append("       -> descA(%s)%s" % (tile, _attrs(o[1], o[2], "type_data")))
        L.append("BODY")
        L.append("{")
        L.append("    RS_BODY(this_task, %d, k, r, _f_A, %d);" % (ci, c.modify))
        L.append("}")
        L.append("END")
        L.append("")
    L.append('extern "C" %{')
    L.append("const int rs_case_ntiles = %d;" % p.ntiles())
    L.append("const int rs_case_mb = %d;" % p.mb)
    L.append("const int rs_case_esz = %d;" % p.esz)
    L.append("const int rs_case_nclasses = %d;" % len(p.classes))
    L.append("const int rs_case_owner[] = { %s };" % ", ".join(str(x) for x in p.owner))
    L.append("parsec_taskpool_t *rs_case_new(parsec_data_collection_t *D) {")
    L.append("    parsec_%s_taskpool_t *tp = parsec_%s_new(D, %d);" % (name, name, p.nt))
    L.append("    if (NULL == tp) return NULL;")
    for s in range(1, len(TNAMES)):
        L.append("#if defined(PARSEC_%s_%s_ADT_IDX)" % (name, TNAMES[s]))
        L.append("    tp->arenas_datatypes[PARSEC_%s_%s_ADT_IDX] = *rs_adt(%d);" % (name, TNAMES[s], s))
        L.append("#endif")
    L.append("    return (parsec_taskpool_t *)tp;")
    L.append("}")
    L.append("%}")
    return "\n".join(L) + "\n"
