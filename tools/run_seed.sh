#!/bin/sh
# tools/run_seed.sh <prop> <id> : run bin/check <prop> against seeded change <id> (scratch worktree), restore afterwards
p=$1; id=$2; wt=/tmp/seedwt-$id
git -C $wt checkout -q -- . ; git -C $wt apply /tmp/seed-$id/patch.diff || exit 2
cd /verif; VERIF_REPO=$wt VERIF_PBUILD=$wt/_vb timeout 3600 bin/check $p > /tmp/seedrun_$id.out 2>&1; rc=$?
git -C $wt checkout -q -- .
echo "$id: check $p rc=$rc"; grep VIOLATION /tmp/seedrun_$id.out | head -3
