"""Shared machinery of the /verif checks (python3, stdlib only).

One check = one plugin module checks/Cnn.py exposing a subclass of Check.
The flow of a check is DESIGN.md section 2.1:

  1. rebuild what the check needs from /repo's working tree (libparsec in
     _work/pbuild when the harness links it; the harness itself always);
  2. regenerate Gen_*.v (plugins with a translator), build the Coq cone of
     Properties_Cnn.v with full .vo compilation, re-run coqc on the property
     file to capture Print Assumptions, run the hygiene gates;
  3. generate cases from VERIF_SEED, run the real code (harness) and the
     extracted model (OCaml driver) on the same case file, diff;
  4. when a proof obligation or the correspondence is broken: search for a
     failing input with the property oracle on the implementation's
     observations, write a replay, print VIOLATION (or KNOWN-FINDING);
  5. write evidence/Cnn.json.
"""
import fcntl
import hashlib
import json
import os
import re
import shlex
import subprocess
import sys
import time

VERIF = os.path.dirname(os.path.dirname(os.path.abspath(__file__)))
REPO = os.environ.get("VERIF_REPO", "/repo")
WORK = os.path.join(VERIF, "_work")
# VERIF_REPO=<scratch worktree> redirects a check to a copy of the repository (mutation
# testing); the PaRSEC build directory then lives inside that copy.
PBUILD = os.path.join(WORK, "pbuild") if REPO == "/repo" else os.environ.get("VERIF_PBUILD", os.path.join(REPO, "_vbuild"))
COQ = os.path.join(VERIF, "coq")
_SFX = "" if REPO == "/repo" else "-" + hashlib.sha1(REPO.encode()).hexdigest()[:8]
BIN = os.path.join(WORK, "bin" + _SFX)
# one case directory per process: two runs of the same check (another tier, another caller) must not
# overwrite each other's case files between the harness run and the model run
CASES = os.path.join(WORK, "cases" + _SFX, "p%d" % os.getpid())
EVID = os.path.join(VERIF, "evidence") if REPO == "/repo" else os.path.join(WORK, "evidence" + _SFX)
REPLAYS = os.path.join(VERIF, "replays") if REPO == "/repo" else os.path.join(WORK, "replays" + _SFX)
GUARD = "ICLDISCO_PARSEC_VERIF"
MPI_INC = ["-I/usr/lib/x86_64-linux-gnu/openmpi/include",
           "-I/usr/lib/x86_64-linux-gnu/openmpi/include/openmpi"]
MPI_LINK = ["-L/usr/lib/x86_64-linux-gnu/openmpi/lib", "-lmpi"]
HYGIENE_RE = re.compile(
    r"\b(Admitted|admit|Axiom|Axioms|Parameter|Parameters|Conjecture|Hypothesis|Variable)\b"
    r"|Unset\s+Guard|bypass_check|type-in-type|impredicative-set|Admit Obligations|native_compute")
# axioms of the standard library that a proof may rely on, to be named in the trusted base
STDLIB_AXIOMS = {
    "functional_extensionality_dep", "FunctionalExtensionality.functional_extensionality_dep",
    "Eqdep.Eq_rect_eq.eq_rect_eq", "eq_rect_eq", "proof_irrelevance",
    "ProofIrrelevance.proof_irrelevance", "classic", "Classical_Prop.classic", "JMeq_eq",
    "JMeq.JMeq_eq", "ClassicalDedekindReals.sig_forall_dec", "ClassicalDedekindReals.sig_not_dec",
}


# --------------------------------------------------------------------------
# deterministic PRNG (SplitMix64): every random choice of a check derives from it
class Rng:
    M = (1 << 64) - 1

    def __init__(self, seed):
        # the seed is hashed, not used as a stream offset: adjacent seeds must give unrelated streams
        z = (int(seed) ^ 0x5851F42D4C957F2D) & self.M
        for _ in range(3):
            z = ((z ^ (z >> 30)) * 0xBF58476D1CE4E5B9) & self.M
            z = ((z ^ (z >> 27)) * 0x94D049BB133111EB) & self.M
            z ^= z >> 31
        self.s = z

    def u64(self):
        self.s = (self.s + 0x9E3779B97F4A7C15) & self.M
        z = self.s
        z = ((z ^ (z >> 30)) * 0xBF58476D1CE4E5B9) & self.M
        z = ((z ^ (z >> 27)) * 0x94D049BB133111EB) & self.M
        return z ^ (z >> 31)

    def below(self, n):
        return self.u64() % n if n > 0 else 0

    def range(self, lo, hi):  # inclusive
        return lo + self.below(hi - lo + 1)

    def chance(self, num, den):
        return self.below(den) < num

    def pick(self, xs):
        return xs[self.below(len(xs))]

    def shuffle(self, xs):
        xs = list(xs)
        for i in range(len(xs) - 1, 0, -1):
            j = self.below(i + 1)
            xs[i], xs[j] = xs[j], xs[i]
        return xs

    def fork(self):
        return Rng(self.u64())


# --------------------------------------------------------------------------
class Lock:
    """flock around shared build directories (checks may run concurrently)."""

    def __init__(self, name):
        os.makedirs(WORK, exist_ok=True)
        self.path = os.path.join(WORK, "." + name + ".lock")

    def __enter__(self):
        self.f = open(self.path, "w")
        fcntl.flock(self.f, fcntl.LOCK_EX)
        return self

    def __exit__(self, *a):
        fcntl.flock(self.f, fcntl.LOCK_UN)
        self.f.close()


_PATIENCE = [2]     # how many more times a timeout may be re-tried and time out again (per process)


def _run_once(cmd, timeout, cwd, env, input):
    try:
        p = subprocess.run(cmd, cwd=cwd, env=env, input=input, timeout=timeout,
                           stdout=subprocess.PIPE, stderr=subprocess.PIPE,
                           universal_newlines=True, errors="replace")
        return p.returncode, p.stdout, p.stderr
    except subprocess.TimeoutExpired as e:
        out = e.stdout if isinstance(e.stdout, str) else (e.stdout or b"").decode("utf8", "replace")
        err = e.stderr if isinstance(e.stderr, str) else (e.stderr or b"").decode("utf8", "replace")
        return 124, out, err + "\n[timeout after %ss]" % timeout


def run(cmd, timeout=600, cwd=None, env=None, input=None):
    """run a command, return (rc, stdout, stderr); rc=124 on timeout.
    A timeout is not believed at once: on a loaded machine a run that normally takes a second can
    exceed its limit, and a hang reported for that reason would be a false alarm.  The command is
    run once more, alone in this thread, with a limit 4 times larger (10 times when the load average
    exceeds the number of cores).  A real hang times out again; after two confirmed hangs in one
    check run further timeouts are believed immediately, so a change that hangs many cases does not
    stall the check."""
    if isinstance(cmd, str):
        cmd = shlex.split(cmd)
    r = _run_once(cmd, timeout, cwd, env, input)
    if r[0] != 124 or _PATIENCE[0] <= 0 or timeout >= 3000:
        return r
    try:
        loaded = os.getloadavg()[0] > (os.cpu_count() or 16)
    except OSError:
        loaded = False
    r2 = _run_once(cmd, timeout * (10 if loaded else 4), cwd, env, input)
    if r2[0] == 124:
        _PATIENCE[0] -= 1
        return r
    return r2


def log(msg):
    sys.stderr.write("[verif] " + msg + "\n")
    sys.stderr.flush()


# --------------------------------------------------------------------------
# building PaRSEC from /repo's working tree
CMAKE_ARGS = ["-DCMAKE_BUILD_TYPE=RelWithDebInfo",
              "-DCMAKE_C_FLAGS=-Wno-error -D" + GUARD,
              "-DBUILD_TESTING=OFF", "-DPARSEC_GPU_WITH_CUDA=OFF",
              "-DPARSEC_GPU_WITH_HIP=OFF", "-DPARSEC_GPU_WITH_LEVEL_ZERO=OFF"]


def ensure_parsec(targets=("parsec", "parsec-ptgpp"), build=PBUILD, extra_cmake=()):
    """incremental build of libparsec (+ ptgpp) from /repo as it is now."""
    with Lock("pbuild-" + hashlib.sha1(os.path.abspath(build).encode()).hexdigest()[:10]):
        if not os.path.exists(os.path.join(build, "build.ninja")):
            os.makedirs(build, exist_ok=True)
            rc, out, err = run(["cmake", "-G", "Ninja", "-S", REPO, "-B", build] + CMAKE_ARGS
                               + list(extra_cmake), timeout=3600)
            if rc != 0:
                return False, "cmake failed:\n" + out[-3000:] + err[-3000:]
        rc, out, err = run(["ninja", "-C", build] + list(targets), timeout=7200)
        if rc != 0:
            return False, "ninja failed:\n" + out[-4000:] + err[-2000:]
    return True, ""


def harness_cflags(build=PBUILD):
    return ["-std=gnu11", "-m64", "-mcx16", "-O1", "-g", "-DNDEBUG", "-D_GNU_SOURCE",
            "-D" + GUARD, "-Wno-unused-function", "-Wno-unused-variable",
            "-I" + os.path.join(build, "parsec/include"), "-I" + build,
            "-I" + os.path.join(REPO, "parsec/include"), "-I" + REPO,
            "-I" + os.path.join(build, "parsec/data_dist/matrix"),
            "-I" + os.path.join(VERIF, "harness"),
            # fallback for the generated configuration headers when a scratch copy has no build of its own
            "-I" + os.path.join(WORK, "pbuild/parsec/include"), "-I" + os.path.join(WORK, "pbuild")] + MPI_INC


def build_harness(src, out, link_parsec=False, extra=(), build=PBUILD, extra_src=(), cflags=()):
    """compile a harness TU (always: it may #include repo sources)."""
    os.makedirs(BIN, exist_ok=True)
    cmd = (["cc"] + harness_cflags(build) + list(cflags) + [os.path.join(VERIF, src)]
           + [os.path.join(VERIF, s) for s in extra_src] + ["-o", out])
    if link_parsec:
        libdir = os.path.join(build, "parsec")
        cmd += ["-L" + libdir, "-lparsec", "-Wl,-rpath," + libdir]
    cmd += ["-lpthread", "-lm", "-lhwloc"] + MPI_LINK + list(extra)
    rc, o, e = run(cmd, timeout=1800)
    return rc == 0, (o + e)[-6000:]


def build_race_harness(src, out, link_parsec=False, extra=(), build=PBUILD, cflags=()):
    """race-exploration build of a harness (DESIGN.md 8.3): the TU is compiled by clang with
    -fsanitize=thread and linked with harness/tsanrt.c instead of the ThreadSanitizer runtime, so that
    every access to the registered shared bytes is a scheduling point."""
    os.makedirs(BIN, exist_ok=True)
    obj, rto = out + ".o", out + ".rt.o"
    rc, o, e = run(["clang"] + harness_cflags(build) + ["-w", "-fsanitize=thread", "-DVERIF_RACE"] + list(cflags)
                   + ["-c", os.path.join(VERIF, src), "-o", obj], timeout=1800)
    if rc != 0:
        return False, (o + e)[-4000:]
    rc, o, e = run(["cc", "-O1", "-mcx16", "-c", os.path.join(VERIF, "harness/tsanrt.c"), "-o", rto], timeout=900)
    if rc != 0:
        return False, (o + e)[-4000:]
    cmd = ["cc", obj, rto, "-o", out]
    if link_parsec:
        libdir = os.path.join(build, "parsec")
        cmd += ["-L" + libdir, "-lparsec", "-Wl,-rpath," + libdir]
    cmd += ["-lpthread", "-lm", "-lhwloc"] + MPI_LINK + list(extra)
    rc, o, e = run(cmd, timeout=1800)
    return rc == 0, (o + e)[-4000:]


# --------------------------------------------------------------------------
# Coq side
def coq_makefile():
    """(re)generate coq/_CoqProject and coq/Makefile from the .v files present."""
    vs = []
    for root, _, files in os.walk(os.path.join(COQ, "theories")):
        for f in files:
            if f.endswith(".v"):
                vs.append(os.path.relpath(os.path.join(root, f), COQ))
    vs.sort()
    txt = "-Q theories PV\n-arg -w -arg -notation-overridden,-deprecated-hint-without-locality,-deprecated-instance-without-locality\n" + "\n".join(vs) + "\n"
    p = os.path.join(COQ, "_CoqProject")
    old = open(p).read() if os.path.exists(p) else None
    if old != txt or not os.path.exists(os.path.join(COQ, "Makefile")):
        with open(p, "w") as f:
            f.write(txt)
        rc, o, e = run(["coq_makefile", "-f", "_CoqProject", "-o", "Makefile"], cwd=COQ)
        if rc != 0:
            raise RuntimeError("coq_makefile failed: " + o + e)
    os.makedirs(os.path.join(COQ, "extracted"), exist_ok=True)


def coq_make(targets, timeout=7200, jobs=16):
    """full .vo build of the given targets (paths relative to coq/), -k."""
    with Lock("coq"):
        coq_makefile()
        rc, o, e = run(["make", "-k", "-j%d" % jobs] + list(targets), cwd=COQ, timeout=timeout)
    return rc == 0, (o + "\n" + e)


def coq_cone(vfile):
    """transitive dependencies (project files only) of a .v file, via coqdep."""
    seen, todo = [], [vfile]
    while todo:
        f = todo.pop()
        if f in seen:
            continue
        seen.append(f)
        rc, o, e = run(["coqdep", "-Q", "theories", "PV", f], cwd=COQ)
        for line in o.splitlines():
            if ":" not in line:
                continue
            lhs, rhs = line.split(":", 1)
            if not lhs.strip().startswith(f[:-2] + ".vo"):
                continue
            for d in rhs.split():
                if d.endswith(".vo") and d.startswith("theories/"):
                    todo.append(d[:-1])
    return sorted(seen)


def count_obligations(files):
    """number of Qed/Defined-closed statements in the given .v files."""
    n = 0
    for f in files:
        txt = strip_comments(open(os.path.join(COQ, f)).read())
        n += len(re.findall(r"\b(Qed|Defined)\s*\.", txt))
    return n


def strip_comments(txt):
    out, depth, i = [], 0, 0
    while i < len(txt):
        if txt.startswith("(*", i):
            depth += 1
            i += 2
        elif txt.startswith("*)", i) and depth > 0:
            depth -= 1
            i += 2
        else:
            if depth == 0:
                out.append(txt[i])
            i += 1
    return "".join(out)


def hygiene(files):
    """forbidden vernacular in the cone; returns list of 'file:line: text'."""
    bad = []
    for f in files:
        txt = strip_comments(open(os.path.join(COQ, f)).read())
        in_section = 0
        for k, line in enumerate(txt.splitlines(), 1):
            s = line.strip()
            if re.match(r"Section\b", s):
                in_section += 1
            if re.match(r"End\b", s) and in_section > 0:
                in_section -= 1
            m = HYGIENE_RE.search(line)
            if m:
                word = m.group(0)
                if word in ("Variable", "Hypothesis") or re.match(r"Variables?|Hypothes[ie]s", word):
                    if in_section > 0:
                        continue
                bad.append("%s:%d: %s" % (f, k, s[:120]))
    return bad


def print_assumptions(vfile, timeout=2400):
    """re-run coqc on a property file (its deps are built), parse Print Assumptions.
    returns (ok, {theorem: [axioms]}, log)"""
    tmpd = os.path.join(WORK, "tmpvo")
    os.makedirs(tmpd, exist_ok=True)
    rc, o, e = run(["coqc", "-Q", "theories", "PV", "-w",
                    "-notation-overridden,-deprecated-hint-without-locality,-deprecated-instance-without-locality",
                    "-o", os.path.join(tmpd, os.path.basename(vfile) + "o"), vfile],
                   cwd=COQ, timeout=timeout)
    res, cur = {}, None
    txt = strip_comments(open(os.path.join(COQ, vfile)).read())
    names = re.findall(r"Print Assumptions\s+([A-Za-z0-9_.']+)\s*\.", txt)
    # outputs come in order, one block per Print Assumptions
    blocks, blk = [], None
    for line in o.splitlines():
        if line.startswith("Closed under the global context"):
            if blk is not None:
                blocks.append(blk)
            blocks.append([])
            blk = None
        elif line.startswith("Axioms:"):
            if blk is not None:
                blocks.append(blk)
            blk = []
        elif blk is not None:
            m = re.match(r"^([A-Za-z0-9_.']+)\s*:", line)
            if m:
                blk.append(m.group(1))
    if blk is not None:
        blocks.append(blk)
    for n, b in zip(names, blocks):
        res[n] = b
    ok = (rc == 0) and len(blocks) == len(names)
    return ok, res, (o + e)


# --------------------------------------------------------------------------
# extracted model drivers
def build_driver(comp, driver_src, extracted, out):
    """ocamlfind ocamlopt of coq/extracted/<m>.ml(i) + ocaml/<driver>.ml"""
    os.makedirs(BIN, exist_ok=True)
    objdir = os.path.join(WORK, "obj", comp)
    os.makedirs(objdir, exist_ok=True)
    srcs = []
    for m in extracted:
        for ext in (".mli", ".ml"):
            p = os.path.join(COQ, "extracted", m + ext)
            if not os.path.exists(p):
                return False, "missing extracted file " + p
            q = os.path.join(objdir, m + ext)
            with open(p) as f, open(q, "w") as g:
                g.write(f.read())
            srcs.append(q)
    import shutil
    vio = os.path.join(objdir, "vio.ml")
    with open(vio, "w") as g:
        g.write("open %s\n" % (extracted[0][0].upper() + extracted[0][1:]))
        g.write(open(os.path.join(VERIF, "ocaml/vio.inc")).read())
    srcs.append(vio)
    q = os.path.join(objdir, os.path.basename(driver_src))
    shutil.copy(os.path.join(VERIF, driver_src), q)
    srcs.append(q)
    rc, o, e = run(["ocamlfind", "ocamlopt", "-inline", "20", "-w", "-a",
                    "-I", objdir] + srcs + ["-o", out], timeout=1800, cwd=objdir)
    return rc == 0, (o + e)[-6000:]


# --------------------------------------------------------------------------
def known_findings():
    known, fixed = [], []
    p = os.path.join(VERIF, "KNOWN_FINDINGS.txt")
    if os.path.exists(p):
        for line in open(p):
            line = line.strip()
            if not line or line.startswith("#"):
                continue
            m = re.match(r"known:\s+property=(\S+)\s+sig=(\S+)\s+(.*)$", line)
            if m:
                known.append((m.group(1), m.group(2), m.group(3)))
            m = re.match(r"fixed:\s+property=(\S+)\s+(\S+)\s+(.*)$", line)
            if m:
                fixed.append((m.group(1), m.group(2), m.group(3)))
    return known, fixed


class Failure:
    """one reason the check cannot pass: a broken obligation or a disagreement."""

    def __init__(self, kind, what, detail="", case=None, sig=None):
        self.kind = kind        # 'proof' | 'correspondence' | 'oracle' | 'build'
        self.what = what
        self.detail = detail
        self.case = case        # failing input when one is known
        self.sig = sig          # signature for KNOWN_FINDINGS matching


class Check:
    """base class of a property check; see checks/C12.py for the smallest example."""
    id = None
    prop_file = None            # theories/Properties/Properties_Cnn.v
    theorems = ()               # names that must appear under Print Assumptions
    allowed_axioms = ()         # stdlib axioms this property may rely on (named in trusted base)
    comp = None                 # component name: harness h_<comp>, driver d_<comp>
    extracted = ()              # module names in coq/extracted produced by the cone
    extract_file = None         # theories/Extract/Extract_<Comp>.v
    harness_src = None
    harness_extra_src = ()
    link_parsec = False
    harness_ldflags = ()
    harness_cflags = ()         # e.g. ("-DBUILDING_PARSEC",) for T-sched harnesses using interpose.h
    race = False                # True: also build the harness with -DVERIF_RACE (clang -fsanitize=thread + tsanrt.c)
    technique = "Coq proof + differential correspondence"
    trusted = ()
    assumptions = ()
    rule = ""

    def __init__(self, tier, seed):
        self.tier = tier
        self.seed = seed
        self.rng = Rng(seed)
        self.failures = []
        self.known_lines = []
        self.cov = {}
        self.t0 = time.time()

    # ---- to be provided by plugins -------------------------------------
    gen = ()   # translator jobs: dicts(file="parsec/x.c", fns=[...], out="theories/Gen/Gen_x.v", fuel="70%nat")

    def pregen(self):
        """regenerate Gen_*.v from /repo's current C text (tools/c2gallina.py); return list of Failure.
        A refusal of the translator is a broken obligation."""
        fails = []
        for job in self.gen:
            if not os.path.exists(os.path.join(PBUILD, "parsec/include/parsec/parsec_config.h")):
                ok, msg = ensure_parsec()
                if not ok:
                    fails.append(Failure("build", "PaRSEC does not build from /repo", msg))
                    break
            cmd = [sys.executable, os.path.join(VERIF, "tools/c2gallina.py"), "--repo", REPO, "--build", PBUILD,
                   "--file", job["file"], "--out", os.path.join(COQ, job["out"])]
            for fn in job["fns"]:
                cmd += ["--fn", fn]
            if job.get("fuel"):
                cmd += ["--fuel", job["fuel"]]
            for lc in job.get("locals", ()):
                cmd += ["--locals", lc]
            with Lock("coq"):
                rc, o, e = run(cmd, timeout=1800)
            if rc != 0:
                fails.append(Failure("proof", "translator could not regenerate %s from %s" % (job["out"], job["file"]),
                                     (o + e)[-1500:]))
        return fails

    def cases(self):
        """list of case strings (one line each), corpus first."""
        return []

    def nontrivial_key(self, case):
        """None when the case is trivial, else a hashable key for distinctness."""
        return case

    def oracle(self, case, impl_line):
        """decide the property on the implementation's observation of one case.
        return None if it holds, else a short description of the violation."""
        return None

    def signature(self, case, impl_line):
        """signature of a failing case for KNOWN_FINDINGS matching."""
        return hashlib.sha1(case.encode()).hexdigest()[:12]

    def search_cases(self):
        """extra directed cases tried when an obligation or the correspondence broke."""
        return []

    def race_cases(self, cases):
        """cases for the race exploration (plain accesses are scheduling points): search only."""
        return [c for c in cases if self.nontrivial_key(c) is not None]

    def race_oracle(self, case, obs):
        return self.oracle(case, obs)

    def run_race(self, cases):
        os.makedirs(CASES, exist_ok=True)
        cf = os.path.join(CASES, "%s-race-%d.txt" % (self.id, self.seed))
        with open(cf, "w") as f:
            for c in cases:
                f.write(c + "\n")
        rc, o, e = run([self.hbin() + "_race", cf], timeout=self.impl_timeout())
        lines = o.splitlines()
        if rc != 0 or len(lines) != len(cases):
            lines = lines[:len(cases)] + ["<race impl rc=%d: %s>" % (rc, e.strip()[-200:].replace("\n", " "))] * (len(cases) - len(lines))
        return lines

    def dist(self, cases):
        """input distribution summary for the evidence."""
        return {}

    # ---- machinery ------------------------------------------------------
    def corpus(self):
        d = os.path.join(VERIF, "corpus", self.id)
        out = []
        if os.path.isdir(d):
            for f in sorted(os.listdir(d)):
                for line in open(os.path.join(d, f)):
                    line = line.rstrip("\n")
                    if line and not line.startswith("#"):
                        out.append(line)
        return out

    def hbin(self):
        return os.path.join(BIN, "h_" + self.comp + ("_" + self.id if self.per_check_bin else ""))

    per_check_bin = False

    def mbin(self):
        return os.path.join(BIN, "vm_" + self.comp)

    def prove(self):
        """steps 2-3: build the cone, capture assumptions, hygiene gates."""
        t = time.time()
        fails = list(self.pregen())
        targets = [self.prop_file[:-2] + ".vo"]
        if self.extract_file:
            targets.append(self.extract_file[:-2] + ".vo")
        ok, out = coq_make(targets)
        cone = coq_cone(self.prop_file)
        if self.extract_file:
            cone = sorted(set(cone) | set(coq_cone(self.extract_file)))
        self.cone = cone
        obligations = count_obligations(cone)
        discharged = obligations
        if not ok:
            # which files failed
            bad = re.findall(r"(?:File \"\./([^\"]+)\", line (\d+)[^\n]*\n(?:[^\n]*\n){0,6}?Error:[^\n]*(?:\n[^\n]+){0,6})", out)
            errs = re.findall(r"File \"\./([^\"]+)\", line (\d+)", out)
            what = "; ".join("%s:%s" % x for x in errs[:5]) or "make failed"
            m = re.search(r"Error:[^\n]*(\n[^\n]+){0,8}", out)
            fails.append(Failure("proof", "Coq build broken at " + what,
                                 (m.group(0) if m else out[-2500:])))
            for f, _ in set(errs):
                if f in cone:
                    discharged -= len(re.findall(r"\b(Qed|Defined)\s*\.",
                                                 strip_comments(open(os.path.join(COQ, f)).read())))
            discharged = max(0, discharged)
        axioms = {}
        if ok:
            ok2, axioms, plog = print_assumptions(self.prop_file)
            if not ok2:
                fails.append(Failure("proof", "property file does not check: " + self.prop_file,
                                     plog[-2500:]))
            for th in self.theorems:
                if th not in axioms:
                    fails.append(Failure("proof", "theorem %s missing from %s (or not under Print Assumptions)"
                                         % (th, self.prop_file)))
            for th, ax in axioms.items():
                for a in ax:
                    base = a.split(".")[-1]
                    if a not in self.allowed_axioms and base not in self.allowed_axioms:
                        fails.append(Failure("proof", "theorem %s depends on undeclared axiom %s" % (th, a)))
        if ok and self.tier == "thorough":
            # independent re-check of the compiled property file and everything it depends on
            mod = "PV." + self.prop_file[len("theories/"):-2].replace("/", ".")
            t1 = time.time()
            rc, o, e = run(["coqchk", "-silent", "-o", "-Q", "theories", "PV", mod], cwd=COQ, timeout=3000)
            self.cov["coqchk"] = {"rc": rc, "wall_s": round(time.time() - t1, 1),
                                  "summary": " ".join(o[o.find("CONTEXT SUMMARY"):].split())[:1500]}
            if rc != 0:
                fails.append(Failure("proof", "coqchk rejects " + mod, (o + e)[-2000:]))
        bad = hygiene(cone)
        for b in bad:
            fails.append(Failure("proof", "hygiene gate: " + b))
        self.cov.update({
            "obligations": obligations, "discharged": discharged if not bad else 0,
            "checker_cmd": "make -k %s (coq_makefile, full .vo, Coq 8.16.1) && coqc %s" % (" ".join(targets), self.prop_file),
            "theorems": {k: (v or "Closed under the global context") for k, v in axioms.items()},
            "cone_files": cone, "coq_wall_s": round(time.time() - t, 1),
        })
        return fails

    def build_sides(self):
        fails = []
        if self.link_parsec:
            ok, msg = ensure_parsec()
            if not ok:
                fails.append(Failure("build", "PaRSEC does not build from /repo", msg))
                return fails
        if self.harness_src:
            ok, msg = build_harness(self.harness_src, self.hbin(), self.link_parsec,
                                    self.harness_ldflags, extra_src=self.harness_extra_src,
                                    cflags=self.harness_cflags)
            if not ok:
                fails.append(Failure("correspondence", "harness %s no longer compiles against /repo" % self.harness_src, msg))
        self.race_ok = False
        if self.harness_src and self.race:
            ok, msg = build_race_harness(self.harness_src, self.hbin() + "_race", self.link_parsec,
                                         self.harness_ldflags, cflags=self.harness_cflags)
            self.race_ok = ok
            if not ok:
                fails.append(Failure("correspondence", "race-exploration build of %s no longer compiles against /repo" % self.harness_src, msg))
        if self.extracted:
            ok, msg = build_driver(self.comp, "ocaml/d_%s.ml" % self.comp, self.extracted, self.mbin())
            if not ok:
                fails.append(Failure("build", "model driver does not build", msg))
        return fails

    def run_impl(self, casefile, n):
        """run the real code on the case file; returns list of n observation lines."""
        rc, o, e = run([self.hbin(), casefile], timeout=self.impl_timeout())
        lines = o.splitlines()
        if rc != 0 or len(lines) != n:
            lines = lines[:n] + ["<impl rc=%d: %s>" % (rc, e.strip()[-200:].replace("\n", " "))] * (n - len(lines))
        return lines

    def run_model(self, casefile, n):
        rc, o, e = run([self.mbin(), casefile], timeout=self.impl_timeout())
        lines = o.splitlines()
        if rc != 0 or len(lines) != n:
            lines = lines[:n] + ["<model rc=%d: %s>" % (rc, e.strip()[-200:].replace("\n", " "))] * (n - len(lines))
        return lines

    def impl_timeout(self):
        return 900 if self.tier == "quick" else 3000

    def correspond(self, cases, tag="cases"):
        os.makedirs(CASES, exist_ok=True)
        cf = os.path.join(CASES, "%s-%s-%d.txt" % (self.id, tag, self.seed))
        with open(cf, "w") as f:
            for c in cases:
                f.write(c + "\n")
        impl = self.run_impl(cf, len(cases))
        model = self.run_model(cf, len(cases))
        return impl, model

    def main_flow(self):
        fails = self.prove()
        bfails = self.build_sides()
        fails += bfails
        cases = self.corpus() + list(self.cases())
        impl = model = []
        disagreements = []
        oracle_fail = []
        can_run = not any(f.kind == "build" or "no longer compiles" in f.what for f in bfails)
        if can_run and cases:
            impl, model = self.correspond(cases)
            for i, (c, a, b) in enumerate(zip(cases, impl, model)):
                if a != b:
                    disagreements.append(i)
            # the oracle runs on every implementation observation, always
            for i, (c, a) in enumerate(zip(cases, impl)):
                r = self.oracle(c, a)
                if r:
                    oracle_fail.append((i, r))
        self.race_fail = []
        if can_run and cases and getattr(self, "race_ok", False):
            rcases = list(self.race_cases(cases))
            robs = self.run_race(rcases) if rcases else []
            for c, a in zip(rcases, robs):
                r = self.race_oracle(c, a)
                if r:
                    self.race_fail.append((c, a, r))
            self.cov["race_exploration"] = {
                "schedules": len(rcases), "oracle_hits": len(self.race_fail),
                "note": "search only: the same harness compiled with clang -fsanitize=thread and harness/tsanrt.c, every plain or "
                        "atomic access to the shared objects is a scheduling point; results are judged by the property oracle, "
                        "not compared with the model"}
        keys = set()
        for c in cases:
            k = self.nontrivial_key(c)
            if k is not None:
                keys.add(k)
        self.cov.update({
            "evaluations": len(cases), "distinct_nontrivial": len(keys), "rule": self.rule,
            "traces_validated_against_impl": len(cases) - len(disagreements) if can_run else 0,
            "disagreements": len(disagreements),
            "samples": [{"case": c, "impl": a, "model": b} for c, a, b in list(zip(cases, impl, model))[:3]]
                       or [{"obligation": t} for t in self.theorems[:3]],
            "input_distribution": self.dist(cases),
        })
        self.disagree_idx = list(disagreements)
        if disagreements:
            i = disagreements[0]
            fails.append(Failure("correspondence",
                                 "model and implementation differ on %d of %d cases" % (len(disagreements), len(cases)),
                                 "first differing case: %s\nimpl : %s\nmodel: %s" % (cases[i], impl[i], model[i]),
                                 case=None))
        # search for a failing input when something broke (and report oracle hits anyway)
        if (fails or oracle_fail) and can_run:
            extra = list(self.search_cases()) if fails else []
            if extra:
                eimpl, emodel = self.correspond(extra, "search")
                for i, (c, a) in enumerate(zip(extra, eimpl)):
                    r = self.oracle(c, a)
                    if r:
                        oracle_fail.append((len(cases) + i, r))
                cases = cases + extra
                impl = impl + eimpl
                model = model + emodel
        for (c, a, r) in getattr(self, "race_fail", []):
            cases = cases + ["race! " + c]
            impl = impl + [a]
            model = model + ["(race exploration: not compared with the model)"]
            oracle_fail.append((len(cases) - 1, "race exploration: " + r))
        return fails, oracle_fail, cases, impl, model

    def shrink(self, case, impl_line):
        """plugins may override: return a smaller failing (case, impl_line)."""
        return case, impl_line

    def finish(self, fails, oracle_fail, cases, impl, model):
        known, _ = known_findings()
        known = [(s, d) for (p, s, d) in known if p == self.id]
        violations = []
        os.makedirs(REPLAYS, exist_ok=True)
        seen_known = set()
        reported_sigs = set()
        for i, why in oracle_fail:
            israce = cases[i].startswith("race! ")
            bare = cases[i][6:] if israce else cases[i]
            sig = self.signature(bare, impl[i]) + ("-race" if israce else "")
            hit = [k for k in known if k[0] == sig]
            if hit:
                if sig not in seen_known:
                    seen_known.add(sig)
                    print("KNOWN-FINDING: property=%s %s [sig=%s]" % (self.id, hit[0][1], sig))
                continue
            if sig in reported_sigs:
                continue
            reported_sigs.add(sig)
            c, a = (cases[i], impl[i]) if israce else self.shrink(cases[i], impl[i])
            path = os.path.join(REPLAYS, "%s-%d-%s.case" % (self.id, self.seed, sig))
            with open(path, "w") as f:
                f.write("# property %s violated on the implementation: %s\n" % (self.id, why))
                f.write("# impl : %s\n# model: %s\n" % (a, model[i] if i < len(model) else "?"))
                f.write("# replay: bin/check %s --replay %s\n" % (self.id, path))
                f.write(c + "\n")
            violations.append("VIOLATION property=%s replay=%s" % (self.id, path))
            if len(violations) >= 5:
                break
        # a model/implementation disagreement confined to inputs on which the implementation is KNOWN to violate
        # the property (the model cannot follow undefined behaviour there) is explained by those findings
        known_idx = {i for (i, why) in oracle_fail
                     if any(k[0] == self.signature(cases[i][6:] if cases[i].startswith("race! ") else cases[i], impl[i]) for k in known)}
        dis = set(getattr(self, "disagree_idx", []))
        broken = [f for f in fails
                  if not (f.kind == "correspondence" and f.what.startswith("model and implementation differ")
                          and dis and dis <= known_idx)]
        if broken and not violations:
            # an obligation or the correspondence broke and no failing input was found
            # (a known finding that explains a correspondence break does not count as found)
            path = os.path.join(REPLAYS, "%s-%d-broken.txt" % (self.id, self.seed))
            with open(path, "w") as f:
                f.write("# property %s is no longer shown to hold; no failing input was found\n" % self.id)
                for b in broken:
                    f.write("## %s: %s\n" % (b.kind, b.what))
                    for dl in b.detail.splitlines():
                        f.write("# " + dl + "\n")
            violations.append("VIOLATION property=%s replay=%s no-failing-input-found" % (self.id, path))
        elif broken and violations:
            path = violations[0].split("replay=")[1]
            with open(path, "a") as f:
                for b in broken:
                    f.write("## also broken — %s: %s\n" % (b.kind, b.what))
                    for dl in b.detail.splitlines():
                        f.write("# " + dl + "\n")
        for b in broken:
            log("%s: BROKEN %s: %s\n%s" % (self.id, b.kind, b.what, b.detail[:1500]))
        self.write_evidence(len(violations))
        for v in violations:
            print(v)
        sys.stdout.flush()
        return 1 if violations else 0

    def write_evidence(self, nviol):
        tb = ["Coq 8.16.1 kernel (coqc, full .vo build; no native_compute, no Admitted/Axiom: hygiene gate over the cone)",
              "extraction: ExtrOcamlBasic + ExtrOcamlString only, no Extract Constant; ocamlfind ocamlopt 4.13.1; ocaml/vio.ml + driver (parser/printer)",
              "harness (C, compiled against /repo's working tree on this run) and canonicalisation in lib/vcheck.py"] + list(self.trusted)
        ax = sorted({a for v in self.cov.get("theorems", {}).values() if isinstance(v, list) for a in v})
        tb.append("axioms reported by Print Assumptions: " + (", ".join(ax) if ax else "none (Closed under the global context)"))
        cov = dict(self.cov)
        cov["trusted_base"] = tb
        cov.setdefault("samples", [{"obligation": t} for t in self.theorems[:3]])
        if not cov["samples"]:
            cov["samples"] = [{"obligation": t} for t in self.theorems[:3]] or ["none"]
        ev = {"property_id": self.id, "tier": self.tier, "seed": self.seed, "level": "proof",
              "coverage": cov, "assumptions": list(self.assumptions),
              "wall_s": round(time.time() - self.t0, 2), "violations": nviol}
        os.makedirs(EVID, exist_ok=True)
        with open(os.path.join(EVID, self.id + ".json"), "w") as f:
            json.dump(ev, f, indent=1, sort_keys=True)
            f.write("\n")

    def go(self):
        fails, oracle_fail, cases, impl, model = self.main_flow()
        return self.finish(fails, oracle_fail, cases, impl, model)

    def replay(self, path):
        lines = [l.rstrip("\n") for l in open(path) if l.strip() and not l.startswith("#")]
        cases = [l for l in lines if not l.startswith("race! ")]
        rcases = [l[6:] for l in lines if l.startswith("race! ")]
        fails = self.build_sides()
        for f in fails:
            print("BROKEN", f.kind, f.what, f.detail[:2000])
        rc = 0
        if cases:
            impl, model = self.correspond(cases, "replay")
            for c, a, b in zip(cases, impl, model):
                print("case :", c)
                print("impl :", a)
                print("model:", b)
                r = self.oracle(c, a)
                print("oracle:", r or "property holds on this observation")
                if r or a != b:
                    rc = 1
        if rcases and getattr(self, "race_ok", False):
            for c, a in zip(rcases, self.run_race(rcases)):
                print("case :", c, "(race exploration)")
                print("impl :", a)
                r = self.race_oracle(c, a)
                print("oracle:", r or "property holds on this observation")
                if r:
                    rc = 1
        return rc


def load(pid):
    sys.path.insert(0, os.path.join(VERIF, "checks"))
    sys.path.insert(0, os.path.join(VERIF, "lib"))
    mod = __import__(pid)
    return getattr(mod, pid)
