import itertools
import re
from collections import Counter

from vcheck import Check

INT_MIN, INT_MAX = -2147483648, 2147483647


# ---------------------------------------------------------------------------
# parsing of the observation language of harness/h_heapbuf.c
def parse_task(s):
    i, p = s.split(":")
    return int(i), int(p)


def parse_tree(s, pos):
    """tree := '.' | '(' id ':' prio tree tree ')' ; returns (tree, newpos); tree = None | (id, prio, l, r)"""
    if s[pos] == ".":
        return None, pos + 1
    if s[pos] != "(":
        raise ValueError("bad tree at %d in %s" % (pos, s[:60]))
    m = re.compile(r"(-?\d+):(-?\d+)").match(s, pos + 1)
    if not m:
        raise ValueError("bad node at %d in %s" % (pos, s[:60]))
    l, pos = parse_tree(s, m.end())
    r, pos = parse_tree(s, pos)
    if s[pos] != ")":
        raise ValueError("unclosed node")
    return (int(m.group(1)), int(m.group(2)), l, r), pos + 1


def parse_heap(s):
    """'#' -> None ; 'size,prio,tree' -> (size, prio, tree)"""
    if s == "#":
        return None
    size, prio, t = s.split(",", 2)
    tree, pos = parse_tree(t, 0)
    if pos != len(t):
        raise ValueError("trailing text in heap dump")
    return int(size), int(prio), tree


def tree_nodes(t, out):
    # iterative: the trees can be deep only when broken
    stack = [t]
    while stack:
        n = stack.pop()
        if n is None:
            continue
        out.append((n[0], n[1]))
        stack.append(n[3])
        stack.append(n[2])
    return out


def tree_order_violation(t):
    stack = [t]
    while stack:
        n = stack.pop()
        if n is None:
            continue
        for c in (n[2], n[3]):
            if c is not None:
                if c[1] > n[1]:
                    return "task %d (priority %d) sits below task %d (priority %d)" % (c[0], c[1], n[0], n[1])
                stack.append(c)
    return None


class C35(Check):
    id = "C35"
    prop_file = "theories/Properties/Properties_C35.v"
    theorems = ("C35_buffer_step_conserves", "C35_buffer_history_conserves", "C35_buffer_bounded",
                "C35_pop_best_is_max", "C35_pop_best_none_iff_empty", "C35_push_prio_keeps_best",
                "C35_heap_insert", "C35_heap_remove", "C35_heap_split", "C35_heap_top_is_max",
                "C35_heap_step", "C35_heap_history", "C35_hiBit", "C35_hiBit_is_the_code")
    gen = ({"file": "parsec/maxheap.c", "fns": ["hiBit"], "out": "theories/Gen/Gen_hibit.v"},)
    comp = "heapbuf"
    extract_file = "theories/Extract/Extract_HeapBuf.v"
    extracted = ("heapbuf",)
    harness_src = "harness/h_heapbuf.c"
    link_parsec = True
    level_text = ("Theorems for every chain of bounded buffers (any sizes, any depth), every heap table and every finite "
                  "history of operations: each hbbuffer operation conserves the multiset of tasks over buffers + parent "
                  "store + returned task and never changes a buffer's capacity; a sequential pop_best returns a task of "
                  "maximal priority of the buffer it scans (none iff empty); push_all_by_priority of a sorted ring keeps "
                  "in the buffer tasks at least as good as every task it hands to the parent; heap_insert / heap_remove / "
                  "heap_split_and_steal conserve the multiset over heaps + returned task, preserve max-heap order, the "
                  "complete-tree shape addressed by the bits of size (size field = number of nodes, sub-heap sizes of the "
                  "split computed with hiBit are the real ones) and priority field = priority of the top = maximum; "
                  "remove/split return a maximum. The executable model is tied to hbbuffer.c/maxheap.c by running both on "
                  "the same histories and comparing the full structural dump after every operation. Full level for the "
                  "sequential semantics.")
    level_note = ("Trusted: Coq kernel, extraction, harness (recorder as top-most parent store, fork per case). Sequential "
                  "semantics only: every CAS of hbbuffer.c succeeds at once; the concurrent slot races are outside this check.")
    technique = ("Coq proof (invariants + induction over histories; bit-level lemmas for the path/size arithmetic) + "
                 "differential run of hbbuffer.c and maxheap.c against the extracted model with structural dumps")
    rule = ("'B sizes | ops': chain of 1..3 buffers of 1..8 slots, push_all / push_all_by_priority with distances and "
            "rings longer than the free room, pop_best on any level, priorities from tiny ranges (ties) up to INT_MIN/INT_MAX; "
            "small exhaustive box over fill patterns x pushed rings. 'H | ops': heap tables; build-n-then-split for every "
            "n, drain, random insert/remove/split mixes with inserts after splits. Non-trivial = at least 3 operations; "
            "distinct = distinct case text")
    trusted = ("harness includes parsec/hbbuffer.c and parsec/maxheap.c from the working tree; tasks are calloc'ed "
               "parsec_task_t with only priority and list pointers set; the top-most parent store is a recorder",
               "the guard of the harness that skips heap_remove/heap_split_and_steal on an empty heap object "
               "(heap->top == NULL is asserted by the code)")
    assumptions = ("sequential use: no other thread touches the buffer during a call (slot races are handled elsewhere)",
                   "parent_push_fct is not NULL and the pushed ring is non-empty for push_all_by_priority (asserted by the code)",
                   "heap sizes stay below 2^31 and distance - 1 does not overflow int32",
                   "a task is in at most one container at a time (callers' duty)")

    # ---- generation ---------------------------------------------------------
    def _prio_gen(self, r):
        kind = r.below(10)
        if kind < 3:
            lo, hi = 0, 1
        elif kind < 6:
            lo, hi = -1, 1
        elif kind < 8:
            lo, hi = -3, 3
        elif kind < 9:
            lo, hi = -100, 100
        else:
            return lambda: r.pick([INT_MIN, INT_MIN + 1, -1, 0, 1, INT_MAX - 1, INT_MAX])
        return lambda: r.range(lo, hi)

    def _buffer_case(self, r):
        nl = r.pick([1, 1, 1, 2, 2, 3])
        sizes = [r.range(1, 8) for _ in range(nl)]
        if r.chance(1, 4):
            sizes[0] = r.range(1, 3)
        pg = self._prio_gen(r)
        ops = []
        for _ in range(r.range(3, 30)):
            k = r.below(10)
            if k < 4:
                lvl = 0 if r.chance(3, 4) else r.below(nl)
                ops.append("o %d" % lvl)
            else:
                n = r.pick([1, 1, 2, 3, r.range(1, sizes[0] + 3), r.range(1, 14)])
                ps = [pg() for _ in range(n)]
                d = r.pick([0, 0, 0, 0, 0, 0, 1, 2, 3, -1])
                if k < 7:
                    ops.append("a %d %s" % (d, " ".join(map(str, ps))))
                else:
                    if r.chance(7, 10):
                        ps.sort(reverse=True)
                    ops.append("p %d %s" % (d, " ".join(map(str, ps))))
        return "B %s | %s" % (" ".join(map(str, sizes)), " | ".join(ops))

    def _buffer_box(self):
        """every fill pattern (pushes then optional pop making a hole) x every pushed ring, tiny priorities"""
        out = []
        vals = (0, 1) if self.tier == "quick" else (0, 1, 2)
        maxl = 3
        for s in (1, 2, 3):
            pres = [()]
            for k in range(1, s + 1):
                pres += list(itertools.product(vals, repeat=k))
            rings = []
            for k in range(1, maxl + 1):
                rings += list(itertools.product(vals, repeat=k))
            for pre in pres:
                for hole in (False, True):
                    if hole and not pre:
                        continue
                    for ring in rings:
                        for op in ("p", "a"):
                            ops = []
                            if pre:
                                ops.append("a 0 " + " ".join(map(str, pre)))
                            if hole:
                                ops.append("o 0")
                            ops.append("%s 0 %s" % (op, " ".join(map(str, ring))))
                            ops += ["o 0"] * (s + 1)
                            out.append("B %d | %s" % (s, " | ".join(ops)))
        return out

    def _heap_build_split(self, r, n, pg):
        """build a heap of n tasks, split it, insert into both halves, split again, drain everything"""
        ops = ["c"] + ["i 0 %d" % pg() for _ in range(n)] + ["s 0"]
        for _ in range(r.range(0, 3)):
            ops.append("i 0 %d" % pg())
            ops.append("i 1 %d" % pg())
        ops += ["s 0", "s 1"]            # new heaps get indices 2 and 3
        order = []
        for k in range(4):
            order += [k] * (n + 4)
        if r.chance(1, 2):
            order = r.shuffle(order)
        ops += ["r %d" % k for k in order]
        return "H | " + " | ".join(ops)

    def _heap_drain(self, r, n, pg):
        ops = ["c"] + ["i 0 %d" % pg() for _ in range(n)] + ["r 0"] * (n + 1)
        return "H | " + " | ".join(ops)

    def _heap_random(self, r):
        pg = self._prio_gen(r)
        ops = ["c"]
        nt = 1
        for _ in range(r.range(5, 90 if self.tier == "quick" else 200)):
            k = r.below(20)
            if k < 11:
                ops.append("i %d %d" % (r.below(nt), pg()))
            elif k < 16:
                ops.append("r %d" % r.below(nt))
            elif k < 19:
                if nt < 40:
                    ops.append("s %d" % r.below(nt))
                    nt += 1
            else:
                if nt < 40:
                    ops.append("c")
                    nt += 1
        return "H | " + " | ".join(ops)

    def cases(self):
        r = self.rng
        quick = self.tier == "quick"
        out = list(self._buffer_box())
        for _ in range(1500 if quick else 30000):
            out.append(self._buffer_case(r))
        nmax = 44 if quick else 140
        for n in range(1, nmax + 1):
            for _ in range(2 if quick else 6):
                out.append(self._heap_build_split(r, n, self._prio_gen(r)))
            out.append(self._heap_drain(r, n, self._prio_gen(r)))
        for _ in range(400 if quick else 8000):
            out.append(self._heap_random(r))
        if not quick:
            for n in (255, 256, 257, 511, 512, 1000, 1023, 1024, 1025):
                out.append(self._heap_build_split(r, n, self._prio_gen(r)))
        return out

    def nontrivial_key(self, case):
        return case if case.count("|") >= 3 else None

    def dist(self, cases):
        b = [c for c in cases if c.startswith("B")]
        h = [c for c in cases if c.startswith("H")]
        return {"buffer_histories": len(b), "heap_histories": len(h),
                "ops_total": sum(c.count("|") for c in cases),
                "max_ops": max(c.count("|") for c in cases),
                "multi_level_buffers": sum(1 for c in b if len(c.split("|")[0].split()) > 2),
                "heap_splits": sum(c.count("| s ") for c in h)}

    # ---- property oracle on the implementation's observation ---------------------
    def oracle(self, case, obs):
        r = self._judge(case, obs)
        return r[1] if r else None

    def signature(self, case, obs):
        r = self._judge(case, obs)
        return r[0] if r else "none"

    def _judge(self, case, obs):
        """(class, text) when the property is violated on this observation, else None"""
        if obs.startswith("<skipped"):
            return None     # not run: the harness gave up after repeated crashes (reported on those cases)
        if obs.startswith("<crash") or obs.startswith("<impl"):
            return ("crash", "the implementation crashed or hung on a legal history: " + obs[:60])
        try:
            if case.startswith("B "):
                return self._judge_buffers(case, obs)
            if case.startswith("H "):
                return self._judge_heaps(case, obs)
        except (ValueError, IndexError, KeyError) as e:
            return ("unparsable", "unparsable observation (%s): %s" % (e, obs[:80]))
        return None

    def _judge_buffers(self, case, obs):
        parts = [p.strip() for p in case[2:].split("|")]
        sizes = [int(x) for x in parts[0].split()]
        ops = [p for p in parts[1:] if p]
        outs = [o.strip() for o in obs.split(" ; ")]
        if len(outs) != len(ops):
            return ("unparsable", "expected %d operation records, got %d" % (len(ops), len(outs)))
        levels = [[None] * s for s in sizes]
        prio = {}
        nid = 0
        for k, (op, o) in enumerate(zip(ops, outs)):
            w = op.split()
            m = re.match(r"^r=(\S+) q=(\S*) b=(\S+) e=(\S+) n=(\S+)$", o)
            if not m:
                raise ValueError("record %d: %s" % (k, o[:40]))
            ret = None if m.group(1) == "-" else parse_task(m.group(1))
            calls = re.findall(r"\(([^@)]*)@(-?\d+)\)", m.group(2))
            sent = [int(x) for ids, _ in calls for x in ids.split(",") if x != ""]
            if "?" in m.group(2) or "?" in m.group(3):
                return ("lost", "op %d (%s): a pointer that is not a pushed task appeared in the containers" % (k, op))
            new = [[None if s == "_" else parse_task(s) for s in lv.split(",")] for lv in m.group(3).split("/")]
            pushed = []
            if w[0] in ("a", "p"):
                for p in w[2:]:
                    prio[nid] = int(p)
                    pushed.append(nid)
                    nid += 1
            if [len(l) for l in new] != sizes:
                return ("capacity", "op %d (%s): buffer capacities changed to %s" % (k, op, [len(l) for l in new]))
            before = Counter(t[0] for l in levels for t in l if t) + Counter(pushed)
            after = Counter(t[0] for l in new for t in l if t) + Counter(sent) + Counter([ret[0]] if ret else [])
            if before != after:
                lost = sorted((before - after).elements())
                dup = sorted((after - before).elements())
                return ("lost", "op %d (%s): tasks not conserved over buffers + parent store + returned: lost %s, duplicated/unknown %s"
                        % (k, op, lost, dup))
            for l in new:
                for t in l:
                    if t and prio.get(t[0]) != t[1]:
                        return ("lost", "op %d (%s): task %d changed priority" % (k, op, t[0]))
            if w[0] == "o":
                lvl = levels[int(w[1])]
                held = [t for t in lvl if t]
                if ret is None:
                    if held:
                        return ("notmax", "op %d (%s): pop_best returned nothing from a buffer holding %s" % (k, op, held))
                else:
                    if ret not in held:
                        return ("lost", "op %d (%s): pop_best returned %s which the buffer did not hold" % (k, op, ret))
                    best = max(t[1] for t in held)
                    if ret[1] != best:
                        return ("notmax", "op %d (%s): pop_best returned priority %d while the quiescent buffer held priority %d"
                                % (k, op, ret[1], best))
            elif ret is not None:
                return ("lost", "op %d (%s): a push returned a task" % (k, op))
            levels = new
        return None

    def _heap_check(self, k, op, idx, h):
        """order / top-priority checks of one dumped heap"""
        if h is None:
            return None
        size, hp, tree = h
        if tree is None:
            return None
        bad = tree_order_violation(tree)
        if bad:
            return ("order", "op %d (%s): heap %d is not a max-heap: %s" % (k, op, idx, bad))
        nodes = tree_nodes(tree, [])
        top = max(p for _, p in nodes)
        if tree[1] != top or hp != top:
            return ("order", "op %d (%s): heap %d: top priority %d / priority field %d, highest held priority %d"
                    % (k, op, idx, tree[1], hp, top))
        return None

    def _judge_heaps(self, case, obs):
        ops = [p.strip() for p in case[2:].split("|")[1:] if p.strip()]
        outs = [o.strip() for o in obs.split(" ; ")]
        if len(outs) != len(ops) + 1 or not outs[-1].startswith("END"):
            return ("unparsable", "expected %d operation records + END, got %d" % (len(ops), len(outs)))
        tab = {}
        prio = {}
        nid = 0

        def elems(h):
            return tree_nodes(h[2], []) if h else []
        for k, (op, o) in enumerate(zip(ops, outs)):
            w = op.split()
            f = o.split()
            if not f or not f[0].startswith("r="):
                raise ValueError("record %d: %s" % (k, o[:40]))
            if "?" in o or "<cycle>" in o:
                return ("lost", "op %d (%s): the heap links are corrupted (cycle or foreign pointer)" % (k, op))
            ret = None if f[0] == "r=-" else parse_task(f[0][2:])
            touched = {}
            for ent in f[1:]:
                i, d = ent.split("=", 1)
                touched[int(i)] = parse_heap(d)
            inserted = []
            if w[0] == "i":
                prio[nid] = int(w[2])
                if touched:
                    inserted.append(nid)
                nid += 1
            before = Counter(t[0] for i in touched for t in elems(tab.get(i))) + Counter(inserted)
            after = Counter(t[0] for h in touched.values() for t in elems(h)) + Counter([ret[0]] if ret else [])
            if before != after:
                return ("lost", "op %d (%s): tasks not conserved over heaps + returned: lost %s, duplicated/unknown %s"
                        % (k, op, sorted((before - after).elements()), sorted((after - before).elements())))
            for i, h in touched.items():
                for t in elems(h):
                    if prio.get(t[0]) != t[1]:
                        return ("lost", "op %d (%s): task %d changed priority" % (k, op, t[0]))
                bad = self._heap_check(k, op, i, h)
                if bad:
                    return bad
            if w[0] in ("r", "s") and touched:
                held = elems(tab.get(int(w[1])))
                if ret is None:
                    if held:
                        return ("notmax", "op %d (%s): nothing returned from a heap holding %d tasks" % (k, op, len(held)))
                else:
                    if ret not in held:
                        return ("lost", "op %d (%s): returned %s which the heap did not hold" % (k, op, ret))
                    best = max(p for _, p in held)
                    if ret[1] != best:
                        return ("notmax", "op %d (%s): returned priority %d while the heap held priority %d" % (k, op, ret[1], best))
            elif ret is not None:
                return ("lost", "op %d (%s): an insertion returned a task" % (k, op))
            tab.update(touched)
        final = {}
        for ent in outs[-1].split()[1:]:
            i, d = ent.split("=", 1)
            final[int(i)] = parse_heap(d)
        a = Counter(t[0] for h in final.values() for t in elems(h))
        b = Counter(t[0] for h in tab.values() for t in elems(h))
        if a != b:
            return ("lost", "end of history: the heaps hold %s more / %s fewer tasks than after their last operation"
                    % (sorted((a - b).elements()), sorted((b - a).elements())))
        return None

    def search_cases(self):
        # directed histories that decide the property on the implementation: every heap size with
        # split + reinsertion + drain, and buffers pushed beyond their capacity then popped empty
        from vcheck import Rng
        r = Rng(self.seed + 1000003)
        out = []
        for n in range(1, 70):
            out.append(self._heap_build_split(r, n, lambda: r.range(-2, 2)))
            out.append(self._heap_drain(r, n, lambda: r.range(-2, 2)))
        for s in range(1, 9):
            for n in range(1, s + 4):
                ps = [r.range(-2, 2) for _ in range(n)]
                for op in ("a", "p"):
                    out.append("B %d | %s 0 %s | %s 0 %s | %s" % (
                        s, op, " ".join(map(str, ps)), op, " ".join(map(str, reversed(ps))),
                        " | ".join(["o 0"] * (s + 1))))
        return out
