from sched_common import SchedCheck, ONLY, parse_case, parse_obs, fmt_case

PRIO_MODULES = tuple(m for m in ("ap", "ip", "spq") if not ONLY or m in ONLY)


class C09(SchedCheck):
    id = "C09"
    prop_file = "theories/Properties/Properties_C09.v"
    theorems = ("C09_ap_refines", "C09_ap_pick_meaning", "C09_ap_pick_none", "C09_spq_refines", "C09_spq_pick_meaning",
                "C09_ip_refines_dist0", "C09_ip_pick_meaning", "C09_ip_distance_refuted")
    level_text = ("Theorems for every history of module.schedule/module.select calls (any rings, ring orders, priorities, "
                  "distances, streams): ap returns a maximum-priority pending task, the earliest scheduled among equals; spq "
                  "returns from the smallest pending distance, within it as ap (a task rescheduled at distance d+1 is never "
                  "selected while one is pending at distance <= d); ip, for histories whose schedules all have distance 0, "
                  "returns a minimum-priority pending task, the latest scheduled among equals. The unrestricted ip statement is "
                  "refuted in the model (C09_ip_distance_refuted: priorities 5,3 at distance 0 then 10 at distance 1 are selected "
                  "10,3,5) and the witness is replayed on the real module: finding ip-distance. Tie: installed modules driven "
                  "through their function pointers, compared select by select with the extracted model. Full for ap, spq and "
                  "ip at distance 0; the ip clause of the property is violated by the code for non-zero distances.")
    level_note = ("No concurrent activity (the property says so): whole operations, one after the other. The model includes "
                  "the position shortcut of parsec_list_nolock_chain_sorted, proved equal to stable insertion on sorted lists. "
                  "Priorities are ints compared without overflow.")
    technique = ("Coq proof (refinement of a reference 'pending list in arrival order' semantics by the ap/ip/spq models, "
                 "invariant: sorted + per-priority subsequences equal) + differential run of the installed modules against the "
                 "extracted model + reference oracle on the observed selections")
    rule = ("ap, ip, spq x streams 1,2,4: random histories of schedule(ring of 1..16, priorities in a tiny range, distance "
            "0..3) / select, ending with a drain; ip: two thirds of the histories use distance 0 only; non-trivial = at least "
            "two tasks pending at some select; distinct = case text")
    trusted = ("harness: bare parsec_task_t tasks with a dummy task class and taskpool; the oracle re-implements the reference "
               "semantics (max / min priority, arrival order, distance classes) in Python",)
    assumptions = ("no concurrent activity: operations are whole and sequential",
                   "priorities and distances are small ints (no overflow in comparisons)")

    def cases(self):
        r = self.rng
        # the model's refutation witness (C09_ip_distance_refuted), on the real module
        out = ["ip 1 | S 0 0 0:5:0:0:0 | S 0 0 1:3:0:0:0 | S 0 1 2:10:0:0:0 | L 0 | L 0 | L 0 | D"]
        quick = self.tier == "quick"
        per = 30 if quick else 400
        for mod in PRIO_MODULES:
            for n in (1, 2, 4):
                for k in range(per):
                    out.append(self.prio_history(r, mod, n, r.pick([6, 10, 16, 24, 40]),
                                                 dist0=(mod == "ip" and k % 3 != 0)))
        return out

    def prio_history(self, r, mod, n, nops, dist0=False):
        nextid = [0]
        ops = []
        lo, hi = r.pick([(0, 2), (0, 3), (-2, 2), (0, 1), (0, 9), (3, 3), (-1000, 1000)])
        for _ in range(nops):
            if r.below(100) < r.pick([45, 60]):
                size = r.pick([1, 1, 2, 3, r.range(1, 16), 16])
                d = 0 if dist0 else r.pick([0, 0, r.range(0, 3), r.range(1, 3)])
                ring = self.gen_ring(r, nextid, size, lo, hi, False)
                for t in ring:
                    t["hi"] = 0
                ops.append(("S", r.below(n), d, ring))
            else:
                ops.append(("L", r.below(n)))
        ops.append(("D",))
        return fmt_case(mod, n, ops)

    def search_cases(self):
        r = self.rng.fork()
        out = []
        for mod in PRIO_MODULES:
            for n in (1, 3):
                for k in range(40):
                    out.append(self.prio_history(r, mod, n, 30, dist0=(mod == "ip" and k % 2 == 0)))
        return out

    def nontrivial_key(self, case):
        mod, n, ops = parse_case(case)
        pend = 0
        best = 0
        for o in ops:
            if o[0] == "S":
                pend += len(o[3])
            elif o[0] == "L":
                best = max(best, pend)
                pend = max(0, pend - 1)
        return case if best >= 2 else None

    # ---- the property, on the implementation's observation alone ------------
    def _check(self, case, obs):
        """-> (message, signature) or None"""
        mod, n, ops = parse_case(case)
        if obs.startswith("<not run"):
            return None
        if obs.startswith("<crash"):
            return "the scheduler crashed on this history: " + obs[:120], mod + "-crash"
        po = parse_obs(obs)
        if po is None:
            return "no observation for this history: " + obs[:120], mod + "-noobs"
        ev, left = po
        pending = []          # (arrival, distance, id, prio)
        arrival = 0
        nonzero = False
        k = 0

        def one(i, what):
            """task i was returned: must be the reference choice"""
            if not pending:
                return "%s returned task %d while nothing is pending" % (what, i), mod + "-unknown"
            cur = [p for p in pending if p[2] == i]
            if not cur:
                return "%s returned task %d which is not pending" % (what, i), mod + "-unknown"
            me = cur[0]
            cand = pending
            if mod == "spq":
                dm = min(p[1] for p in pending)
                if me[1] != dm:
                    return ("%s returned task %d scheduled at distance %d while a task is pending at distance %d"
                            % (what, i, me[1], dm)), "spq-distance"
                cand = [p for p in pending if p[1] == dm]
            if mod in ("ap", "spq"):
                best = max(p[3] for p in cand)
                if me[3] != best:
                    return ("%s returned task %d of priority %d while priority %d is pending" % (what, i, me[3], best),
                            mod + "-order")
                first = min(p[0] for p in cand if p[3] == best)
                if me[0] != first:
                    return ("%s returned task %d, not the earliest scheduled of priority %d" % (what, i, best),
                            mod + "-tie")
            else:
                best = min(p[3] for p in cand)
                if me[3] != best:
                    return ("%s (inverse priority) returned task %d of priority %d while priority %d is pending%s"
                            % (what, i, me[3], best, " (a schedule with a non-zero distance preceded)" if nonzero else ""),
                            "ip-distance" if nonzero else "ip-order")
                if not nonzero:
                    last = max(p[0] for p in cand if p[3] == best)
                    if me[0] != last:
                        return ("%s returned task %d, not the latest scheduled of priority %d" % (what, i, best), "ip-tie")
            pending.remove(me)
            return None
        for o in ops:
            if o[0] in ("S", "V"):
                if o[2] != 0:
                    nonzero = True
                for t in o[3]:
                    pending.append((arrival, o[2], t["id"], t["prio"]))
                    arrival += 1
                continue
            if k >= len(ev):
                return "observation too short", mod + "-noobs"
            e = ev[k]
            k += 1
            if o[0] in ("L", "N"):
                if e[0] != "sel":
                    return "observation does not follow the history", mod + "-noobs"
                if e[1] < 0:
                    if pending:
                        return "select returned NULL while %d task(s) are pending" % len(pending), mod + "-null"
                else:
                    w = one(e[1], "select")
                    if w:
                        return w
            else:
                if e[0] != "drain":
                    return "observation does not follow the history", mod + "-noobs"
                for es, i in e[1]:
                    w = one(i, "select (drain)")
                    if w:
                        return w
                if pending:
                    return "tasks %s never selected" % [p[2] for p in pending][:6], mod + "-lost"
        return None

    def oracle(self, case, obs):
        w = self._check(case, obs)
        return w[0] if w else None

    def signature(self, case, obs):
        w = self._check(case, obs)
        return w[1] if w else "none"
