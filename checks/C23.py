import os
import re
import sys

sys.path.insert(0, os.path.dirname(os.path.abspath(__file__)))
from ptg_common import PtgCheck, jdfgen  # noqa: E402


def inst_name(cls, ps):
    return "%s(%s)" % (cls, ",".join(str(v) for v in ps))


class C23(PtgCheck):
    id = "C23"
    prop_file = "theories/Properties/Properties_C23.v"
    theorems = ("C23_keys_injective", "C23_distinct_params_distinct_keys", "C23_unbounded_key_injective",
                "C23_key_below_range_product", "C23_decode_make_key", "C23_key_print_names_instance",
                "C23_key_print_any_header_permutation",
                "C23_key_print_derived_parameter_refuted", "C23_key_print_header_order_refuted")
    mode = "keys"
    level_text = ("Theorems over the model of the generated make_key / key_print (PTG/PTGDefs.v, mirroring jdf_generate_hashfunction_for, "
                  "the min/max collection of jdf_generate_internal_init and jdf_generate_deps_key_functions): for every class of every "
                  "wf program, make_key is injective on the instances (for the unbounded key without any hypothesis, for the uint64 key when "
                  "the product of the ranges is at most 2^64) and key_print(make_key a) recomputes all locals of a, when every parameter is a range. "
                  "The literal statement is refuted in two ways, each with a machine-checked witness replayed on the real code: a "
                  "parameter defined by an expression is printed as 0; parameters are printed in definition order, not header order. "
                  "Tie: for generated JDFs the GENERATED make_key/key_print are called through the taskpool's task_classes_array on every "
                  "executed instance and compared with the extracted model. Full for injectivity; the printing part holds as stated "
                  "only for range parameters printed in definition order.")
    level_note = ("Trusted: Coq kernel, extraction, ocaml/d_ptg.ml, tools/jdfgen.py printers, harness/ptg_driver.c (calls make_key and "
                  "key_functions->key_print after the run, when the generated internal_init has filled min/range). Assumes no int32 "
                  "overflow in the bounds and Π ranges <= 2^64.")
    technique = "Coq proof (mixed-radix injectivity / inversion over the enumerated execution space) + differential run of the generated key functions"
    rule = ("parameter-space shapes (1-4 parameters; negative, expression, derived-local and parameter-dependent bounds; steps; all-negative "
            "ranges; parameters defined by expressions; header order != definition order; keysperm: 2-4 pure range parameters with different "
            "sizes/lower bounds under a non-identity header permutation, all 6 orders of 3 parameters in the corpus), few instances in huge bounding boxes (3-4 parameters, "
            "steps 2^10..2^30, negative bounds, product of the leading ranges 2^31-+small / 2^32 / 2^40 / 2^62..2^63, total <= 2^64) "
            "plus the C01 DAG templates; "
            "non-trivial = a class with at least 2 instances; distinct = program text")
    trusted = ("harness/ptg_driver.c reads the logged locals of every executed instance and calls tp->task_classes_array[id]->make_key / "
               "key_functions->key_print on them",)
    assumptions = ("the product of the parameter ranges of a class is at most 2^64, every range fits an int and int32 bounds do not overflow (generator: <= 200 instances, boxes up to 2^64)",
                   "every executed instance is logged (C01) — keys are computed for the executed instances")

    def cases(self):
        r = self.rng
        out = []
        n = 16 if self.tier == "quick" else 150
        for i in range(n):
            p = jdfgen.gen_program(r, "keys", max_inst=150)
            out.append("keys %s | %s" % (" ".join(self.draw_configs(r, 1)), jdfgen.to_case(p)))
        # few instances in huge bounding boxes: the multiplier of the last parameter is 2^31 -+ small, 2^32, 2^40, 2^62..2^63
        kinds = ["31-", "31+", "32", "40", "63"]
        for i in range(6 if self.tier == "quick" else 60):
            p = jdfgen.gen_program(r, "keysbig", max_inst=200, big_target=kinds[i % 5] if i < 5 else None)
            out.append("keys %s | %s" % (" ".join(self.draw_configs(r, 1)), jdfgen.to_case(p)))
        # pure range parameters listed in the header in another order than they are defined
        for i in range(5 if self.tier == "quick" else 50):
            p = jdfgen.gen_program(r, "keysperm", max_inst=400)
            out.append("keys %s | %s" % (" ".join(self.draw_configs(r, 1)), jdfgen.to_case(p)))
        for i in range(6 if self.tier == "quick" else 40):
            p = jdfgen.gen_program(r)
            out.append("keys %s | %s" % (" ".join(self.draw_configs(r, 1)), jdfgen.to_case(p)))
        return out

    def nontrivial_key(self, case):
        try:
            p = jdfgen.parse_case(case.split("|", 1)[1])
        except Exception:
            return None
        per = {}
        for ci, ps in jdfgen.instances(p):
            per[ci] = per.get(ci, 0) + 1
        return case.split("|", 1)[1] if any(v >= 2 for v in per.values()) else None

    def dist(self, cases):
        d = PtgCheck.dist(self, cases)
        d.update({"params_hist": {}, "derived_param_classes": 0, "permuted_header_classes": 0, "log2_leading_range_product_hist": {}})
        for c in cases:
            try:
                p = jdfgen.parse_case(c.split("|", 1)[1])
            except Exception:
                continue
            for bs in jdfgen.range_boxes(p):
                lead = 1
                for b in bs[:-1]:
                    lead *= max(b, 1)
                k = str(10 * ((lead.bit_length() - 1) // 10)) + "+"
                d["log2_leading_range_product_hist"][k] = d["log2_leading_range_product_hist"].get(k, 0) + 1
            for cl in p.classes:
                k = str(len(cl.params))
                d["params_hist"][k] = d["params_hist"].get(k, 0) + 1
                d["derived_param_classes"] += 1 if jdfgen.has_derived_param(cl) else 0
                d["permuted_header_classes"] += 1 if jdfgen.header_permuted(cl) else 0
        return d

    def observation(self, prog, runs):
        names = [c.name for c in prog.classes]
        key = {n: i for i, n in enumerate(names)}
        per = []
        for cs, ents, info in runs:
            items = sorted((key.get(e.cls, 99), e.params, e.cls, e.key, e.keyprint.replace(" ", "")) for e in ents if not e.again)
            per.append((cs, info["end"], " ".join("%s=%d:%s" % (inst_name(c, ps), k, kp) for _, ps, c, k, kp in items)))
        if per and all(e == "rc=0" for _, e, _ in per) and len({x for _, _, x in per}) == 1:
            return "wf=1 " + per[0][2]
        return " || ".join("cfg=%s end=%s %s" % x for x in per)

    # severity of what can be wrong with one instance: the worst one of a case is reported, so that a
    # registered finding in one class cannot hide something new in another
    SEV = {"collision": 0, "keyprint-wrong": 1, "keyprint-header-order": 1, "run-failed": 2, "noobs": 2,
           "keyprint-derived-param": 3, "keyprint-local-order": 4}

    def key_failures(self, case, obs):
        """list of (signature, message) for one case"""
        try:
            prog = jdfgen.parse_case(case.split("|", 1)[1])
        except Exception as ex:
            return [] if obs.startswith("<bad case") else [("other", "unparsable case: %s" % ex)]
        if obs.startswith("<ptgpp-rejected") or obs.startswith("<generated-C") or obs.startswith("<link-failed"):
            return []
        if obs.startswith("<"):
            return [("noobs", "no observation: " + obs[:120])]
        cls = {c.name: c for c in prog.classes}
        out = []
        for ch in ([obs] if obs.startswith("wf=1 ") else obs.split(" || ")):
            m = re.match(r"cfg=(\S+) end=(\S+) (.*)$", ch)
            end, body = (m.group(2), m.group(3)) if m else ("rc=0", ch[5:])
            if end != "rc=0":
                out.append(("run-failed", "run did not complete (%s): keys not observable" % end))
            seen = {}
            for m2 in re.finditer(r"([A-Za-z_]\w*)\(([-0-9,]*)\)=(\d+):(\S+)", body):
                name, ps, k, kp = m2.group(1), m2.group(2), int(m2.group(3)), m2.group(4)
                inst = "%s(%s)" % (name, ps)
                if (name, k) in seen and seen[(name, k)] != inst:
                    out.append(("collision", "collision: %s and %s have the same key %d" % (seen[(name, k)], inst, k)))
                seen[(name, k)] = inst
                if kp != inst:
                    c = cls.get(name)
                    why = "key_print of the key of %s says %s" % (inst, kp)
                    if c is not None and jdfgen.has_derived_param(c):
                        out.append(("keyprint-derived-param", why + " [parameter defined by an expression]"))
                    elif c is not None and jdfgen.header_permuted(c):
                        hp = tuple(int(x) for x in ps.split(",")) if ps else ()
                        local = inst_name(name, jdfgen.local_order_params(c, hp))
                        if kp == local:
                            # the registered finding: the right values, in definition order instead of header order
                            out.append(("keyprint-local-order", why + " [the values in definition order, not header order]"))
                        else:
                            out.append(("keyprint-header-order", why + " [neither the header-order nor the definition-order "
                                        "form %s of this instance: key and print disagree on the parameter order]" % local))
                    else:
                        out.append(("keyprint-wrong", why))
        return out

    def oracle(self, case, obs):
        fs = self.key_failures(case, obs)
        if not fs:
            return None
        fs.sort(key=lambda x: self.SEV.get(x[0], 2))
        return fs[0][1]

    def signature(self, case, obs):
        fs = self.key_failures(case, obs)
        if not fs:
            return "other"
        fs.sort(key=lambda x: self.SEV.get(x[0], 2))
        return fs[0][0]

    def shrink(self, case, impl_line):
        """keep only the class the oracle names, when it has no task dependencies, and re-run"""
        why = self.oracle(case, impl_line) or ""
        m = re.search(r"key of ([A-Za-z_]\w*)\(", why) or re.search(r"collision: ([A-Za-z_]\w*)\(", why)
        try:
            hd, pt = case.split("|", 1)
            prog = jdfgen.parse_case(pt)
            keep = [c for c in prog.classes if m and c.name == m.group(1)]
            if len(prog.classes) <= 1 or len(keep) != 1:
                return case, impl_line
            c = keep[0]
            if any(t is not None and t[0] == 'T' for f in c.flows for d in f.deps for t in (d.then, d.els)):
                return case, impl_line
            prog.classes = [c]
            small = "%s| %s" % (hd, jdfgen.to_case(prog))
            obs = self.one_case("shrink", 0, small)
            if self.oracle(small, obs):
                return small, obs
        except Exception:
            pass
        return case, impl_line

    def search_cases(self):
        r = self.rng
        out = []
        for i in range(12):
            p = jdfgen.gen_program(r, "keys", max_inst=150, allow_derived_param=False, allow_permuted=False)
            out.append("keys lfq:2 | %s" % jdfgen.to_case(p))
        return out
