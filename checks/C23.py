import os
import re
import sys

sys.path.insert(0, os.path.dirname(os.path.abspath(__file__)))
from ptg_common import PtgCheck, jdfgen  # noqa: E402


def inst_name(cls, ps):
    return "%s(%s)" % (cls, ",".join(str(v) for v in ps))


class C23(PtgCheck):
    id = "C23"
    prop_file = "theories/Properties/Properties_C23.v"
    theorems = ("C23_keys_injective", "C23_distinct_params_distinct_keys", "C23_unbounded_key_injective",
                "C23_key_below_range_product", "C23_decode_make_key", "C23_key_print_names_instance",
                "C23_key_print_derived_parameter_refuted", "C23_key_print_header_order_refuted")
    mode = "keys"
    level_text = ("Theorems over the model of the generated make_key / key_print (PTG/PTGDefs.v, mirroring jdf_generate_hashfunction_for, "
                  "the min/max collection of jdf_generate_internal_init and jdf_generate_deps_key_functions): for every class of every "
                  "wf program, make_key is injective on the instances (for the unbounded key without any hypothesis, for the uint64 key when "
                  "the product of the ranges is at most 2^64) and key_print(make_key a) recomputes all locals of a, when every parameter is a range. "
                  "The literal statement is refuted in two ways, each with a machine-checked witness replayed on the real code: a "
                  "parameter defined by an expression is printed as 0; parameters are printed in definition order, not header order. "
                  "Tie: for generated JDFs the GENERATED make_key/key_print are called through the taskpool's task_classes_array on every "
                  "executed instance and compared with the extracted model. Full for injectivity; the printing part holds as stated "
                  "only for range parameters printed in definition order.")
    level_note = ("Trusted: Coq kernel, extraction, ocaml/d_ptg.ml, tools/jdfgen.py printers, harness/ptg_driver.c (calls make_key and "
                  "key_functions->key_print after the run, when the generated internal_init has filled min/range). Assumes no int32 "
                  "overflow in the bounds and Π ranges <= 2^64.")
    technique = "Coq proof (mixed-radix injectivity / inversion over the enumerated execution space) + differential run of the generated key functions"
    rule = ("parameter-space shapes (1-4 parameters; negative, expression, derived-local and parameter-dependent bounds; steps; all-negative "
            "ranges; parameters defined by expressions; header order != definition order), few instances in huge bounding boxes (3-4 parameters, "
            "steps 2^10..2^30, negative bounds, product of the leading ranges 2^31-+small / 2^32 / 2^40 / 2^62..2^63, total <= 2^64) "
            "plus the C01 DAG templates; "
            "non-trivial = a class with at least 2 instances; distinct = program text")
    trusted = ("harness/ptg_driver.c reads the logged locals of every executed instance and calls tp->task_classes_array[id]->make_key / "
               "key_functions->key_print on them",)
    assumptions = ("the product of the parameter ranges of a class is at most 2^64, every range fits an int and int32 bounds do not overflow (generator: <= 200 instances, boxes up to 2^64)",
                   "every executed instance is logged (C01) — keys are computed for the executed instances")

    def cases(self):
        r = self.rng
        out = []
        n = 16 if self.tier == "quick" else 150
        for i in range(n):
            p = jdfgen.gen_program(r, "keys", max_inst=150)
            out.append("keys %s | %s" % (" ".join(self.draw_configs(r, 1)), jdfgen.to_case(p)))
        # few instances in huge bounding boxes: the multiplier of the last parameter is 2^31 -+ small, 2^32, 2^40, 2^62..2^63
        kinds = ["31-", "31+", "32", "40", "63"]
        for i in range(6 if self.tier == "quick" else 60):
            p = jdfgen.gen_program(r, "keysbig", max_inst=200, big_target=kinds[i % 5] if i < 5 else None)
            out.append("keys %s | %s" % (" ".join(self.draw_configs(r, 1)), jdfgen.to_case(p)))
        for i in range(6 if self.tier == "quick" else 40):
            p = jdfgen.gen_program(r)
            out.append("keys %s | %s" % (" ".join(self.draw_configs(r, 1)), jdfgen.to_case(p)))
        return out

    def nontrivial_key(self, case):
        try:
            p = jdfgen.parse_case(case.split("|", 1)[1])
        except Exception:
            return None
        per = {}
        for ci, ps in jdfgen.instances(p):
            per[ci] = per.get(ci, 0) + 1
        return case.split("|", 1)[1] if any(v >= 2 for v in per.values()) else None

    def dist(self, cases):
        d = PtgCheck.dist(self, cases)
        d.update({"params_hist": {}, "derived_param_classes": 0, "permuted_header_classes": 0, "log2_leading_range_product_hist": {}})
        for c in cases:
            try:
                p = jdfgen.parse_case(c.split("|", 1)[1])
            except Exception:
                continue
            for bs in jdfgen.range_boxes(p):
                lead = 1
                for b in bs[:-1]:
                    lead *= max(b, 1)
                k = str(10 * ((lead.bit_length() - 1) // 10)) + "+"
                d["log2_leading_range_product_hist"][k] = d["log2_leading_range_product_hist"].get(k, 0) + 1
            for cl in p.classes:
                k = str(len(cl.params))
                d["params_hist"][k] = d["params_hist"].get(k, 0) + 1
                d["derived_param_classes"] += 1 if jdfgen.has_derived_param(cl) else 0
                d["permuted_header_classes"] += 1 if jdfgen.header_permuted(cl) else 0
        return d

    def observation(self, prog, runs):
        names = [c.name for c in prog.classes]
        key = {n: i for i, n in enumerate(names)}
        per = []
        for cs, ents, info in runs:
            items = sorted((key.get(e.cls, 99), e.params, e.cls, e.key, e.keyprint.replace(" ", "")) for e in ents if not e.again)
            per.append((cs, info["end"], " ".join("%s=%d:%s" % (inst_name(c, ps), k, kp) for _, ps, c, k, kp in items)))
        if per and all(e == "rc=0" for _, e, _ in per) and len({x for _, _, x in per}) == 1:
            return "wf=1 " + per[0][2]
        return " || ".join("cfg=%s end=%s %s" % x for x in per)

    def oracle(self, case, obs):
        try:
            prog = jdfgen.parse_case(case.split("|", 1)[1])
        except Exception as ex:
            return None if obs.startswith("<bad case") else "unparsable case: %s" % ex
        if obs.startswith("<ptgpp-rejected") or obs.startswith("<generated-C") or obs.startswith("<link-failed"):
            return None
        if obs.startswith("<"):
            return "no observation: " + obs[:120]
        cls = {c.name: c for c in prog.classes}
        for ch in ([obs] if obs.startswith("wf=1 ") else obs.split(" || ")):
            m = re.match(r"cfg=(\S+) end=(\S+) (.*)$", ch)
            end, body = (m.group(2), m.group(3)) if m else ("rc=0", ch[5:])
            if end != "rc=0":
                return "run did not complete (%s): keys not observable" % end
            seen = {}
            for m2 in re.finditer(r"([A-Za-z_]\w*)\(([-0-9,]*)\)=(\d+):(\S+)", body):
                name, ps, k, kp = m2.group(1), m2.group(2), int(m2.group(3)), m2.group(4)
                inst = "%s(%s)" % (name, ps)
                if (name, k) in seen and seen[(name, k)] != inst:
                    return "collision: %s and %s have the same key %d" % (seen[(name, k)], inst, k)
                seen[(name, k)] = inst
                if kp != inst:
                    c = cls.get(name)
                    why = "key_print of the key of %s says %s" % (inst, kp)
                    if c is not None and jdfgen.has_derived_param(c):
                        return why + " [parameter defined by an expression]"
                    if c is not None and jdfgen.header_permuted(c):
                        return why + " [header order differs from definition order]"
                    return why
        return None

    def signature(self, case, obs):
        r = self.oracle(case, obs) or ""
        if "collision" in r:
            return "collision"
        if "defined by an expression" in r:
            return "keyprint-derived-param"
        if "header order" in r:
            return "keyprint-local-order"
        if "key_print" in r:
            return "keyprint-wrong"
        if "did not complete" in r:
            return "run-failed"
        return "other"

    def shrink(self, case, impl_line):
        """keep only the class the oracle names, when it has no task dependencies, and re-run"""
        why = self.oracle(case, impl_line) or ""
        m = re.search(r"key of ([A-Za-z_]\w*)\(", why) or re.search(r"collision: ([A-Za-z_]\w*)\(", why)
        try:
            hd, pt = case.split("|", 1)
            prog = jdfgen.parse_case(pt)
            keep = [c for c in prog.classes if m and c.name == m.group(1)]
            if len(prog.classes) <= 1 or len(keep) != 1:
                return case, impl_line
            c = keep[0]
            if any(t is not None and t[0] == 'T' for f in c.flows for d in f.deps for t in (d.then, d.els)):
                return case, impl_line
            prog.classes = [c]
            small = "%s| %s" % (hd, jdfgen.to_case(prog))
            obs = self.one_case("shrink", 0, small)
            if self.oracle(small, obs):
                return small, obs
        except Exception:
            pass
        return case, impl_line

    def search_cases(self):
        r = self.rng
        out = []
        for i in range(12):
            p = jdfgen.gen_program(r, "keys", max_inst=150, allow_derived_param=False, allow_permuted=False)
            out.append("keys lfq:2 | %s" % jdfgen.to_case(p))
        return out
