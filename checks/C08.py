from sched_common import SchedCheck, MODULES, HB, ONLY, parse_case, parse_obs, fmt_case, stale_flush


class C08(SchedCheck):
    id = "C08"
    prop_file = "theories/Properties/Properties_C08.v"
    theorems = ("C08_conservation", "C08_returned_were_scheduled", "C08_select_none_is_stutter",
                "C08_all_streams_idle_means_empty", "C08_drain_returns_everything", "C08_task_returned_within_bound",
                "C08_exactly_once")
    level_text = ("Theorems for all 11 modules (one statement quantified over the module), every configuration "
                  "(stream count, buffer sizes, parents, steal chains) and every finite history of whole "
                  "schedule/select/__parsec_schedule_vp/get_next_task operations by any streams: the identities handed in "
                  "are a permutation of those handed out plus those still held (nothing lost, nothing duplicated); a select "
                  "that returns NULL changes nothing; if every stream's select returns NULL the module holds nothing; hence "
                  "rounds of selection by the streams of the VP return every held task exactly once within |held| rounds and "
                  "then only NULL.  Tie: the installed module of parsec_init is driven through its function pointers on the "
                  "real execution streams and compared select by select with the extracted model. Full at operation granularity.")
    level_note = ("Atomicity is one whole module operation (sequential interleaving of operations); interleavings inside an "
                  "operation are the containers' own properties (C30 lifo, C31 list, C35 hbbuffer/heap). The hbbuffer "
                  "hierarchy built by flow_init from hwloc is read back from the real structures and given to the model as "
                  "configuration; liveness assumes every buffer is on some stream's chain (checked on that read-back). "
                  "Single virtual process. rand() of module rnd is replaced by the case's numbers.")
    technique = ("Coq proof (permutation invariant over operation histories for 11 module models + drain termination) "
                 "+ differential run of the installed PaRSEC scheduler modules against the extracted model")
    rule = ("per module and stream count (quick: 1, 2|3, 4|8 rotating with the seed; thorough: 1,2,3,4,5,8,16): random histories of schedule / schedule_vp / select / get_next_task / "
            "drain with rings of 1..16 (occasionally up to 64) tasks (ltq also: rings of 7..40 tasks sharing their input, "
            "i.e. one heap, distinct priorities, drained by the owning stream), priorities in a tiny range, distances 0..5, "
            "foreign-thread schedules, ending with a drain; non-trivial = at least one schedule; distinct = case text")
    trusted = ("harness replicates the 6-line static inline __parsec_get_next_task; rand() interposed by the harness; "
               "tasks are bare parsec_task_t with a dummy task class (one flow) and taskpool",)
    assumptions = ("operations of different streams are interleaved as whole operations (no concurrency inside one operation)",
                   "one virtual process; hwloc-derived buffer hierarchy is the one of the machine the check runs on",
                   "rand() + distance does not overflow int (the case's numbers are below 2^30)")

    FLUSH_STALE_CASES = True     # directed cases of finding flush-stale-ring (notes/findings/C08-flush-private-stale-ring.md)
    STREAMS_QUICK = (1, 2, 3, 4, 8)
    STREAMS_THOROUGH = (1, 2, 3, 4, 5, 8, 16)

    def cases(self):
        r = self.rng
        out = []
        quick = self.tier == "quick"
        per = 10 if quick else 60
        for mi, mod in enumerate(ONLY or MODULES):
            # quick tier: one process per (module, stream count) costs about a second: three counts per module,
            # rotating with the seed; all of them in the thorough tier and in the search after a failure
            streams = ((1, (2, 3)[(self.seed + mi) % 2], (4, 8)[(self.seed + mi // 2) % 2]) if quick
                       else self.STREAMS_THOROUGH)
            for n in streams:
                for k in range(per):
                    nops = r.pick([4, 8, 12, 20, 30])
                    big = (mod in HB) and k % 4 == 3
                    out.append(self.gen_history(r, mod, n, nops, vp_ops=(k % 2 == 0), maxring=16,
                                                dist_hi=r.pick([3, 3, 5]), big=big))
        # ltq: rings whose tasks share their input are grouped into ONE heap; heaps of 7..40 tasks with distinct
        # priorities, drained by the owning stream (heap_remove: last leaf to the top, sinking several levels)
        if not ONLY or "ltq" in ONLY:
            for k in range(12 if quick else 120):
                out.append(self.heap_history(r, (1, 1, 2, 3)[k % 4]))
        # flush_private of a task retained from a ring of three (finding flush-stale-ring); last in their groups.
        # (ap ip rnd spq hang and ltq crashes on the same input: not run every time, see search_cases)
        for mod in ("gd", "lfq", "ll", "pbq"):
            if self.FLUSH_STALE_CASES and (not ONLY or mod in ONLY):
                out.append("%s 2 | V 1 0 0:5:0:0:7 1:3:0:0:3 2:4:0:0:5 | F 1 | D" % mod)
        return out

    def heap_history(self, r, n):
        nextid = [0]
        ops = []
        owners = []
        for _ in range(r.pick([1, 1, 2])):
            size = r.range(7, 40)
            prios = r.shuffle(range(size)) if r.chance(3, 4) else [r.range(0, 9) for _ in range(size)]
            es = r.below(n)
            tag = r.range(0, 2)
            ring = []
            for p in prios:
                ring.append({"id": nextid[0], "prio": p * r.pick([1, 1, 7]), "tag": tag, "hi": 0, "rnd": 0})
                nextid[0] += 1
            ops.append(("S", es, 0, ring))
            owners.append((es, size))
            if r.chance(1, 2):
                for _ in range(r.range(1, size)):
                    ops.append(("L", es))
        for es, size in owners:
            for _ in range(size if n > 1 else r.range(0, 3)):
                ops.append(("L", es))
        ops.append(("D",))
        return fmt_case("ltq", n, ops)

    def search_cases(self):
        r = self.rng.fork()
        out = []
        for mod in (ONLY or MODULES):
            for n in (2, 5):
                for _ in range(8):
                    out.append(self.gen_history(r, mod, n, 40, vp_ops=True, maxring=32, dist_hi=5, big=True))
        for mod in (ONLY or MODULES):
            out.append("%s 2 | V 1 0 0:5:0:0:7 1:3:0:0:3 2:4:0:0:5 | F 1 | D" % mod)
        return out

    # ---- the property, on the implementation's observation alone ------------
    def oracle(self, case, obs):
        mod, n, ops = parse_case(case)
        if obs.startswith("<not run"):
            return None
        if obs.startswith("<crash"):
            return "the scheduler crashed on this history: " + obs[:120]
        po = parse_obs(obs)
        if po is None:
            return "no observation for this history: " + obs[:120]
        ev, left = po
        handed = set()
        returned = set()
        k = 0

        def give(i, what):
            if i not in handed:
                return "%s returned task %d which is not pending (never scheduled before this point)" % (what, i)
            if i in returned:
                return "%s returned task %d a second time" % (what, i)
            returned.add(i)
            return None
        for o in ops:
            if o[0] in ("S", "V"):
                for t in o[3]:
                    handed.add(t["id"])
                continue
            if o[0] == "F":
                continue
            if k >= len(ev):
                return "observation too short"
            e = ev[k]
            k += 1
            if o[0] in ("L", "N"):
                if e[0] != "sel":
                    return "observation does not follow the history"
                if e[1] >= 0:
                    w = give(e[1], "select on stream %d" % o[1])
                    if w:
                        return w
            else:
                if e[0] != "drain":
                    return "observation does not follow the history"
                for es, i in e[1]:
                    if not 0 <= es < n:
                        return "drain names stream %d" % es
                    w = give(i, "drain (stream %d)" % es)
                    if w:
                        return w
                missing = handed - returned
                if missing:
                    return ("task(s) %s never returned although every stream of the VP selected until a whole round was empty"
                            % sorted(missing)[:6])
        if k != len(ev):
            return "observation longer than the history"
        if left != len(handed) - len(returned):
            return "count mismatch: left=%d" % left
        return None

    def signature(self, case, obs):
        mod, n, ops = parse_case(case)
        why = self.oracle(case, obs) or ""
        if stale_flush(ops):
            return "flush-stale-ring"
        kind = ("crash" if "crash" in why else "dup" if "second time" in why else "unknown" if "not pending" in why
                else "lost" if "never returned" in why else "other")
        return "%s-%s" % (mod, kind)
