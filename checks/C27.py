import re

from vcheck import Check

INT32_MAX = 2147483647
HUGE = 1 << 44          # a byte limit whose element count exceeds INT32_MAX for every generated element size


def _pow2(a):
    return a > 1 and (a & (a - 1)) == 0


class C27(Check):
    id = "C27"
    prop_file = "theories/Properties/Properties_C27.v"
    theorems = ("C27_arena_never_twice", "C27_arena_blocks_allocated_not_freed", "C27_arena_aligned_and_sized",
                "C27_arena_block_sizes", "C27_arena_limit_respected", "C27_arena_used_accounting",
                "C27_arena_used_quiescent", "C27_arena_used_transient_exceeds", "C27_arena_refuses_beyond_limit",
                "C27_construct_limits", "C27_construct_rejects",
                "C27_cache_counter_exact", "C27_cache_bound_refuted", "C27_cache_bound_true",
                "C27_cache_bound_tight", "C27_cache_bound_fixed", "C27_cache_bound_one_thread", "C27_cache_bound_nonoverlapping",
                "C27_mempool_never_twice", "C27_mempool_returns_to_owner", "C27_mempool_accounting")
    comp = "arena"
    extract_file = "theories/Extract/Extract_Arena.v"
    extracted = ("arena",)
    harness_src = "harness/h_arena.c"
    harness_cflags = ("-DBUILDING_PARSEC",)
    link_parsec = True
    # False: the model follows parsec_arena_release_chunk as it is in the repository (plain read of `released`, separate
    # increment).  Set to True once notes/findings/C27-cache-limit-race.patch is applied to the repository: the cases then
    # select the model of the repaired code (astep true) and C27_cache_bound_fixed is the theorem that applies.
    fixed = True
    level_text = ("Theorems over atomic-step models of the arena chunk cache (parsec_arena_allocate_device_private / get_chunk / "
                  "release_chunk with the used/released counters, the plain read of `released` followed by a separate increment, the "
                  "INT32_MAX 'unlimited' sentinels, failing allocator calls) and of the thread mempools (pop own pool or create, push "
                  "to the owner's pool): for ANY number of threads, ANY op lists (a thread releases/gives only blocks it holds) and "
                  "EVERY schedule, blocks in hand are pairwise distinct, allocated, not freed and not cached (never handed out twice); "
                  "each block was allocated with the size that makes the aligned data region fit (arithmetic lemma over PARSEC_ALIGN); "
                  "allocated elements never exceed max_used, `used` = allocated + increments of requests being refused; released = "
                  "cached + in-flight. The cache bound `released <= max_released` is REFUTED for 2 threads (C27_cache_bound_refuted, "
                  "replayed on the real code: finding F5) and the true bound max_released + threads - 1 is proved and shown tight; "
                  "the bound holds for one thread and for runs whose release windows do not overlap; for the repaired release_chunk "
                  "(notes/findings/C27-cache-limit-race.patch, model variant fx=true, selected by `fixed`) the limit is proved for every "
                  "schedule (C27_cache_bound_fixed). Tie: arena.c and mempool.c are "
                  "compiled in the harness with yielding atomics and one scheduling point per LIFO operation, and run under the same "
                  "schedules in ucontext coroutines; per-op results (block ids, data offsets, allocation sizes), counters, the cache "
                  "content, freed blocks, maxima over all steps and per-thread step counts are compared with the extracted model. Full.")
    level_note = ("Trusted: Coq kernel, extraction, cosched/interpose.h, harness allocator (arena->data_malloc/data_free hooks: "
                  "fresh ids, chosen misalignment, guard bytes, chosen NULL returns) and ownership tags. The LIFO is an atomic stack in "
                  "model and harness (lifo.h is included before interpose.h; linearizability is C30), sequentially consistent atomics, "
                  "no int32 overflow of the counters. sizeof(parsec_arena_chunk_t)=72 and sizeof(parsec_list_item_t)=48 are model "
                  "constants printed by the harness. GPU paths of arena.c (parsec_arena_get_new_copy on a device) and "
                  "data_copy/data_t bookkeeping are not modelled; posix_memalign of parsec_lifo_item_alloc is trusted for alignment.")
    technique = ("Coq invariant proofs over all schedules (counting invariants on per-thread program counters) + controlled-schedule "
                 "differential run of the real arena.c / mempool.c (ucontext coroutines, macro-interposed atomics and LIFO call sites)")
    rule = ("random op lists (get 1..3 elements / release k-th held / give to another thread) for 1..5 threads, element sizes, "
            "alignments 2..256 and invalid ones, small max_used / max_released (0..6 elements) or unlimited, failing allocator calls, "
            "allocator misalignment; schedules: sequential, round-robin, 'all releases read the counter before anyone increments', "
            "bursts, random; non-trivial = at least 2 threads whose steps interleave, or 1 thread with >= 3 operations; distinct = case text")
    trusted = ("cosched.h/interpose.h scheduling points; harness allocator and ownership tags in harness/h_arena.c",)
    assumptions = ("sequentially consistent atomics (parsec_atomic_* are full-barrier builtins)",
                   "the LIFO behaves as an atomic stack (C30)",
                   "a thread releases or gives away only blocks it currently holds; counters stay below 2^31")

    # ------------------------------------------------------------------ generators
    def sched(self, r, nt, progs_len, kind=None):
        tot = 4 * sum(progs_len) + nt
        if kind is None:
            kind = r.below(6)
        if kind == 0:      # sequential: every thread runs to completion in turn
            return [t for t in r.shuffle(range(nt)) for _ in range(4 * progs_len[t] + 1)]
        if kind == 1:      # round robin
            return [t for _ in range(max(progs_len) * 4 + 1) for t in range(nt)]
        if kind == 2:      # reverse round robin
            return [t for _ in range(max(progs_len) * 4 + 1) for t in reversed(range(nt))]
        if kind == 3:      # bursts
            s = []
            while len(s) < tot:
                s += [r.below(nt)] * r.range(1, 4)
            return s
        return [r.below(nt) for _ in range(r.range(0, tot))]

    def arena_ops(self, r, nt, n, big):
        ops, held = [], 0
        for _ in range(n):
            k = r.below(10)
            if k < 5 or held == 0 and k < 8:
                ops.append("1 %d" % (r.range(2, 3) if big and r.chance(1, 5) else 1))
                held += 1
            elif k < 9:
                ops.append("2 %d" % r.below(max(1, held) + (1 if r.chance(1, 8) else 0)))
                held = max(0, held - 1)
            else:
                ops.append("3 %d %d" % (r.below(max(1, held)), r.below(nt + (1 if r.chance(1, 10) else 0))))
                held = max(0, held - 1)
        return ops

    def arena_case(self, r):
        nt = r.range(1, 5)
        es = r.pick([1, 3, 8, 24, 40, 100, 7, 64])
        al = r.pick([2, 4, 8, 16, 16, 32, 64, 128, 256])
        if r.chance(1, 25):
            al = r.pick([0, 1, 3, 6, 12, 24, 48, 100])
        if r.chance(1, 60):
            es = 0
        mu = r.pick([0, 1, 2, 2, 3, 4, 5, 6, -1, -1])
        mr = r.pick([0, 1, 1, 2, 2, 3, 4, -1])
        e1 = max(es, 1)
        maxalloc = HUGE if mu < 0 else mu * e1 + r.below(e1)
        maxcached = HUGE if mr < 0 else mr * e1 + r.below(e1)
        mis = 8 * r.below(512)
        fails = sorted(set(r.below(8) for _ in range(r.range(1, 3)))) if r.chance(1, 5) else []
        return nt, es, al, maxalloc, maxcached, mis, fails

    def fmt_arena(self, hdr, progs, sched):
        nt, es, al, maxalloc, maxcached, mis, fails = hdr
        return "A %d %d %d %d %d %d | %d %s | %d | %s | %s" % (
            es, al, maxalloc, maxcached, mis, 1 if self.fixed else 0, len(fails), " ".join(map(str, fails)), nt,
            " | ".join(" ".join(p) for p in progs), " ".join(map(str, sched)))

    def arena_random(self, r):
        hdr = self.arena_case(r)
        nt = hdr[0]
        progs = [self.arena_ops(r, nt, r.range(1, 8), True) for _ in range(nt)]
        return self.fmt_arena(hdr, progs, self.sched(r, nt, [len(p) for p in progs]))

    def arena_release_race(self, r):
        """every thread obtains m blocks, then all release at once: the reads of `released` happen before any increment"""
        nt = r.range(2, 5)
        es = r.pick([8, 24, 100])
        al = r.pick([8, 16, 64])
        mr = r.range(0, 3)
        mu = r.pick([-1, 2 * nt, 8])
        m = r.range(1, 2)
        hdr = (nt, es, al, HUGE if mu < 0 else mu * es, mr * es + r.below(es), 8 * r.below(64), [])
        tail = r.below(3)
        progs = [["1 1"] * m + ["2 0"] * m + (["1 1"] if tail == 1 else []) + (["1 1", "2 0"] if tail == 2 else [])
                 for _ in range(nt)]
        sched = []
        for t in r.shuffle(range(nt)):
            sched += [t] * (3 * m)                 # start, pop, add+malloc per get
        order = r.shuffle(range(nt))
        sched += order                              # every release performs its plain read
        if r.chance(1, 2):
            sched += order + order                 # increments, then pushes
        else:
            sched += [t for t in r.shuffle(range(nt)) for _ in range(2)]
        return self.fmt_arena(hdr, progs, sched)

    def arena_limit_race(self, r):
        """threads race for the last elements of the allocation budget"""
        nt = r.range(2, 5)
        es = r.pick([8, 40])
        mu = r.range(1, nt)
        hdr = (nt, es, r.pick([8, 32]), mu * es, r.pick([0, 1, HUGE]) * es, 8 * r.below(64), [])
        progs = [["1 %d" % r.pick([1, 1, 2])] + self.arena_ops(r, nt, r.range(0, 4), True) for _ in range(nt)]
        sched = list(range(nt)) * 2 + self.sched(r, nt, [len(p) for p in progs])
        return self.fmt_arena(hdr, progs, sched)

    def mempool_case(self, r):
        nt = r.range(1, 5)
        esz = r.range(57, 200)
        progs = []
        for _ in range(nt):
            ops, held = [], 0
            for _ in range(r.range(1, 8)):
                k = r.below(10)
                if k < 4 or held == 0 and k < 7:
                    ops.append("1")
                    held += 1
                elif k < 7:
                    ops.append("2 %d" % r.below(max(1, held) + (1 if r.chance(1, 8) else 0)))
                    held = max(0, held - 1)
                else:
                    ops.append("3 %d %d" % (r.below(max(1, held)), r.below(nt + (1 if r.chance(1, 10) else 0))))
                    held = max(0, held - 1)
            # elements received from other threads are freed at the end (indices that may or may not exist)
            ops += ["2 0"] * r.range(0, 3)
            progs.append(ops)
        return "M %d %d | %d | %s | %s" % (esz, r.below(2), nt, " | ".join(" ".join(p) for p in progs),
                                            " ".join(map(str, self.sched(r, nt, [len(p) for p in progs]))))

    def corpus(self):
        # directed cases are stored for the unrepaired model; the 6th header number follows self.fixed
        out = []
        for line in super().corpus():
            f = line.split("|")
            h = f[0].split()
            if h and h[0] == "A" and len(h) >= 7:
                h[6] = "1" if self.fixed else "0"
                line = " ".join(h) + " |" + "|".join(f[1:])
            out.append(line)
        return out

    def cases(self):
        r = self.rng
        out = []
        N = 1200 if self.tier == "quick" else 30000
        for i in range(N):
            k = r.below(10)
            if k < 4:
                out.append(self.arena_random(r))
            elif k < 6:
                out.append(self.arena_release_race(r))
            elif k < 7:
                out.append(self.arena_limit_race(r))
            else:
                out.append(self.mempool_case(r))
        return out

    def search_cases(self):
        r = self.rng.fork()
        return [self.arena_release_race(r) for _ in range(300)] + [self.arena_limit_race(r) for _ in range(300)] + \
               [self.mempool_case(r) for _ in range(300)]

    # ------------------------------------------------------------------ bookkeeping
    @staticmethod
    def fields(case):
        return [x.strip() for x in case.split("|")]

    def shape(self, case):
        f = self.fields(case)
        if case.startswith("A"):
            nt = int(f[2])
            progs = f[3:3 + nt]
            s = f[3 + nt].split() if len(f) > 3 + nt else []
        else:
            nt = int(f[1])
            progs = f[2:2 + nt]
            s = f[2 + nt].split() if len(f) > 2 + nt else []
        return nt, progs, s

    def nontrivial_key(self, case):
        nt, progs, s = self.shape(case)
        if nt >= 2:
            inter = any(s[i] != s[i + 1] and s[i] in s[i + 2:] for i in range(len(s) - 2))
            return case if inter else None
        nops = sum(1 for w in progs[0].split()) if progs else 0
        return case if nops >= 6 else None

    def dist(self, cases):
        d = {"arena": 0, "mempool": 0, "threads_hist": {}, "arena_limited_used": 0, "arena_limited_cache": 0,
             "arena_bad_params": 0, "arena_failing_allocator": 0}
        for c in cases:
            nt, _, _ = self.shape(c)
            d["threads_hist"][str(nt)] = d["threads_hist"].get(str(nt), 0) + 1
            if c.startswith("A"):
                d["arena"] += 1
                h = [int(x) for x in self.fields(c)[0].split()[1:]]
                if h[0] == 0 or not _pow2(h[1]):
                    d["arena_bad_params"] += 1
                else:
                    d["arena_limited_used"] += int(h[2] // h[0] < INT32_MAX)
                    d["arena_limited_cache"] += int(h[3] // h[0] < INT32_MAX)
                d["arena_failing_allocator"] += int(self.fields(c)[1].split()[0] != "0")
            else:
                d["mempool"] += 1
        return d

    # ------------------------------------------------------------------ oracle: the property, on the implementation's observation
    @staticmethod
    def lists(txt):
        return [[int(x) for x in m.split()] for m in re.findall(r"\[([^\]]*)\]", txt)]

    def oracle(self, case, obs):
        why = self.judge(case, obs)
        return why[1] if why else None

    def judge(self, case, obs):
        """(signature, text) of the first violation of the property visible in the observation, or None"""
        if obs.startswith("<") or "<deadlock>" in obs:
            return ("no-result", "operations did not complete: " + obs[:80])
        o = self.fields(obs)
        try:
            if case.startswith("A"):
                return self.judge_arena(case, obs, o)
            return self.judge_mempool(case, obs, o)
        except Exception as e:      # unparsable observation
            return ("unparsable", "unparsable observation (%s): %s" % (e, obs[:80]))

    def judge_arena(self, case, obs, o):
        h = [int(x) for x in self.fields(case)[0].split()[1:]]
        es, al, maxalloc, maxcached, mis = h[:5]
        nt, _, _ = self.shape(case)
        valid = es != 0 and _pow2(al)
        if "rc=bad" in o[0]:
            return None if not valid else ("construct", "valid arena parameters rejected")
        if not valid:
            return ("construct", "arena accepted element size %d alignment %d" % (es, al))
        hdr = int(re.search(r"hdr=(\d+)", o[0]).group(1))
        lim_u = min(maxalloc // es, INT32_MAX)
        lim_r = min(maxcached // es, INT32_MAX)
        if "dup=0" not in o[-1]:
            return ("double-handout", "a block was handed out while another holder had it (ownership tags)")
        if "bad=0" not in o[-1]:
            return ("block-shape", "a handed-out block is misaligned, too small, overlaps its header or a guard was overwritten")
        for t in range(nt):
            for g in re.findall(r"g(\d+)/(\d+)/(\d+)/(\d+)", o[1 + t]):
                b, cnt, off, size = map(int, g)
                base = (mis * (b + 1)) % 4096
                if off < hdr or (base + off) % al != 0:
                    return ("alignment", "block %d: data offset %d not aligned to %d or inside the header" % (b, off, al))
                if off + cnt * es > size:
                    return ("size", "block %d: %d elements of %d bytes do not fit (offset %d, allocated %d)" % (b, cnt, es, off, size))
        held = self.lists(o[1 + nt])
        rest = o[2 + nt]
        lifo = self.lists(rest)[0]
        freed = self.lists(rest)[1]
        allh = [b for l in held for b in l]
        if -1 in lifo:
            return ("double-handout", "the cache contains a block that was given back to the allocator: cache %s freed %s" % (lifo, freed))
        if len(set(allh)) != len(allh):
            return ("double-handout", "a block is held twice at the end: %s" % held)
        if set(allh) & set(lifo) or len(set(lifo)) != len(lifo):
            return ("double-handout", "a held block is also cached (or cached twice): held %s cache %s" % (held, lifo))
        if set(allh) & set(freed):
            return ("double-handout", "a held block was freed: held %s freed %s" % (held, freed))
        mx = dict((k, int(v)) for k, v in re.findall(r"(\w+)=(\d+)", o[3 + nt]))
        if lim_u < INT32_MAX and mx["live"] > lim_u:
            return ("limit", "%d elements allocated at once, allocation limit is %d" % (mx["live"], lim_u))
        if lim_r < INT32_MAX and mx["lifo"] > lim_r:
            # the excess that concurrent test-then-increment releases can produce is at most threads-1 (C27_cache_bound_true);
            # anything else (one thread, or a larger excess) is a different failure
            sig = "cache-limit-race" if nt >= 2 and mx["lifo"] <= lim_r + nt - 1 else "cache-limit"
            return (sig, "%d released blocks cached at once, cache limit is %d (%d threads)" % (mx["lifo"], lim_r, nt))
        return None

    def judge_mempool(self, case, obs, o):
        esz = int(self.fields(case)[0].split()[1])
        nt, _, _ = self.shape(case)
        if "dup=0" not in o[-1]:
            return ("mempool-double-handout", "an element was handed out while another holder had it (ownership tags)")
        if "bad=0" not in o[-1]:
            return ("mempool-shape", "an element is misaligned, too small or sits in a pool that is not its owner's")
        if int(re.search(r"esz=(\d+)", o[0]).group(1)) < esz:
            return ("mempool-shape", "element size smaller than asked")
        for t in range(nt):
            for b, own in re.findall(r"g(\d+)/(-?\d+)", o[1 + t]):
                if int(own) != t:
                    return ("mempool-owner", "thread %d obtained element %s owned by pool %s from its own pool" % (t, b, own))
        held = self.lists(o[1 + nt])
        pools = self.lists(o[2 + nt])
        allh = [b for l in held for b in l]
        allp = [b for l in pools for b in l]
        if len(set(allh)) != len(allh) or len(set(allp)) != len(allp) or set(allh) & set(allp):
            return ("mempool-double-handout", "an element is held / pooled twice: held %s pools %s" % (held, pools))
        return None

    def signature(self, case, obs):
        why = self.judge(case, obs)
        return why[0] if why else "none"
