from vcheck import Check

LOOK, CREATE, ADDTO, USE = 0, 1, 2, 3
KEYPOOL = [0, 1, 2, 3, 5, 7, 17, 4294967299, 8589934592, 1000003, 65536, 4294967296]


def parse_case(case):
    """-> (nb, progs, sched, respecting) ; progs[t] = [(kind, key, arg)]"""
    f = [x.strip() for x in case.split("|")]
    hd = f[0].split()
    nb, nt = int(hd[0]), int(hd[1])
    progs = []
    for t in range(nt):
        v = [int(x) for x in f[1 + t].split()]
        progs.append([(v[i], v[i + 1], v[i + 2]) for i in range(0, len(v) - 2, 3)])
    sched = [int(x) for x in f[1 + nt].split()] if len(f) > 1 + nt else []
    resp = int(f[2 + nt]) if len(f) > 2 + nt and f[2 + nt] else 0
    return nb, progs, sched, resp


def wellformed(progs):
    """the client protocol, statically: every addto closes a create of the same thread with the same amount"""
    for p in progs:
        held = []
        for (k, key, arg) in p:
            if k == CREATE:
                if arg < 0:
                    return False
                held.append((key, arg))
            elif k == ADDTO:
                if (key, arg) not in held:
                    return False
                held.remove((key, arg))
        if held:
            return False
    return True


def completes(progs, order_rng):
    """client-level run with atomic operations: does every thread finish (no use waits for ever)?"""
    pos = [0] * len(progs)
    bud = {}
    while True:
        ready = []
        for t, p in enumerate(progs):
            if pos[t] < len(p):
                k, key, arg = p[pos[t]]
                if k != USE or bud.get(key, 0) > 0:
                    ready.append(t)
        if not ready:
            return all(pos[t] == len(p) for t, p in enumerate(progs))
        t = order_rng.pick(ready)
        k, key, arg = progs[t][pos[t]]
        if k == CREATE:
            bud[key] = bud.get(key, 0) + arg
        elif k == USE:
            bud[key] -= 1
        pos[t] += 1


class C25(Check):
    id = "C25"
    prop_file = "theories/Properties/Properties_C25.v"
    theorems = ("C25_present_iff_needed", "C25_fields_account", "C25_present_while_retained_or_unused",
                "C25_reclaimed_in_the_very_step", "C25_no_use_finds_it_missing", "C25_freed_once",
                "C25_quiescent_contents", "C25_quiescent_empty", "C25_mutual_exclusion", "C25_sequential_refinement")
    comp = "repo"
    extract_file = "theories/Extract/Extract_Repo.v"
    extracted = ("repo",)
    harness_src = "harness/h_repo.c"
    harness_cflags = ("-DBUILDING_PARSEC",)
    link_parsec = True
    level_text = ("Theorems over an atomic-step model of data_repo_lookup_entry / lookup_entry_and_create / entry_addto_usage_limit / "
                  "entry_used_once (steps = the code between two bucket-lock operations or atomic RMWs, as in the C) with the client "
                  "protocol of jdf2c.c as ghost state: for ANY number of threads, ANY per-thread operation lists in which every create is "
                  "closed by one addto of the same thread announcing the promised amount, and ANY schedule (arbitrary list of thread ids): "
                  "an entry is in the table iff a creator still holds it or a granted use is outstanding; retained = number of holders and "
                  "usagecnt + outstanding = usagelmt + still-promised; hence it is removed in the very step that makes retained = 0 and "
                  "usagecnt = usagelmt; no granted use and no addto ever finds the entry missing (no NULL dereference); no incarnation "
                  "is given back to the mempool twice (that every allocated incarnation is in the table, private to one thread, or freed is "
                  "checked by the oracle on each run, not proved); when all "
                  "threads have finished the table holds exactly the keys whose announced uses were not all performed (empty when they "
                  "were); critical sections of one bucket exclude each other; one thread alone executes each operation as the sequential "
                  "specification. Tie: the real datarepo.c + parsec_hash_table.c (compiled in the harness with yielding locks/atomics) run "
                  "under the same schedules in ucontext coroutines with a real parsec_mempool; events, final table and per-thread step "
                  "counts are compared with the extracted model. Full level.")
    level_note = ("Trusted: Coq kernel, extraction, cosched/interpose.h (a yield before every bucket lock attempt / unlock / atomic RMW; the "
                  "plain accesses under the lock belong to the preceding segment, as in the model; code after an unlock runs in the same segment "
                  "as the unlock, so the harness also probes that every nolock_* table access of datarepo.c happens with the bucket locked), "
                  "the h_alloc/h_free routing of "
                  "parsec_thread_mempool_allocate/free (LIFO operations run unscheduled: they are C27/C30's subject), the hand-built "
                  "mempool / execution stream and the hash-table tunables set as parsec_init does (no resize with <= 16 collisions; the "
                  "table rw-lock of libparsec is never write-locked). Assumes SC atomics, int32 counters that do not overflow. The gate "
                  "'a use starts only after a creator granted it' is the client's dependency tracking, modelled as a ghost budget.")
    technique = ("Coq invariant proof over all schedules (sums over the thread list) + controlled-schedule differential run "
                 "(ucontext coroutines, macro-interposed locks and atomics) of the real repository")
    rule = ("random client programs (1..4 threads, <= 4 keys, 1..3 bucket bits so that keys share buckets; producers create+announce, "
            "consumers use, PTG-like own-entry pattern, nested sessions, re-incarnations) with schedules: sequential, round-robin, "
            "priority bursts (consumers first / producers first / announcement last / first), random bursts; 1 in 8 cases breaks the "
            "protocol (diff only). non-trivial = at least 2 threads touching a common key and an interleaving schedule; distinct = case text")
    trusted = ("cosched.h/interpose.h scheduling points; harness-built parsec_mempool_t / parsec_execution_stream_t; "
               "h_alloc/h_free wrappers around the inline mempool entry points (incarnation ids, reclaim events)",)
    assumptions = ("sequentially consistent atomics and locks (parsec_atomic_* are full-barrier builtins)",
                   "clients follow the protocol of datarepo.h: each lookup_entry_and_create is followed by one addto_usage_limit by the same "
                   "actor; consumers are enabled by a creator that counts them in its announcement",
                   "usage counters stay within int32")

    # ------------------------------------------------------------------
    def gen_programs(self, r):
        nt = r.pick([1, 2, 2, 3, 3, 4, 4])
        nk = r.pick([1, 1, 2, 2, 3, 4])
        keys = r.shuffle(KEYPOOL)[:nk]
        progs = [[] for _ in range(nt)]
        # every key gets a few producer sessions and the matching consumers
        for key in keys:
            for _ in range(r.pick([1, 1, 2, 2, 3])):
                pt = r.below(nt)
                p = r.pick([0, 1, 1, 2, 2, 3])
                style = r.below(4)
                if style == 0 and p >= 1:
                    # generated-code pattern: data_lookup creates and announces 1 (its own final use),
                    # release_deps retains again, announces the successors, then consumes its own use
                    progs[pt] += [(CREATE, key, 1), (ADDTO, key, 1), (CREATE, key, p - 1), (ADDTO, key, p - 1), (USE, key, 0)]
                    nuse = p - 1
                else:
                    inner = []
                    if r.chance(1, 3) and len(keys) > 1:   # reshape: a session on another key inside
                        k2 = r.pick(keys)
                        q = r.below(2)
                        inner = [(CREATE, k2, q), (ADDTO, k2, q)] + [(USE, k2, 0)] * q
                    if r.chance(1, 4):
                        inner.append((LOOK, key, 0))
                    progs[pt] += [(CREATE, key, p)] + inner + [(ADDTO, key, p)]
                    nuse = p
                if r.chance(1, 10) and nuse > 0:
                    nuse -= 1                                # an announced use that never happens: the entry must stay
                for _ in range(nuse):
                    ct = r.below(nt)
                    if r.chance(1, 5):
                        progs[ct].append((LOOK, key, 0))
                    progs[ct].append((USE, key, 0))
            if r.chance(1, 3):
                progs[r.below(nt)].append((LOOK, key, 0))
        # shuffle the order of independent blocks inside a thread a little: rotate
        for t in range(nt):
            if progs[t] and r.chance(1, 3):
                # move trailing uses / lookups to the front: consumers that wait for their producer
                tail = []
                while progs[t] and progs[t][-1][0] in (USE, LOOK) and r.chance(2, 3):
                    tail.append(progs[t].pop())
                progs[t] = tail[::-1] + progs[t]
        return nt, keys, progs

    def break_protocol(self, r, progs):
        flat = [(t, i) for t in range(len(progs)) for i in range(len(progs[t]))]
        if not flat:
            return
        t, i = r.pick(flat)
        k, key, arg = progs[t][i]
        how = r.below(5)
        if how == 0 and k == ADDTO:
            progs[t][i] = (k, key, arg + 1)                 # announces more than promised: entry stays
        elif how == 1 and k == CREATE:
            progs[t][i] = (k, key, arg + 1)                 # promises more than announced: cnt passes lmt
        elif how == 2 and k == ADDTO:
            del progs[t][i]                                  # never releases: retained forever
        elif how == 3:
            progs[t].insert(i, (ADDTO, key, r.below(2)))    # addto without create
        else:
            progs[t].insert(i, (CREATE, key, 1))            # create never closed, grants one extra use
            progs[r.below(len(progs))].append((USE, key, 0))

    def sched(self, r, nt, progs):
        total = sum(6 * len(p) for p in progs) + 4
        kind = r.below(7)
        if kind == 0:      # sequential in a random thread order
            return [t for t in r.shuffle(range(nt)) for _ in range(6 * len(progs[t]) + 1)]
        if kind == 1:      # round robin (possibly reversed)
            order = list(range(nt)) if r.chance(1, 2) else list(reversed(range(nt)))
            return [t for _ in range(total // max(nt, 1) + 1) for t in order]
        if kind in (2, 3):  # priority bursts: a permutation, long bursts (blocked threads stutter)
            out = []
            for _ in range(r.range(2, 6)):
                for t in r.shuffle(range(nt)):
                    out += [t] * r.pick([1, 2, 3, 5, 8, 13])
            return out
        if kind == 4:      # everybody takes its first lock attempt, then random
            return list(range(nt)) * 2 + [r.below(nt) for _ in range(r.range(0, total))]
        if kind == 5:      # random bursts
            out = []
            while len(out) < total:
                out += [r.below(nt)] * r.range(1, 6)
            return out
        return [r.below(nt) for _ in range(r.range(0, total))]

    def fmt(self, nb, progs, sched, resp):
        secs = [" ".join("%d %d %d" % o for o in p) for p in progs]
        return "%d %d | %s | %s | %d" % (nb, len(progs), " | ".join(secs), " ".join(map(str, sched)), resp)

    def directed(self):
        """the orders named in the property: last use before / after the announcement, retained released first / last"""
        out = []
        P = [(CREATE, 5, 2), (ADDTO, 5, 2)]
        C = [(USE, 5, 0)]
        for nb in (1, 2):
            # uses complete before the announcement (reclaimed by addto) / after it (reclaimed by the last use)
            out.append(self.fmt(nb, [P, C, C], [0] * 5 + [1] * 6 + [2] * 6 + [0] * 4, 1))
            out.append(self.fmt(nb, [P, C, C], [0] * 9 + [1] * 6 + [2] * 6, 1))
            out.append(self.fmt(nb, [P, C, C], [0] * 5 + [1] * 4 + [2] * 4 + [0] * 3 + [1, 2, 1, 2, 0], 1))
            # two creators: the one that found the entry releases last / first
            Q = [(CREATE, 5, 1), (ADDTO, 5, 1)]
            out.append(self.fmt(nb, [Q, Q, C, C], [0] * 5 + [1] * 3 + [0] * 4 + [2] * 6 + [3] * 6 + [1] * 4, 1))
            out.append(self.fmt(nb, [Q, Q, C, C], [0] * 5 + [1] * 7 + [2] * 6 + [3] * 6 + [0] * 4, 1))
            # both creators miss, race for the insertion
            out.append(self.fmt(nb, [Q, Q, C, C], [0, 1, 0, 1, 0, 1, 0, 1, 0, 1], 1))
            out.append(self.fmt(nb, [Q, Q, C, C], [0, 0, 0, 1, 1, 1, 1, 1, 0, 0], 1))
            # re-incarnation: reclaimed, then created again under the same key
            out.append(self.fmt(nb, [Q + C + Q + C], [], 1))
            out.append(self.fmt(nb, [Q + Q, C + C], [0] * 9 + [1] * 6 + [0] * 9 + [1] * 6, 1))
            # two keys in the same bucket (nb = 1 has two buckets only)
            out.append(self.fmt(nb, [[(CREATE, 1, 1), (ADDTO, 1, 1)], [(CREATE, 3, 1), (ADDTO, 3, 1)], [(USE, 1, 0), (USE, 3, 0)]],
                                [0, 1, 0, 1, 2, 0, 1, 2, 2, 0, 1], 1))
        return out

    def cases(self):
        r = self.rng
        out = self.directed()
        N = 6000 if self.tier == "quick" else 120000
        while len(out) < N:
            nt, keys, progs = self.gen_programs(r)
            resp = 1
            if r.chance(1, 8):
                self.break_protocol(r, progs)
                resp = 1 if wellformed(progs) else 0
            if max(len(p) for p in progs) > 40:
                continue
            if resp and not all(completes(progs, r) for _ in range(3)):
                if not r.chance(1, 20):      # keep a few starving client sets (compared with the model only)
                    continue
            nb = r.pick([1, 1, 2, 2, 3])
            for _ in range(r.pick([1, 2, 3])):
                out.append(self.fmt(nb, progs, self.sched(r, nt, progs), resp))
        return out

    def search_cases(self):
        r = self.rng.fork()
        out = []
        for _ in range(3000):
            nt, keys, progs = self.gen_programs(r)
            if max(len(p) for p in progs) > 40 or not all(completes(progs, r) for _ in range(3)):
                continue
            out.append(self.fmt(r.pick([1, 2]), progs, self.sched(r, nt, progs), 1))
        return out

    def nontrivial_key(self, case):
        try:
            nb, progs, sched, resp = parse_case(case)
        except Exception:
            return None
        if len(progs) < 2 or len(sched) < 3:
            return None
        touched = {}
        for t, p in enumerate(progs):
            for (k, key, arg) in p:
                touched.setdefault(key, set()).add(t)
        if not any(len(s) >= 2 for s in touched.values()):
            return None
        inter = any(sched[i] != sched[i + 1] and sched[i] in sched[i + 2:] for i in range(len(sched) - 2))
        return case if inter else None

    def dist(self, cases):
        d = {"protocol_respecting": 0, "threads_hist": {}, "keys_hist": {}, "ops_total": 0}
        for c in cases:
            nb, progs, sched, resp = parse_case(c)
            d["protocol_respecting"] += resp
            d["threads_hist"][str(len(progs))] = d["threads_hist"].get(str(len(progs)), 0) + 1
            nk = len({key for p in progs for (_, key, _) in p})
            d["keys_hist"][str(nk)] = d["keys_hist"].get(str(nk), 0) + 1
            d["ops_total"] += sum(len(p) for p in progs)
        return d

    # ------------------------------------------------------------------
    # the property, decided on the implementation's observation (events, final table) and the
    # client programs of the case; no model.
    def oracle(self, case, obs):
        try:
            nb, progs, sched, resp = parse_case(case)
        except Exception:
            return None
        if not resp:
            return None          # protocol-violating clients: compared with the model only
        if "<crash" in obs or "<died" in obs or "<exit" in obs:
            return "a protocol-respecting operation dereferenced a missing entry: " + obs[-60:]
        if "<timeout>" in obs or "<impl" in obs:
            return "the repository did not answer: " + obs[-80:]
        parts = [x.strip() for x in obs.split("|")]
        if len(parts) < 3:
            return "unparsable observation " + obs[:80]
        evs = parts[0].split()
        deadlock = "<deadlock>" in obs
        starved = "<starved>" in obs      # clients waiting for grants of each other: not the repository's doing
        nt = len(progs)
        pos = [0] * nt                       # operations of each thread that have returned
        live = {}                            # key -> incarnation id currently in the table (by the events)
        seen_ids, freed_ids = set(), set()
        # per key, since the current incarnation was created: counts of returned operations
        # (cumulative over incarnations: at every reclamation holders = 0 and uses = announced, so the
        # same equalities hold for the totals; late returns of operations on a dead incarnation are harmless)
        allkeys = {key for p in progs for (_, key, _) in p}
        cre, add, ann, use = ({k: 0 for k in allkeys} for _ in range(4))

        def pending_ops(key):
            """operations on key that may be in flight: the next operation of every thread"""
            res = []
            for t in range(nt):
                if pos[t] < len(progs[t]) and progs[t][pos[t]][1] == key:
                    res.append((t,) + progs[t][pos[t]])
            return res

        def advance(t, kind, key):
            if pos[t] >= len(progs[t]) or progs[t][pos[t]][0] != kind or progs[t][pos[t]][1] != key:
                return "event of thread %d does not match its program" % t
            pos[t] += 1
            return None

        i = 0
        while i < len(evs):
            e = evs[i]
            i += 1
            try:
                tag, rest = e[0], e[1:]
                t, rest = rest.split(":", 1)
                t = int(t)
            except Exception:
                return "unparsable event " + e
            if tag == "!":
                return "thread %d accessed the table (%s) without holding the bucket lock" % (t, rest)
            if tag == "x":
                return "entry %s given back to the mempool twice" % rest
            if tag == "m":
                return "use by thread %d found no entry for key %s although a creator granted it" % (t, rest)
            if tag == "d":
                ident = int(rest)
                if ident in freed_ids or ident in live.values():
                    return "discarded entry %d was published or already freed" % ident
                freed_ids.add(ident)
                seen_ids.add(ident)
                continue
            if tag == "c":
                key, r2 = rest.split("=")
                key, ident, fresh = int(key), int(r2[:-1]), r2[-1] == "n"
                if ident in freed_ids:
                    return "create of key %d returned entry %d which was already given back" % (key, ident)
                if fresh:
                    if ident in seen_ids:
                        return "create of key %d inserted entry %d twice" % (key, ident)
                    if key in live:
                        return "create of key %d inserted a second entry while entry %d is in use" % (key, live[key])
                    live[key] = ident
                else:
                    if live.get(key) != ident:
                        return "create of key %d found entry %d, the live one is %s" % (key, ident, live.get(key))
                seen_ids.add(ident)
                cre[key] += 1
                err = advance(t, CREATE, key)
                if err:
                    return err
                continue
            if tag == "r":
                key, ident = rest.split("=")
                key, ident = int(key), int(ident)
                if ident in freed_ids:
                    return "entry %d of key %d reclaimed twice" % (ident, key)
                if live.get(key) != ident:
                    return "reclaimed entry %d is not the live entry of key %d (%s)" % (ident, key, live.get(key))
                # reclaimed only when unused: some subset of the possibly-in-flight operations on this key
                # (the reclaiming one included) must bring holders to 0 and uses to the announced total
                pend = pending_ops(key)
                mine = [p for p in pend if p[0] == t]
                if not mine or mine[0][1] not in (ADDTO, USE):
                    return "entry %d of key %d reclaimed outside addto/used_once" % (ident, key)
                others = [p for p in pend if p[0] != t]
                ok = False
                for mask in range(1 << len(others)):
                    sel = mine + [others[j] for j in range(len(others)) if mask >> j & 1]
                    c2 = cre[key] + sum(1 for p in sel if p[1] == CREATE)
                    a2 = add[key] + sum(1 for p in sel if p[1] == ADDTO)
                    n2 = ann[key] + sum(p[3] for p in sel if p[1] == ADDTO)
                    u2 = use[key] + sum(1 for p in sel if p[1] == USE)
                    if c2 == a2 and n2 == u2:
                        ok = True
                        break
                if not ok:
                    return ("entry %d of key %d reclaimed while in use: %d creates / %d addto announcing %d / %d uses returned"
                            % (ident, key, cre[key], add[key], ann[key], use[key]))
                freed_ids.add(ident)
                del live[key]
                continue
            if tag == "a":
                key, n = rest.split("+")
                key, n = int(key), int(n)
                err = advance(t, ADDTO, key)
                if err:
                    return err
                add[key] += 1
                ann[key] += n
                continue
            if tag == "u":
                key = int(rest)
                err = advance(t, USE, key)
                if err:
                    return err
                use[key] += 1
                continue
            if tag == "l":
                key, r2 = rest.split("=")
                key = int(key)
                err = advance(t, LOOK, key)
                if err:
                    return err
                if r2 == "-":
                    # definitely retained: creates returned minus addto returned or possibly in flight
                    infl = sum(1 for p in pending_ops(key) if p[1] == ADDTO)
                    if cre[key] - add[key] - infl > 0:
                        return "lookup of key %d found nothing while %d creators hold the entry" % (key, cre[key] - add[key])
                continue
            return "unknown event " + e
        if deadlock:
            return "operations did not complete (a bucket lock is never released)"
        if starved:
            return None
        # quiescence: everything returned; the table must hold exactly the entries still needed
        tab = {}
        for w in parts[1].split()[1:]:
            key, v = w.split("=")
            ident, fields = v.split(":")
            tab[int(key)] = (int(ident),) + tuple(int(x) for x in fields.split("/"))
        if any(pos[t] != len(progs[t]) for t in range(nt)):
            return "a thread finished without all its operations returning"
        # totals over the whole run per key: holders and outstanding uses (exact now that nothing is in flight)
        keys = {key for p in progs for (_, key, _) in p}
        for key in sorted(keys):
            ncre = sum(1 for p in progs for o in p if o[0] == CREATE and o[1] == key)
            nadd = sum(1 for p in progs for o in p if o[0] == ADDTO and o[1] == key)
            nann = sum(o[2] for p in progs for o in p if o[0] == ADDTO and o[1] == key)
            nuse = sum(1 for p in progs for o in p if o[0] == USE and o[1] == key)
            needed = (ncre > nadd) or (nuse < nann)
            if needed and key not in tab:
                return "key %d is missing at the end although %d announced uses are outstanding" % (key, nann - nuse)
            if not needed and key in tab:
                return "key %d is still in the repository at the end (entry %s) although nobody needs it" % (key, tab[key])
            if key in tab:
                ident, c_, l_, r_ = tab[key]
                if live.get(key) != ident or ident in freed_ids:
                    return "final entry %d of key %d is not the live incarnation" % (ident, key)
                if r_ == 0 and c_ == l_:
                    return "final entry of key %d is unused (cnt = lmt = %d, not retained) but was not reclaimed" % (key, c_)
        # every incarnation that left the table went back to the mempool (exactly once: see above)
        final_ids = {v[0] for v in tab.values()}
        for ident in sorted(seen_ids):
            if ident not in final_ids and ident not in freed_ids:
                return "entry %d left the table but was never given back to the mempool (not reclaimed)" % ident
        return None

    def signature(self, case, obs):
        why = self.oracle(case, obs) or "none"
        for word, sig in (("twice", "double-free"), ("second entry", "double-insert"), ("without holding", "unlocked-access"), ("found no entry", "use-missing"), ("found nothing", "lookup-missing"), ("dereferenced", "null-deref"),
                          ("while in use", "early-reclaim"), ("still in the repository", "leak"), ("not reclaimed", "leak"),
                          ("missing at the end", "early-reclaim"), ("did not complete", "deadlock"), ("did not answer", "hang")):
            if word in why:
                return sig
        return "other"
