import os
import re
import vcheck
from vcheck import Check

PREFIX = "PARSEC_MCA_"
FILES_PARAM = "mca_param_files"


# ---------------------------------------------------------------------------
# the documented resolution, replayed on a case (independent of the Coq model):
#   override > environment (real name, then synonyms in registration order)
#   > file (files are read once; left-most file wins, last line of a file wins;
#     the value is the first one, in reading order, stored under the real name
#     or a synonym when the parameter first needs it) > default;
#   read-only parameters keep their default;
#   --mca values of one name are joined with commas, --mca beats --gmca.
def keyval_fixed():
    """parsec_util_keyval_parse_finalize leaves key_buffer dangling in the pinned tree
    (notes/findings/C38-keyval-key-buffer-dangling.md): a second read of parameter files with content is a
    use-after-free.  Cases re-read files with content more than once only when the repair is present."""
    try:
        txt = open(os.path.join(vcheck.REPO, "parsec/utils/keyval_parse.c")).read()
    except OSError:
        return False
    m = re.search(r"parsec_util_keyval_parse_finalize\(void\)\s*\{(.*?)\n\}", txt, re.S)
    return bool(m and re.search(r"key_buffer\s*=\s*NULL", m.group(1)))


def c_int(v):
    return (v + 2 ** 31) % 2 ** 32 - 2 ** 31


def parse_dec(s):
    neg = s.startswith("-")
    d = s[1:] if neg else s
    n = 0
    for ch in d:
        if not ch.isdigit():
            break
        n = n * 10 + int(ch)
    return -n if neg else n


def conv(ty, s):
    if ty == "i":
        return "i%d" % (0 if s is None else c_int(parse_dec(s)))
    if ty == "z":
        return "z%d" % (0 if s is None else parse_dec(s) % 2 ** 64)
    return "sNULL" if s is None else 's"%s"' % s


def tok_str(t):
    if t == "NULL":
        return None
    assert t.startswith("=")
    return t[1:]


def full_name(tn, pn):
    t = tn or ""
    if pn is None:
        return t
    return pn if t == "" else t + "_" + pn


def parse_files(toks):
    files, i = [], 0
    while i < len(toks):
        assert toks[i] == "["
        i += 1
        lines = []
        while toks[i] != "]":
            lines.append((toks[i], tok_str(toks[i + 1])))
            i += 2
        i += 1
        files.append(lines)
    return files


class Replay:
    def __init__(self):
        self.params = []
        self.flist = []          # [name, value, file index] in reading order
        self.env = {}
        self.combos = []         # sources present at each lookup (for the coverage key)
        self.crash_expected = False

    def read_files(self, files):
        for fi in range(len(files) - 1, -1, -1):
            for (n, v) in files[fi]:
                for e in self.flist:
                    if e[0] == n:
                        e[1], e[2] = v, fi
                        break
                else:
                    self.flist.append([n, v, fi])

    def register(self, ty, tn, pn, ro, default):
        full = full_name(tn, pn)
        for i, p in enumerate(self.params):
            if p["full"] == full:
                if p["type"] != ty:
                    return -8
                p["default"] = default
                return i
        self.params.append(dict(type=ty, tn=tn, pn=pn, full=full, syns=[], ro=ro, default=default,
                                over=None, fcache=None))
        return len(self.params) - 1

    def valid(self, idx):
        return 0 <= idx < len(self.params)

    def lookup(self, idx):
        """(source, value text) or None"""
        if not self.valid(idx):
            return None
        p = self.params[idx]
        names = [p["full"]] + p["syns"]
        present = ""
        res = None
        if p["over"] is not None:
            present += "O"
            res = ("OVR", p["over"][0])
        envv = None
        for n in names:
            if n in self.env:
                envv = self.env[n]
                break
        if envv is not None:
            present += "E"
            if res is None:
                res = ("ENV", conv(p["type"], envv))
        if p["fcache"] is None and res is None:
            for e in self.flist:
                if e[0] in names:
                    p["fcache"] = (conv(p["type"], e[1]), e[2])
                    self.flist.remove(e)
                    break
        if p["fcache"] is not None or any(e[0] in names for e in self.flist):
            present += "F"
        if res is None and p["fcache"] is not None:
            res = ("FILE@%d" % p["fcache"][1], p["fcache"][0])
        if res is None:
            res = ("DEF", p["default"])
        if p["ro"]:
            present += "r"
            res = ("DEF", p["default"])
        self.combos.append(present + p["type"] + ("s%d" % len(p["syns"])))
        return res

    def disjoint(self):
        seen = set()
        for p in self.params:
            for n in set([p["full"]] + p["syns"]):
                if n in seen:
                    return False
                seen.add(n)
        return True

    def segment(self, seg):
        """expected observation of one segment"""
        w = seg.split()
        op = w[0]
        if op == "files":
            self.register("s", "mca", "param_files", False, None)
            self.read_files(parse_files(w[1:]))
            return "init"
        if op == "recache":
            self.read_files(parse_files(w[1:]))
            return "rc"
        if op == "env":
            self.env[w[1]] = tok_str(w[2])
            return "e"
        if op == "unenv":
            self.env.pop(w[1], None)
            return "e"
        if op == "reg":
            ty, tn, pn, ro = w[1], tok_str(w[2]), tok_str(w[3]), w[4] != "0"
            default = conv(ty, tok_str(w[6])) if ty == "s" else ("%s%d" % (ty, int(w[6])))
            cur = w[7] != "0"
            r = self.register(ty, tn, pn, ro, default)
            if r < 0:
                return "r%d:-" % r
            if ty != "s" or cur:
                got = self.lookup(r)
                if cur:
                    return "r%d:%s" % (r, got[1])
            return "r%d:-" % r
        if op == "syn":
            idx = int(w[1])
            if not self.valid(idx):
                return "y-4"
            self.params[idx]["syns"].append(full_name(tok_str(w[2]), tok_str(w[3])))
            return "y0"
        if op == "set":
            idx, ty = int(w[1]), w[2]
            if self.valid(idx) and self.params[idx]["type"] == ty:
                v = conv(ty, tok_str(w[3])) if ty == "s" else "%s%d" % (ty, int(w[3]))
                self.params[idx]["over"] = (v,)
            return "s0"
        if op == "unset":
            idx = int(w[1])
            if not self.valid(idx):
                return "u-1"
            self.params[idx]["over"] = None
            return "u0"
        if op == "look":
            got = self.lookup(int(w[1]))
            return "NF" if got is None else "%s:%s" % got
        if op == "find":
            tn, pn = tok_str(w[1]), tok_str(w[2])
            for i, p in enumerate(self.params):
                if p["tn"] == tn and p["pn"] == pn:
                    return "f%d" % i
            return "f-1"
        if op == "cmd":
            ctx, glob, names = {}, {}, []
            for k in range(1, len(w), 3):
                kind, n, v = w[k], w[k + 1], tok_str(w[k + 2])
                d = glob if kind == "g" else ctx
                d[n] = d[n] + "," + v if n in d else v
                if n not in names:
                    names.append(n)
            self.env.update(glob)
            self.env.update(ctx)
            return "c " + ";".join("%s=%s" % (n, self.env.get(n, "<unset>")) for n in names) if names else "c"
        return "<bad case>"


def same(exp, got):
    """a file line "name =" yields an empty string value: NULL and "" both denote it"""
    if exp == got:
        return True
    return exp.startswith("FILE@") and got.startswith("FILE@") and \
        exp.replace('s""', "sNULL") == got.replace('s""', "sNULL")


def judge(case, obs):
    """first segment where the observation departs from the documented resolution"""
    segs = case.split(" | ")
    got = obs.split(" | ")
    rp = Replay()
    exps = []
    for s in segs:
        try:
            exps.append(rp.segment(s))
        except Exception as e:          # malformed directed case
            return None, rp
    ok_names = rp.disjoint()
    for k, (s, e) in enumerate(zip(segs, exps)):
        g = got[k] if k < len(got) else "<missing>"
        op = s.split()[0]
        if not ok_names and op != "cmd" and g != "<crash>":
            continue                     # parameters sharing a name: outside the property's hypothesis
        if not same(e, g):
            return (k, s, e, g), rp
        if g == "<crash>":
            break
    return None, rp


class C38(Check):
    id = "C38"
    prop_file = "theories/Properties/Properties_C38.v"
    theorems = ("C38_lookup_precedence",
                "C38_lookup_stable", "C38_lookup_twice",
                "C38_set_other", "C38_unset_other", "C38_lookup_other", "C38_setenv_other",
                "C38_set_then_lookup", "C38_env_by_any_name", "C38_file_by_any_name", "C38_reg_syn_names",
                "C38_read_only", "C38_out_of_range", "C38_find_unknown", "C38_cmdline_join",
                "C38_setenv_exact_name", "C38_add_to_env_other", "C38_cmdline_other",
                "C38_file_history_uncached", "C38_file_history_cached", "C38_file_history_no_synonyms",
                "C38_file_list_precedence")
    comp = "mca"
    extract_file = "theories/Extract/Extract_MCA.v"
    extracted = ("mca",)
    harness_src = "harness/h_mca.c"
    link_parsec = True
    level_text = ("Executable Gallina model of mca_param.c (table, synonyms, override, environment, list of file values with "
                  "its consume-and-cache behaviour, read-only flag, re-registration), of save_value/read_files and of the "
                  "--mca/--gmca processing. Theorems for every state (hence every history): lookup = first source present in "
                  "the order override, environment (real name then synonyms in registration order), file (cached value, else "
                  "first list entry under any of the names), default; read-only gives the default; lookups are stable (same "
                  "result, same state); set/unset/setenv/lookup of one parameter do not change another (for lookups: when the "
                  "two share no name); synonyms reach the same parameter through environment and files; out-of-range indices "
                  "and unknown names report not-found; the command line yields for each name the comma-joined values in order, "
                  "--mca over --gmca. For every history without a re-read of the files and a table without shared names: the "
                  "file stage is characterised from the list read at initialisation (first entry under the names the parameter "
                  "had when the value was cached), and that list holds for a name the last line of the left-most file. Tied to the code by a differential run of libparsec against the extracted model. Full, except "
                  "the points listed as not modelled.")
    level_note = ("Not modelled: strtol beyond canonical decimal strings that fit a long (octal/hex prefixes, blanks, "
                  "saturation); the '~/' expansion of string values; indices equal to the table size (the bound checks are "
                  "'index > size', the code reads one element past the array); set_* entry points of another type than the "
                  "parameter's; deprecated flags (warnings only); the lexer of parameter files (files are written in the "
                  "canonical form 'name = value'); allocation failures. Trusted: the harness copies the 15-line loop of "
                  "parsec_init that moves the --mca context environment into environ.")
    technique = ("Coq proof (per-state precedence formula, invariant over histories for the file stage, join law by induction "
                 "over the argument list) + differential run of libparsec's parameter system (one forked process per case) "
                 "against the extracted model + oracle replaying the documented resolution")
    rule = ("each case: 0-3 parameter files, 1-4 parameters (int/size_t/string, 15% read-only) with 0-2 synonyms, every "
            "source (override, environment per name, file entry per name and file, default) independently present, "
            "repeated --mca/--gmca options, parameter / synonym / option names in prefix relation (t_a, t_a_b, t_ab; on a "
            "command line in both orders), repeated lookups, re-registration, late synonyms, set/unset/unenv, occasional "
            "file re-read, unknown names and out-of-range indices. Non-trivial = some lookup has at least two sources "
            "present; distinct = distinct case text")
    trusted = ("harness/h_mca.c replays the argument loop of parsec_init (parse, process_args, copy of the context "
               "environment) around the real functions instead of calling parsec_init",)
    assumptions = ("values of int/size_t parameters in the environment and in files are canonical decimal strings that fit a long",
                   "string values do not contain '~/'",
                   "no lookup/set/synonym call uses an index equal to the number of registered parameters",
                   "malloc/strdup/asprintf do not fail")

    # ---- generator ------------------------------------------------------------
    TN = ["t", "u", "pv"]
    PN = ["a", "b", "c", "d", "e", "f"]
    SYN_TN = ["o", "old"]

    def rnd_str(self, r, allow_empty=True, file_value=False):
        alpha = "abcxyz019,._:/-" + ("" if file_value else "=")
        n = r.pick([0, 1, 1, 2, 3, 5]) if allow_empty else r.pick([1, 1, 2, 3, 5])
        s = "".join(r.pick(alpha) for _ in range(n))
        return s.replace("~", "")

    def rnd_num(self, r, ty, src):
        """src: 'api' (default / set: must fit the C type) or 'text' (environment / file)"""
        if ty == "i":
            if src == "api":
                return r.pick([0, 1, -1, 7, 2147483647, -2147483648, r.range(-1000, 1000), r.range(-2 ** 31, 2 ** 31 - 1)])
            return r.pick([0, 1, -1, 42, 2147483647, -2147483648, 2147483648, 4294967301, -4000000000,
                           r.range(-1000, 1000), r.range(-2 ** 31, 2 ** 31 - 1), r.range(-2 ** 62, 2 ** 62)])
        if src == "api":
            return r.pick([0, 1, 4096, 2 ** 32, 2 ** 63 - 1, 2 ** 64 - 1, r.range(0, 10 ** 6), r.range(0, 2 ** 64 - 1)])
        return r.pick([0, 1, 4096, 2 ** 32 + 3, 2 ** 63 - 1, -1, -12, r.range(0, 10 ** 6), r.range(0, 2 ** 63 - 1)])

    def rnd_text(self, r, ty, file_value=False):
        """text of an environment / file value for a parameter of type ty"""
        if ty == "s":
            return self.rnd_str(r, allow_empty=not file_value, file_value=file_value)
        return str(self.rnd_num(r, ty, "text"))

    def one_case(self, r):
        np_ = r.pick([1, 2, 2, 3, 3, 4])
        used = set([FILES_PARAM])
        params = []
        share = r.below(20) == 0            # a few cases with a shared name (model only, the oracle abstains)
        for _ in range(np_):
            for _try in range(20):
                tn, pn = r.pick(self.TN), r.pick(self.PN)
                if r.below(12) == 0:
                    tn, pn = None, (tn + "_" + pn if r.below(2) else pn)
                if params and r.below(3) == 0:
                    # a name in prefix relation with one that exists (t_a / t_a_b / t_ab): names are exact keys
                    base = r.pick(params)
                    tn = base["tn"]
                    pn = base["pn"] + r.pick(["_b", "b", "_x_y", "2"]) if (len(base["pn"]) < 2 or r.below(3)) else base["pn"][:-1]
                if full_name(tn, pn) not in used:
                    break
            else:
                continue
            used.add(full_name(tn, pn))
            ty = r.pick("iizss")
            syns = []
            for _s in range(r.pick([0, 0, 1, 1, 2])):
                for _try in range(20):
                    stn, spn = r.pick(self.SYN_TN), r.pick(self.PN + ["x", "y"])
                    if r.below(4) == 0:         # a synonym that extends / is a prefix of the real name
                        stn, spn = tn, r.pick([(pn or "") + "_old", (pn or "") + "o", (pn or "q")[:-1] or "q"])
                    if share and r.below(2) and len(used) > 1:
                        name = r.pick(sorted(used - set([FILES_PARAM])))
                        stn, spn = None, name
                    if full_name(stn, spn) not in used or share:
                        break
                else:
                    continue
                used.add(full_name(stn, spn))
                syns.append((stn, spn))
            params.append(dict(ty=ty, tn=tn, pn=pn, syns=syns, ro=r.below(100) < 15))
        if not params:
            return None
        # sources
        nfiles = r.pick([0, 1, 1, 2, 2, 3])
        files = [[] for _ in range(nfiles)]
        envs = []
        for p in params:
            names = [full_name(p["tn"], p["pn"])] + [full_name(a, b) for a, b in p["syns"]]
            for n in names:
                if r.below(100) < 35:
                    envs.append((n, self.rnd_text(r, p["ty"])))
                for f in files:
                    if r.below(100) < 30:
                        v = None if r.below(8) == 0 else self.rnd_text(r, p["ty"], file_value=True)
                        f.append((n, v))
                        if r.below(6) == 0:      # a second line for the same name
                            f.insert(r.below(len(f) + 1), (n, self.rnd_text(r, p["ty"], file_value=True)))
        for f in files:
            if r.below(4) == 0:
                f.append(("zz_unused", "1"))
            f[:] = r.shuffle(f)

        def fmt_s(s):
            return "NULL" if s is None else "=" + s

        def fmt_files(fs):
            return "".join(" [ " + "".join("%s %s " % (n, fmt_s(v)) for n, v in f) + "]" for f in fs)

        # at most one read of files with content per process unless keyval_parse is repaired: either at
        # initialisation, or (late) by one recache after an initialisation from empty files
        late = nfiles > 0 and r.below(8) == 0
        segs = ["files" + (fmt_files([[] for _ in files]) if late else fmt_files(files))]
        envs = r.shuffle(envs)
        early = [e for e in envs if r.below(4) != 0]
        late_env = [e for e in envs if e not in early]
        for n, v in early:
            segs.append("env %s =%s" % (n, v))
        # registration
        size = 1
        idx_of = []
        late_syn = []

        def dflt(p):
            if p["ty"] == "s":
                return fmt_s(None if r.below(5) == 0 else self.rnd_str(r))
            return str(self.rnd_num(r, p["ty"], "api"))

        order = list(range(len(params)))
        order = r.shuffle(order)
        for k in order:
            p = params[k]
            cur = 1 if p["ty"] != "s" else (0 if r.below(3) == 0 else 1)
            segs.append("reg %s %s %s %d %d %s %d" % (p["ty"], fmt_s(p["tn"]), fmt_s(p["pn"]), p["ro"], r.below(2), dflt(p), cur))
            p["idx"] = size
            size += 1
            for (stn, spn) in p["syns"]:
                s = "syn %d %s %s %d" % (p["idx"], fmt_s(stn), fmt_s(spn), r.below(2))
                if r.below(5) == 0:
                    late_syn.append(s)
                else:
                    segs.append(s)
        for n, v in late_env:
            segs.append("env %s =%s" % (n, v))
        if late:
            # (any read after one with content frees key_buffer a second time, even a read of empty files)
            pos = r.range(2, len(segs))
            segs.insert(pos, "recache" + fmt_files(files))
            if r.below(2):
                segs.insert(r.range(1, pos), "recache" + fmt_files([[] for _ in files]))

        def look(p):
            return "look %d %s" % (p["idx"], p["ty"])

        def setv(p):
            if p["ty"] == "s":
                return "set %d s =%s" % (p["idx"], self.rnd_str(r))
            return "set %d %s %d" % (p["idx"], p["ty"], self.rnd_num(r, p["ty"], "api"))

        # first round of lookups, then changes, then lookups again
        for p in params:
            if r.below(100) < 30:
                segs.append(setv(p))
        for p in r.shuffle(params):
            for _ in range(r.pick([1, 1, 2])):
                segs.append(look(p))
        segs += late_syn
        names_all = [full_name(p["tn"], p["pn"]) for p in params] + [full_name(a, b) for p in params for a, b in p["syns"]]
        for _ in range(r.pick([0, 1, 2, 3, 4])):
            p = r.pick(params)
            c = r.below(9)
            if c == 0:
                segs.append("unset %d" % p["idx"])
            elif c == 1:
                segs.append(setv(p))
            elif c == 2:
                segs.append("unenv %s" % r.pick(names_all))
            elif c == 3:
                n = r.pick(names_all)
                q = [x for x in params if n in [full_name(x["tn"], x["pn"])] + [full_name(a, b) for a, b in x["syns"]]][0]
                segs.append("env %s =%s" % (n, self.rnd_text(r, q["ty"])))
            elif c == 4:
                # re-registration: new default, possibly other flags (ignored by the code), possibly another type
                ty = p["ty"] if r.below(5) else r.pick("izs")
                q = dict(p, ty=ty)
                cur = 1 if ty != "s" else r.below(2)
                segs.append("reg %s %s %s %d %d %s %d" % (ty, fmt_s(p["tn"]), fmt_s(p["pn"]), r.below(2), r.below(2), dflt(q), cur))
            elif c == 5 and nfiles > 0 and self.fixed and r.below(2):
                tyof = {}
                for x in params:
                    for n in [full_name(x["tn"], x["pn"])] + [full_name(a, b) for a, b in x["syns"]]:
                        tyof.setdefault(n, x["ty"])
                fs = [[(n, (None if v is None else self.rnd_text(r, tyof.get(n, "s"), file_value=True)) if r.below(2) else v)
                       for n, v in f] for f in files]
                if r.below(2):
                    q = r.pick(params)
                    fs[0].append((full_name(q["tn"], q["pn"]), self.rnd_text(r, q["ty"], file_value=True)))
                segs.append("recache" + fmt_files(fs))
            else:
                # command line: repeated names, both kinds; names in prefix relation in both orders
                # (every pair goes through add_to_env -> parsec_setenv, which must match whole names)
                pool = names_all + ["zz_other"]
                fam = []
                if r.below(3) != 0:
                    b = r.pick(names_all + ["zz"])
                    fam = [b] + r.shuffle([b + "_q", b + "q", b + "_q_r"] + ([b[:-1]] if len(b) > 1 else [])
                                          + [x for x in names_all if x != b and (x.startswith(b) or b.startswith(x))])[:r.pick([1, 2, 3])]
                    fam = r.pick([sorted(fam, key=len, reverse=True), sorted(fam, key=len), r.shuffle(fam)])
                args = []
                for _a in range(len(fam) + r.pick([0, 1, 1, 2, 3])):
                    if _a < len(fam):
                        n = fam[_a]
                    else:
                        n = r.pick(pool + fam) if (not args or r.below(2)) else r.pick(args)[1]
                    q = [x for x in params if n in [full_name(x["tn"], x["pn"])] + [full_name(a, b) for a, b in x["syns"]]]
                    v = self.rnd_text(r, q[0]["ty"]) if q and q[0]["ty"] == "s" else (
                        str(self.rnd_num(r, q[0]["ty"], "text")) if q and len([a for a in args if a[1] == n]) == 0 else self.rnd_str(r, allow_empty=False))
                    args.append((r.pick("mmmg"), n, v))
                if fam and r.below(3) == 0:
                    args = r.shuffle(args)
                segs.append("cmd " + " ".join("%s %s =%s" % a for a in args))
                for x in params:        # everybody named on the command line, or related to a name on it, is looked up
                    xn = [full_name(x["tn"], x["pn"])] + [full_name(a, b) for a, b in x["syns"]]
                    if x is not p and any(a[1].startswith(m) or m.startswith(a[1]) for a in args for m in xn):
                        segs.append(look(x))
            segs.append(look(p))
        for p in r.shuffle(params):
            segs.append(look(p))
        # names and indices that do not exist
        if r.below(3) == 0:
            p = r.pick(params)
            segs.append(r.pick(["find %s %s" % (fmt_s(p["tn"]), fmt_s(p["pn"])),
                                "find =t =nosuch", "find NULL =%s" % full_name(p["tn"], p["pn"]),
                                "find =%s NULL" % (p["tn"] or "q")]))
        if r.below(3) == 0:
            bad = r.pick([-1, -5, size + 1, size + 7, 1000])
            segs.append(r.pick(["look %d i", "look %d s", "unset %d", "set %d i 3", "syn %d =o =q 0"]) % bad)
            if r.below(2):
                segs.append(look(r.pick(params)))
        return " | ".join(segs)

    def directed(self):
        return [
            # all four sources, one after the other going away
            "files [ t_a =5 ] [ t_a =6 o_a =9 ] | env o_a =7 | reg i =t =a 0 0 3 1 | syn 1 =o =a 0 | look 1 i | set 1 i 8 | "
            "look 1 i | unset 1 | look 1 i | unenv o_a | look 1 i | look 1 i",
            # synonym order in the environment: the first registered synonym wins
            "files | reg s =t =a 0 0 =d 1 | syn 1 =o =a 0 | syn 1 =o =b 1 | env o_b =second | look 1 s | env o_a =first | "
            "look 1 s | env t_a =real | look 1 s",
            # files: position in the list decides between the real name and a synonym
            "files [ o_a =1 t_a =2 ] | reg s =t =a 0 0 =d 0 | syn 1 =o =a 0 | look 1 s | look 1 s",
            "files [ t_a =2 o_a =1 ] | reg s =t =a 0 0 =d 0 | syn 1 =o =a 0 | look 1 s",
            "files [ o_a =1 o_b =2 ] | reg i =t =a 0 0 0 1 | syn 1 =o =b 0 | syn 1 =o =a 0 | look 1 i",
            # left-most file wins, last line of a file wins
            "files [ t_a =1 t_a =2 ] [ t_a =3 ] [ t_b =4 t_a =5 ] | reg i =t =a 0 0 0 1 | reg i =t =b 0 0 0 1",
            # the join law
            "files | cmd m a =x m a =y | cmd m a =x g a =g m b =1 g b =2 m a =y g c =1 g c =2 g c =3",
            "files | reg s =t =a 0 0 =d 1 | cmd m t_a =x m t_a =y | look 1 s | cmd g t_a =z | look 1 s",
            # names in prefix relation are different variables: command line (longer name first, shorter
            # name first, both option kinds, repeated), environment, files
            "files | cmd m foo_bar =1 m foo =2 | cmd m fo =3 m foo =4 m foo_bar =5 m foo =6 | cmd g foo_bar =7 g foo =8 m f =9",
            "files | reg i =t =a_b 0 0 3 1 | reg i =t =a 0 0 4 1 | reg i =t =ab 0 0 5 1 | cmd m t_a_b =1 m t_a =2 | look 1 i | look 2 i | "
            "look 3 i | cmd m t_a =6 m t_ab =7 m t_a_b =8 | look 1 i | look 2 i | look 3 i",
            "files | reg s =t =a 0 0 =d 1 | reg s =t =a_b 0 0 =e 1 | syn 1 =t =a_old 0 | cmd m t_a_old =o m t_a_b =x m t =z m t_a_b =y | "
            "look 1 s | look 2 s | cmd m t_a_b =p m t_a =q | look 1 s | look 2 s",
            "files | reg i =t =a_b 0 0 3 1 | reg i =t =a 0 0 4 1 | cmd m t_a_b =1 m zz =0 m t_a =2 m t_a_b =3 | look 1 i | look 2 i",
            "files [ t_a =1 t_a_b =2 t_ab =3 ] | env t_a_b =7 | reg i =t =a 0 0 0 1 | reg i =t =a_b 0 0 0 1 | reg i =t =ab 0 0 0 1 | "
            "unenv t_a_b | look 1 i | look 2 i | look 3 i | env t_a =9 | look 2 i | look 3 i | unenv t_a | look 1 i",
            # read-only
            "files [ t_r =4 ] | env t_r =5 | reg i =t =r 1 0 9 1 | set 1 i 3 | look 1 i | unset 1 | look 1 i",
            # size_t wrap, int wrap
            "files | reg z =t =z 0 0 7 1 | env t_z =-1 | look 1 z | reg i =t =i 0 0 7 1 | env t_i =4294967301 | look 2 i",
            # empty values
            "files [ t_s NULL t_i NULL ] | reg s =t =s 0 0 =d 1 | reg i =t =i 0 0 7 1 | env t_x = | reg s =t =x 0 0 =d 1",
        ]

    def cases(self):
        r = self.rng
        self.fixed = keyval_fixed()
        out = list(self.directed())
        n = 700 if self.tier == "quick" else 12000
        while len(out) < n:
            c = self.one_case(r)
            if c:
                out.append(c)
        # a NULL override of a string parameter (crashed before the repair of lookup_override)
        out.append("files | reg s =t =s 0 0 =d 0 | set 1 s NULL | look 1 s")
        return out

    def nontrivial_key(self, case):
        try:
            _, rp = judge(case, "")
        except Exception:
            return None
        if any(sum(ch in c for ch in "OEF") >= 2 for c in rp.combos):
            return case
        return None

    def dist(self, cases):
        combos = {}
        ops = {}
        for c in cases:
            try:
                _, rp = judge(c, "")
            except Exception:
                continue
            for k in rp.combos:
                key = "".join(ch for ch in k if ch in "OEFr") or "default-only"
                combos[key] = combos.get(key, 0) + 1
            for s in c.split(" | "):
                o = s.split()[0]
                ops[o] = ops.get(o, 0) + 1
        return {"lookups_by_sources_present(O=override,E=env,F=file,r=read-only)": combos, "segments": ops}

    # ---- oracle ------------------------------------------------------------------
    def oracle(self, case, obs):
        bad, _ = judge(case, obs)
        if bad is None:
            return None
        k, seg, exp, got = bad
        return "segment %d (%s): documented resolution gives %s, the implementation answered %s" % (k, seg, exp, got)

    def signature(self, case, obs):
        bad, _ = judge(case, obs)
        if bad is None:
            return "none"
        k, seg, exp, got = bad
        op = seg.split()[0]
        if got == "<crash>":
            return "crash-%s-%s" % (op, "null-override" if " s NULL" in case else "other")

        def src(x):
            return re.sub(r"[^A-Za-z<>]", "", x.split(":")[0].split("@")[0])[:8]
        if op == "look":
            return "look-%s-%s" % (src(exp), src(got))
        if op == "reg":
            return "reg-index" if exp.split(":")[0] != got.split(":")[0] else "reg-value"
        if op == "cmd":
            return "cmd-join"
        return op

    def search_cases(self):
        return self.directed()
