import os
import re
import shutil
import sys

sys.path.insert(0, os.path.dirname(os.path.abspath(__file__)))
import vcheck  # noqa: E402
from vcheck import run  # noqa: E402
import ptg_common  # noqa: E402
from ptg_common import PtgCheck, jdfgen, SCHEDULERS  # noqa: E402
import ptgval_common as pv  # noqa: E402

# the two dependency-storage back-ends of parsec-ptgpp
DEP_MODES = {"ht": ["-M", "dynamic-hash-table"], "ia": ["-M", "index-array"]}


# several virtual processes: vpmap=hwloc on a synthetic hwloc topology, one VP per package (the rr:/file: maps of the
# pinned tree are not functional); the number of threads then comes from the topology (parsec_init(-1, …))
VP_TOPOLOGY = {2: "package:2 core:2 pu:1", 3: "package:3 core:1 pu:1"}


def split_cfg(cs):
    """'lfq@ia@vp2:4:1:2' -> ('ia', config dict); config["vp"] = number of virtual processes (0: default flat map)"""
    w = cs.split(":")
    fl = w[0].split("@")
    cfg = ptg_common.parse_config(":".join([fl[0]] + w[1:]))
    cfg["vp"] = 0
    mode = "ht"
    for x in fl[1:]:
        if x in DEP_MODES:
            mode = x
        elif x.startswith("vp"):
            cfg["vp"] = int(x[2:])
    if cfg["vp"]:
        cfg["threads"] = -1
    return mode, cfg


class ValCheck(PtgCheck):
    """JDF -> ptgpp (both dependency back-ends) -> cc -> run; shared by C02 and C16"""
    comp = "ptgval"
    extract_file = "theories/Extract/Extract_PTGVal.v"
    extracted = ("ptgval",)
    gen_cflags = ()             # extra flags for the generated C file

    def build_variant(self, wd, mode):
        """ptgcase.jdf is in wd; the variant is built in wd/<mode>; returns (exe or None, message)"""
        vd = os.path.join(wd, mode)
        os.makedirs(vd, exist_ok=True)
        shutil.copy(os.path.join(wd, "ptgcase.jdf"), os.path.join(vd, "ptgcase.jdf"))
        rc, o, e = run([ptg_common.ptgpp_path(), "-E", "-i", "ptgcase.jdf", "-o", "ptgcase", "-f", "ptgcase"] + DEP_MODES[mode],
                       cwd=vd, timeout=120)
        if rc != 0 or not os.path.exists(os.path.join(vd, "ptgcase.c")):
            return None, "ptgpp-rejected rc=%d %s" % (rc, (o + e).strip()[-300:].replace("\n", " "))
        cmd = (["cc"] + vcheck.harness_cflags() + list(self.gen_cflags)
               + ["-O0", "-g0", "-w", "-I" + vd, "-c", "ptgcase.c", "-o", "ptgcase.o"])
        rc, o, e = run(cmd, cwd=vd, timeout=300)
        if rc != 0:
            return None, "generated-C-does-not-compile " + (o + e).strip()[-300:].replace("\n", " ")
        exe = os.path.join(vd, "run")
        rc, o, e = run(["cc", "ptgcase.o", self.drv_obj, "-o", exe] + ptg_common.link_flags(), cwd=vd, timeout=300)
        if rc != 0:
            return None, "link-failed " + (o + e).strip()[-300:].replace("\n", " ")
        return exe, ""

    def run_cfg(self, exe, cfg, seed):
        env = dict(os.environ)
        env.update(ptg_common.RUN_ENV)
        if cfg.get("vp"):
            env.update({"HWLOC_SYNTHETIC": VP_TOPOLOGY[cfg["vp"]], "PARSEC_MCA_runtime_vpmap": "hwloc", "PARSEC_MCA_bind_threads": "0"})
        for attempt in range(3):
            rc, o, e = run([exe] + ptg_common.config_args(cfg, seed), timeout=self.run_timeout, env=env, cwd=os.path.dirname(exe))
            if rc in (0, 124) or "CONFIG" in o:
                break
        if rc == 124:
            # a hang is an observation, but on a heavily loaded machine a run of 16 spinning threads can exceed the
            # limit without being stuck: it only counts when it happens again with twice the time
            rc, o, e = run([exe] + ptg_common.config_args(cfg, seed), timeout=2 * self.run_timeout, env=env, cwd=os.path.dirname(exe))
        if rc not in (0, 124) or "END rc=signal-" in o:
            # a crash is an observation as well; it counts when it happens again on a second run of the same configuration
            rc2, o2, e2 = run([exe] + ptg_common.config_args(cfg, seed), timeout=self.run_timeout, env=env, cwd=os.path.dirname(exe))
            if rc2 == 0 and "END rc=0" in o2:
                vcheck.log("%s: %s %s crashed once (rc=%d) and completed when run again" % (self.id, exe, cfg, rc))
                rc, o, e = rc2, o2, e2
        ents, info = ptg_common.parse_log(o)
        # startup tasks in creation order (driver lines SU, only with -DPTG_RT_TRACE_STARTUP)
        info["startup"] = [(m.group(1), tuple(int(x) for x in m.group(2).split()))
                           for m in re.finditer(r"^SU (\S+) P((?: -?\d+)*)$", o, re.M)]
        m = re.search(r"^NBVP (\d+)$", o, re.M)
        info["nbvp"] = int(m.group(1)) if m else None
        if cfg.get("vp") and info["nbvp"] is not None and info["nbvp"] != cfg["vp"] and info["end"] == "rc=0":
            info["end"] = "harness-expected-%d-virtual-processes-got-%d" % (cfg["vp"], info["nbvp"])
        # the priority of every invocation (driver field PR)
        prios = [int(m.group(1)) for m in re.finditer(r" ; PR (-?\d+) ; KP ", o)]
        if len(prios) == len(ents):
            for en, pr in zip(ents, prios):
                en_prio_set(en, pr)
        if rc == 124:
            info["end"] = "timeout"
        elif rc != 0 and (info["end"] is None or info["end"] == "rc=0"):
            info["end"] = "crash-rc=%d" % rc
        elif info["end"] is not None and info["end"].startswith("rc=signal-"):
            info["end"] = "crash-" + info["end"][3:]          # the driver's handler dumped the log before dying
        elif info["end"] is None:
            info["end"] = "no-END"
        if info["end"] != "rc=0":
            vcheck.log("%s: %s %s -> %s; stderr tail: %s" % (self.id, exe, cfg, info["end"], e.strip()[-400:].replace("\n", " | ")))
        return ents, info

    def static_flags(self, prog):
        """(flags string, runnable) — the same flags the model driver prints"""
        wf = pv.wf_fm(prog)          # first applicable input dependency wins (PTGValDefs.wf_program_fm)
        sem = pv.Sem(prog) if wf else None
        safe = bool(wf and pv.safe(sem))
        un = bool(wf and pv.reads_uninit(sem))
        return "wf=%d safe=%d uninit=%d" % (wf, safe, un), (wf and safe and not un), sem

    def one_case(self, tag, i, case):
        try:
            hd, progtxt = case.split("|", 1)
            cfgs, seed, amax = self.head_cfgs(hd)
            prog = jdfgen.parse_case(progtxt)
        except Exception as ex:
            return "<bad case %s>" % ex
        flags, ok, sem = self.static_flags(prog)
        if not ok:
            return flags
        wd = self.workdir(tag, i)
        shutil.rmtree(wd, ignore_errors=True)
        os.makedirs(wd)
        with open(os.path.join(wd, "ptgcase.jdf"), "w") as f:
            f.write(jdfgen.to_jdf(prog))
        exes = {}
        for m in sorted({split_cfg(c)[0] for c in cfgs}):
            exe, msg = self.build_variant(wd, m)
            if exe is None:
                return "<%s [%s]>" % (msg, m)
            exes[m] = exe
        runs = []
        for cs in cfgs:
            m, cfg = split_cfg(cs)
            cfg["again"] = amax
            ents, info = self.run_cfg(exes[m], cfg, seed)
            runs.append((cs, ents, info))
            if info["end"] != "rc=0":
                break           # one failed configuration decides the case; the others would only add waiting time
        good = all(info["end"] == "rc=0" for _, _, info in runs)
        if good and not os.environ.get("VERIF_KEEP"):
            shutil.rmtree(wd, ignore_errors=True)
        return self.observation2(prog, sem, flags, hd, runs)

    def head_cfgs(self, hd):
        """(configurations, again seed, again max) of a case head"""
        return hd.split()[1:], self.seed, 0


def en_prio_set(en, pr):
    # Entry uses __slots__; keep the priority in the (otherwise unused here) keyprint slot as a tuple
    en.keyprint = (en.keyprint, pr)


def en_prio(en):
    return en.keyprint[1] if isinstance(en.keyprint, tuple) else None


def hb_violation(prog, sem, ents):
    """dependencies against the stamps of one run: the FINAL invocation of every predecessor ends before the
    FIRST invocation of the instance begins.  Returns None or a message."""
    name2ci = {c.name: i for i, c in enumerate(prog.classes)}
    first_begin, last_end = {}, {}
    for e in ents:
        t = (name2ci.get(e.cls, -1), e.params)
        first_begin[t] = min(first_begin.get(t, e.begin), e.begin)
        if not e.again:
            last_end[t] = max(last_end.get(t, e.end), e.end)
    for t in sem.ids:
        if t not in first_begin:
            continue
        for q in sem.pred[t]:
            if q not in last_end:
                return "%s began but its predecessor %s never completed" % (pv.fmt_tid(prog, t), pv.fmt_tid(prog, q))
            if not last_end[q] < first_begin[t]:
                return "%s began at %d before its predecessor %s ended at %d" % (
                    pv.fmt_tid(prog, t), first_begin[t], pv.fmt_tid(prog, q), last_end[q])
    return None


class C02(ValCheck):
    id = "C02"
    prop_file = "theories/Properties/Properties_C02.v"
    theorems = ("C02_wf_program_implies_fm", "C02_safe_check_sound", "C02_dependencies_are_C01", "C02_begin_after_predecessors",
                "C02_started_task_holds_producer_values", "C02_running_task_sees_named_values",
                "C02_body_reads_named_values", "C02_sequential_execution_completes",
                "C02_final_data_equal_sequential", "C02_observed_inputs_schedule_independent",
                "C02_observed_inputs_equal_sequential", "C02_engine_generic")
    mode = "val"
    level_text = ("Theorems over C01's AST and dataflow engine extended with data (PTGVal/ValEngine.v): a flow carries a data COPY (a "
                  "reference to a collection element or to a NEW tile, as the generated data_lookup/hook pass pointers, never values), "
                  "bodies read then write in place, `-> D(k)` copies are performed asynchronously at any later step. For EVERY program "
                  "accepted by wf_program and by the hazard check safeb (proved sound w.r.t. the Prop `Safe`: every writer of a copy is "
                  "ordered by the dependencies with every other holder and no writer sits between a producer and its consumer; write-back "
                  "sources are stable and destinations unused) and EVERY schedule (arbitrary list of Startup/Begin/End/Copy events, any "
                  "number of running tasks): (a) a Begin comes after the End of all predecessors, a started instance holds the very copy "
                  "of its producer, the producer is done and the copy contains the value the producer left (or D(k)'s initial value), for "
                  "as long as the instance runs; (b) every complete run ends with the memory of the sequential execution in the "
                  "topological order, which is itself shown to complete; (c) the values read by every body are schedule independent. "
                  "Proved for an arbitrary body function F. A racy program is exhibited on which the conclusion fails (why Safe is needed). "
                  "Tie (T-obs): generated hazard-free JDFs run through parsec-ptgpp with BOTH dependency back-ends (dynamic-hash-table, "
                  "index-array), every scheduler, 1/2/4/16 threads; per body the values read/written and begin/end stamps from one atomic "
                  "counter are logged and compared with the extracted sequential execution; final collection compared too. Full for the "
                  "modelled subset and engine; partial for jdf2c's generated C and real interleavings (tied by observation only).")
    level_note = ("Trusted: Coq kernel, extraction, ocaml/d_ptgval.ml parser, tools/jdfgen.py printers, harness/ptg_driver.c + ptg_rt.h "
                  "(body log, value hash), checks/ptgval_common.py (Python mirror of the hazard check used to GENERATE programs; the model "
                  "re-decides it with the proved safeb on every case). Abstractions: the body is atomic at End (reads then writes), the "
                  "repository entry of a producer is modelled as its flow bindings (C25 covers the repository's reference counting), "
                  "single process, one datatype (no reshape: C18), CPU copies only. NEW tiles have arbitrary content: programs whose "
                  "bodies read one are not run.")
    technique = ("Coq invariant proof over all schedules of a dataflow engine with shared data copies + observation-differential runs "
                 "of generated JDF programs (two ptgpp dependency back-ends) against the extracted sequential execution")
    rule = ("hazard-free programs from the DAG templates (shrink, wbforms, overlap, chain, fan, bcast_gather, diamond, split_merge, pipeline2d, tri, mixed, "
            "bcast_read, relay): data flows with OVERLAPPING input guards (a guarded task dependency followed by an unguarded or "
            "weaker-guarded D(..) fallback: first match wins) next to a second task-fed flow, in-place RW chains from D(k), NEW tiles broadcast to READ consumers, ternary/guarded inputs, control "
            "gathers ordering a reader before an overwriter, final write-backs into an element other than the one the copy came from in "
            "every spelling (unconditional, binary guard, ternary with the element on the true side, ternary with the element on the false "
            "side next to a successor task; guards true and false over the instances; copies from D(a), forwarded, or NEW); 3/4-parameter execution spaces whose middle parameter's bound shrinks or grows "
            "with the outer one, consumers gated by a control barrier so that they fetch their input from the repository while all the "
            "producers of the class are alive (keys must separate them); each under 4 configurations scheduler[@ia]:threads covering "
            "both back-ends and threads 1,2,4,16, schedulers rotated; non-trivial = at least 2 instances, 1 data edge between tasks; "
            "distinct = program text")
    trusted = ("tools/jdfgen.py (JDF and model printers of one structure), harness/ptg_driver.c + ptg_rt.h (log of values and stamps), "
               "checks/ptgval_common.py (generator-side hazard filter and Python reference used by the oracle)",)
    assumptions = ("the program is hazard-free on shared data copies (decided by safeb on every case; JDF leaves this to the programmer)",
                   "single process, one datatype, CPU incarnations only; int32 arithmetic of the generated code does not overflow",
                   "C07/C08/C10/C25 justify the engine's atomic steps (readiness exactly once, scheduler conservation, termination, repository lifetime)")

    # ---- generation
    def cfgs_for(self, i, r):
        th = [1, 2, 4, 16]
        out = []
        for j in range(4):
            s = SCHEDULERS[(4 * i + j) % len(SCHEDULERS)]
            m = "@ia" if (i + j) % 2 else ""
            c = "%s%s:%d" % (s, m, th[(i + j) % 4])
            if r.chance(1, 4):
                c += ":%d:%d" % (r.pick([1, 2, 3]), r.pick([1, 2, 5]))
            out.append(c)
        return out

    def cases(self):
        r = self.rng
        n = int(os.environ.get("VERIF_NCASES", 14 if self.tier == "quick" else 160))    # VERIF_NCASES: development aid
        out = []
        ts = list(pv.VAL_TEMPLATES)
        for i in range(n):
            p = pv.gen_value_program(r, ts[i % len(ts)] if i < 2 * len(ts) else None)
            out.append("val %s | %s" % (" ".join(self.cfgs_for(i, r)), jdfgen.to_case(p)))
        return out

    def search_cases(self):
        r = self.rng
        out = []
        for i in range(8):
            p = pv.gen_value_program(r)
            out.append("val %s | %s" % (" ".join(self.cfgs_for(i + 100, r)), jdfgen.to_case(p)))
        return out

    def nontrivial_key(self, case):
        try:
            p = jdfgen.parse_case(case.split("|", 1)[1])
        except Exception:
            return None
        sem = pv.Sem(p)
        data_edges = sum(1 for t in sem.ids for f in range(sem.nflows(t)) if (sem.src(t, f) or ("",))[0] == 'T')
        return case.split("|", 1)[1] if (len(sem.ids) >= 2 and data_edges >= 1) else None

    # ---- observation of one case
    def run_line(self, prog, sem, ents, info):
        """canonical text of one run: items | D …, plus markers for what the property forbids"""
        name2ci = {c.name: i for i, c in enumerate(prog.classes)}
        per = {}
        for e in ents:
            per.setdefault((name2ci.get(e.cls, 99), e.params), []).append(e)
        items, marks = [], []
        for t in sorted(per):
            l = per[t]
            nm = "%s(%s)" % (l[0].cls, ",".join(str(v) for v in t[1]))
            if len(l) != 1:
                marks.append("!dup %s x%d" % (nm, len(l)))
            e = l[0]
            items.append("%s R %s W %s" % (nm, pv.fmt_fv(sorted(e.reads.items())), pv.fmt_fv(sorted(e.writes.items()))))
        hb = hb_violation(prog, sem, ents)
        if hb:
            marks.append("!hb " + hb)
        if info.get("oor"):
            marks.append("!oor %d" % info["oor"])
        d = info["data"] or []
        return "%s | D %s%s" % (" ; ".join(items), " ".join(str(v) for v in d), "".join(" " + m for m in marks))

    def observation2(self, prog, sem, flags, hd, runs):
        per = [(cs, info["end"], self.run_line(prog, sem, ents, info)) for cs, ents, info in runs]
        if per and all(e == "rc=0" for _, e, _ in per) and len({x for _, _, x in per}) == 1:
            return "%s done=1 | %s" % (flags, per[0][2])
        return " || ".join("cfg=%s end=%s %s" % x for x in per)

    # ---- oracle: the property on the implementation's observation, against the Python sequential reference
    def oracle(self, case, obs):
        try:
            prog = jdfgen.parse_case(case.split("|", 1)[1])
        except Exception as ex:
            return None if obs.startswith("<bad case") else "unparsable case: %s" % ex
        if obs.startswith("<ptgpp-rejected") or obs.startswith("<generated-C") or obs.startswith("<link-failed"):
            return None          # the compiler refusing a program is C24's subject; it shows up as a disagreement
        if obs.startswith("<"):
            return "no observation: " + obs[:120]
        if re.match(r"wf=\d safe=\d uninit=\d$", obs):
            return None          # not a valid (hazard-free) program: not run, nothing to decide
        sem = pv.Sem(prog)
        rd, wr, data = pv.seq_reference(sem)
        want = {pv.fmt_tid(prog, t): (rd[t], wr[t]) for t in sem.ids}
        wantD = [data.get(k, 1000 + k) for k in range(prog.ndata)]
        chunks = obs.split(" || ") if obs.startswith("cfg=") else [obs]
        for ch in chunks:
            m = re.match(r"cfg=(\S+) end=(\S+) (.*)$", ch)
            if m:
                cfg, end, body = m.group(1), m.group(2), m.group(3)
            else:
                cfg, end = "all", "rc=0"
                body = ch.split(" | ", 1)[1] if " | " in ch else ""
            if end != "rc=0":
                return "[%s] run did not complete (%s)" % (cfg, end)
            mk = re.search(r" !(hb|dup|oor) (.*)$", body)
            if mk:
                return "[%s] %s: %s" % (cfg, {"hb": "dependency order violated", "dup": "instance ran more than once",
                                              "oor": "out-of-range collection access"}[mk.group(1)], mk.group(2)[:200])
            parts = body.split(" | D ")
            got = {}
            for it in (parts[0].split(" ; ") if parts[0].strip() else []):
                mm = re.match(r"(\S+) R(.*) W(.*)$", it)
                if mm:
                    got[mm.group(1)] = (self.fv(mm.group(2)), self.fv(mm.group(3)))
            for nm in want:
                if nm not in got:
                    return "[%s] instance %s never ran" % (cfg, nm)
            for nm in got:
                if nm not in want:
                    return "[%s] %s ran but is not in the execution space" % (cfg, nm)
            for t in sem.topo():
                nm = pv.fmt_tid(prog, t)
                if got[nm][0] != want[nm][0]:
                    for (f, v), (f2, v2) in zip(got[nm][0], want[nm][0]):
                        if (f, v) != (f2, v2):
                            s = sem.src(t, f2)
                            return "[%s] %s read %d on flow %d, the value named by the JDF (%s) is %d" % (
                                cfg, nm, v, f, self.src_text(prog, s), v2)
                    return "[%s] %s read flows %s, expected %s" % (cfg, nm, got[nm][0], want[nm][0])
                if got[nm][1] != want[nm][1]:
                    return "[%s] %s wrote %s, expected %s" % (cfg, nm, got[nm][1], want[nm][1])
            gotD = [int(x) for x in (parts[1].split() if len(parts) > 1 else [])]
            if gotD != wantD:
                k = next((i for i, (a, b) in enumerate(zip(gotD, wantD)) if a != b), -1)
                return "[%s] final collection differs from the sequential execution at D(%d): %s instead of %s" % (
                    cfg, k, gotD[k] if 0 <= k < len(gotD) else "?", wantD[k] if 0 <= k < len(wantD) else "?")
        return None

    @staticmethod
    def fv(txt):
        return [(int(a.split("=")[0]), int(a.split("=")[1])) for a in txt.split()]

    @staticmethod
    def src_text(prog, s):
        if s is None:
            return "nothing"
        if s[0] == 'T':
            return "flow %d of %s" % (s[2], pv.fmt_tid(prog, s[1]))
        if s[0] == 'M':
            return "D(%d)" % s[1]
        return "NEW" if s[0] == 'N' else "NULL"

    def signature(self, case, obs):
        r = self.oracle(case, obs) or ""
        for k, pat in (("hang", "did not complete (timeout"), ("crash", "did not complete"), ("order", "dependency order"),
                       ("twice", "more than once"), ("oor", "out-of-range"), ("missing", "never ran"),
                       ("extra", "not in the execution space"), ("value", " read "), ("written", " wrote "),
                       ("final", "final collection"), ("noobs", "no observation")):
            if pat in r:
                return k
        return "other"

    def shrink(self, case, impl_line):
        why = self.oracle(case, impl_line) or ""
        m = re.match(r"\[([^\]]+)\]", why)
        if not m or m.group(1) == "all":
            return case, impl_line
        hd, pt = case.split("|", 1)
        small = "%s %s |%s" % (hd.split()[0], m.group(1), pt)
        chunk = [c for c in impl_line.split(" || ") if c.startswith("cfg=%s " % m.group(1))]
        return small, (chunk[0] if chunk else impl_line)

    def dist(self, cases):
        d = PtgCheck.dist(self, cases)
        d["backends"] = {"ht": 0, "ia": 0}
        d["rw_from_collection"] = d["new_tiles"] = d["writebacks"] = d["data_edges"] = 0
        d["programs_with_overlapping_input_guards"] = d["flow_instances_with_overlapping_input_guards"] = 0
        d["writeback_spellings"] = {}
        d["classes_with_dependent_middle_bound"] = {"shrinking": 0, "growing": 0}
        for c in cases:
            try:
                hd, pt = c.split("|", 1)
                p = jdfgen.parse_case(pt)
            except Exception:
                continue
            for cf in hd.split()[1:]:
                d["backends"][split_cfg(cf)[0]] += 1
            sem = pv.Sem(p)
            for k, v in pv.space_shapes(p).items():
                d["classes_with_dependent_middle_bound"][k] += v
            for k, v in pv.writeback_forms(p).items():
                d["writeback_spellings"][k] = d["writeback_spellings"].get(k, 0) + v
            ov = pv.overlapping_flows(p)
            d["programs_with_overlapping_input_guards"] += 1 if ov else 0
            d["flow_instances_with_overlapping_input_guards"] += ov
            for t in sem.ids:
                d["writebacks"] += len(sem.wbs(t))
                for f in range(sem.nflows(t)):
                    s = sem.src(t, f)
                    if s is None:
                        continue
                    d["data_edges"] += 1 if s[0] == 'T' else 0
                    d["new_tiles"] += 1 if s[0] == 'N' else 0
                    d["rw_from_collection"] += 1 if (s[0] == 'M' and sem.writes(t, f)) else 0
        return d
