import concurrent.futures
import os
import signal
import subprocess
import time

from vcheck import Check, log

# case:  run R PY kpY kqY PT kpT kqT  MY NY mbY nbY  MT NT mbT nbT  sr sc  diY djY diT djT
F = ("R", "PY", "kpY", "kqY", "PT", "kpT", "kqT", "MY", "NY", "mbY", "nbY", "MT", "NT", "mbT", "nbT",
     "sr", "sc", "diY", "djY", "diT", "djT")


def ceil_div(a, b):
    return -(-a // b)


def parse_run(case):
    w = case.split()
    if w[0] != "run" or len(w) != 22:
        return None
    return dict(zip(F, (int(x) for x in w[1:])))


def mk_run(p):
    return "run " + " ".join(str(p[k]) for k in F)


def padded(p):
    return (ceil_div(p["MY"], p["mbY"]) * p["mbY"], ceil_div(p["NY"], p["nbY"]) * p["nbY"],
            ceil_div(p["MT"], p["mbT"]) * p["mbT"], ceil_div(p["NT"], p["nbT"]) * p["nbT"])


def valid(p):
    """the documented preconditions of parsec_redistribute (a window inside both matrices)"""
    pMY, pNY, pMT, pNT = padded(p)
    return (p["sr"] >= 1 and p["sc"] >= 1 and min(p["diY"], p["djY"], p["diT"], p["djT"]) >= 0
            and p["diY"] + p["sr"] <= pMY and p["djY"] + p["sc"] <= pNY
            and p["diT"] + p["sr"] <= pMT and p["djT"] + p["sc"] <= pNT)


def aligned(p):
    return (p["mbY"] == p["mbT"] and p["nbY"] == p["nbT"] and p["diY"] % p["mbY"] == 0 and p["djY"] % p["nbY"] == 0
            and p["diT"] % p["mbT"] == 0 and p["djT"] % p["nbT"] == 0)


class C21(Check):
    id = "C21"
    prop_file = "theories/Properties/Properties_C21.v"
    theorems = ("C21_result_is_window_copy", "C21_writes_exactly_the_window", "C21_each_entry_written_once",
                "C21_blocks_pairwise_disjoint", "C21_blocks_listed_once", "C21_blocks_inside_tiles",
                "C21_order_irrelevant", "C21_batches_cover_columns", "C21_refused_call_untouched",
                "C21_observation_is_model_result", "C21_c_division_agrees")
    comp = "redist"
    extract_file = "theories/Extract/Extract_Redist.v"
    extracted = ("redist",)
    harness_src = "harness/h_redist.c"
    link_parsec = True
    level_text = ("Theorems for EVERY source/target tile size, window size, the four displacements, descriptor extents and "
                  "column-batch widths that parsec_redistribute_New accepts, every matrix content and both execution paths "
                  "(redistribute.jdf, and redistribute_reshuffle.jdf under the wrapper's own selection condition): the model of the "
                  "tile decomposition (the integer expressions of the JDF locals m_Y_start/m_Y_end/i_start/TL/BR, getsize, the case "
                  "split of CORE_redistribute_update, the batch ranges of n_T, the reshuffle sizes) yields sub-blocks whose target "
                  "rectangles are pairwise disjoint, lie inside one existing source tile and one existing target tile, whose union "
                  "is exactly the window, each entry copied from source(dis_Y + offset); hence, in any order of the copies, "
                  "target' = window of the source at the target displacement and every other entry unchanged; a refused call leaves "
                  "the target alone. Partial: the model is tied to the code by observation (T-obs): the real parsec_redistribute "
                  "runs both JDFs through the real runtime on 1..4 MPI ranks with different process grids / k-cyclicity for source "
                  "and target, the gathered target is compared entry by entry with the extracted model; getsize, "
                  "redistribute_pair_num_cols and CORE_redistribute_update (static function of the C generated from redistribute.jdf, "
                  "included by the harness) are also called directly (T-seq) over parameter boxes.")
    level_note = ("Trusted: Coq kernel, extraction, harness (fills recognisable values, gathers with MPI_Reduce), mpiexec/Open MPI, the "
                  "PaRSEC runtime executing the JDF dataflow (C01/C05), the datatype engine for remote sub-blocks (C19). Not modelled: "
                  "ghost radius R != 0, LAPACK storage, tabular / SBC descriptors, the DTD variant, GPU memory.")
    technique = ("Coq proof (partition of the window by the tile-decomposition arithmetic, for all sizes and displacements) + "
                 "differential run of the real parsec_redistribute on 1..4 MPI ranks against the extracted model")
    rule = ("'run': random and directed (matrix <= 40, tiles 1..8 differing between source and target, unaligned displacements, "
            "windows touching borders / 1x1 / full matrix / inside one tile, wide target tiles over narrow source tiles, aligned same-tile cases for the optimized path and "
            "near misses of its condition, refused calls), on 1, 2, 3, 4 ranks with different PxQ grids and k-cyclicity; "
            "'gs'/'nc'/'upd': boxes of getsize / pair_num_cols / CORE_redistribute_update arguments. Non-trivial = accepted 'run' case; distinct = distinct case text")
    trusted = ("harness/h_redist.c: source(i,j)=(i+1)*1000+j, target=-(...) patterns; every rank contributes its tiles to a dense image, "
               "MPI_Reduce(SUM) to rank 0; one mpiexec job per rank count runs all cases of that count (restarted after a crash or hang)",)
    assumptions = ("the PaRSEC runtime executes every task of the two JDFs once with the dataflow they declare (C01, C05) and MPI "
                   "delivers the sub-blocks unchanged (C14, C19)",
                   "int arithmetic does not overflow (matrix extents < 2^31)",
                   "block-cyclic descriptors in tile storage, R = 0, host memory")

    # ------------------------------------------------------------------ generation
    def rand_run(self, r, R, kind):
        def grid():
            P = r.pick([p for p in (1, 2, 3, 4) if R % p == 0])
            return P, r.pick([1, 1, 2]), r.pick([1, 1, 2, 3])
        PY, kpY, kqY = grid()
        PT, kpT, kqT = grid()
        mbY, nbY, mbT, nbT = (r.range(1, 8) for _ in range(4))
        if kind in ("rs", "near") or (kind == "any" and r.chance(1, 5)):
            mbT, nbT = mbY, nbY
        if kind == "bars":   # target tiles spanning 3+ source tiles: the N/S/W/E/I pieces of Send/Update
            mbY, nbY, mbT, nbT = r.range(1, 2), r.range(1, 2), r.range(5, 8), r.range(5, 8)
        MY, NY, MT, NT = (r.pick([r.range(1, 40), r.range(1, 12), r.range(20, 40)]) for _ in range(4))
        p = dict(R=R, PY=PY, kpY=kpY, kqY=kqY, PT=PT, kpT=kpT, kqT=kqT, MY=MY, NY=NY, mbY=mbY, nbY=nbY,
                 MT=MT, NT=NT, mbT=mbT, nbT=nbT)
        pMY, pNY, pMT, pNT = padded(p)
        mr, mc = min(pMY, pMT), min(pNY, pNT)
        shape = r.pick(["rand", "rand", "rand", "one", "full", "row", "col", "intile"]) if kind == "any" else "rand"
        if kind == "bars":
            shape = r.pick(["rand", "full"])
        if shape == "one":
            sr = sc = 1
        elif shape == "full":
            sr, sc = mr, mc
        elif shape == "row":
            sr, sc = 1, r.range(1, mc)
        elif shape == "col":
            sr, sc = r.range(1, mr), 1
        elif shape == "intile":
            sr, sc = r.range(1, min(mr, mbT)), r.range(1, min(mc, nbT))
        else:
            sr, sc = r.range(1, mr), r.range(1, mc)

        def disp(ext, s, b):
            hi = ext - s
            # touching the low border, the high border, a tile boundary, or anywhere
            return r.pick([0, hi, r.range(0, hi), r.range(0, hi), min(hi, (r.range(0, hi) // b) * b), min(hi, r.range(0, hi) // b * b + b - 1)])
        p["sr"], p["sc"] = sr, sc
        p["diY"], p["djY"] = disp(pMY, sr, mbY), disp(pNY, sc, nbY)
        p["diT"], p["djT"] = disp(pMT, sr, mbT), disp(pNT, sc, nbT)
        if kind in ("rs", "near"):
            for d, b in (("diY", "mbY"), ("djY", "nbY"), ("diT", "mbT"), ("djT", "nbT")):
                p[d] -= p[d] % p[b]
            if kind == "near":   # break exactly one conjunct of the wrapper's condition
                which = r.pick(["diY", "djY", "diT", "djT", "mb", "nb"])
                ext = {"diY": pMY - sr, "djY": pNY - sc, "diT": pMT - sr, "djT": pNT - sc}
                if which in ext and p[which] + 1 <= ext[which]:
                    p[which] += 1
                elif which == "mb":
                    p["mbT"] = p["mbY"] + 1
                    p["diT"] = 0
                    p["sr"] = min(p["sr"], ceil_div(p["MT"], p["mbT"]) * p["mbT"])
                else:
                    p["nbT"] = p["nbY"] + 1
                    p["djT"] = 0
                    p["sc"] = min(p["sc"], ceil_div(p["NT"], p["nbT"]) * p["nbT"])
        elif kind == "bad":
            which = r.pick(["sr0", "sc0", "neg", "srcrow", "srccol", "tgtrow", "tgtcol"])
            if which == "sr0":
                p["sr"] = r.pick([0, -1])
            elif which == "sc0":
                p["sc"] = 0
            elif which == "neg":
                p[r.pick(["diY", "djY", "diT", "djT"])] = -1
            elif which == "srcrow":
                p["diY"] = pMY - p["sr"] + 1
            elif which == "srccol":
                p["djY"] = pNY - p["sc"] + r.range(1, 3)
            elif which == "tgtrow":
                p["diT"] = pMT - p["sr"] + r.range(1, 2)
            else:
                p["djT"] = pNT - p["sc"] + 1
        return mk_run(p)

    def run_cases(self, r, counts):
        out = []
        for R, n in counts:
            kinds = ["any"] * 6 + ["rs", "rs", "near", "bad", "bars", "bars"]
            if R > 1:   # the packed remote pieces (CORE_redistribute_send) exist only between ranks
                kinds = ["any"] * 5 + ["rs", "near", "bad"] + ["bars"] * 4
            for i in range(n):
                out.append(self.rand_run(r, R, kinds[i % len(kinds)]))
        return out

    def cases(self):
        r = self.rng
        out = []
        quick = self.tier == "quick"
        # T-seq: getsize over a box (also arguments no JDF expression produces), num_cols over grids
        gs = []
        for st in (0, 2):
            for en in range(st, st + 4):
                for idx in range(st - 1, en + 2):
                    for mb in (1, 2, 3, 5):
                        for size in (1, 2, 5, 9):
                            for dis in (0, 1, 2, 4):
                                gs.append("gs %d %d %d %d %d %d" % (idx, st, en, mb, size, dis))
        if quick:
            r.shuffle(gs)
            gs = gs[:600]
        out += gs
        for R in (1, 2, 3, 4, 6, 8):
            for PY in (p for p in range(1, R + 1) if R % p == 0):
                for PT in (p for p in range(1, R + 1) if R % p == 0):
                    for kqY in (1, 2, 3):
                        for kqT in (1, 2, 3):
                            out.append("nc %d %d %d %d %d %d" % (R, PY, kqY, PT, kqT, r.range(1, 40)))
        # T-seq: CORE_redistribute_update (generated from redistribute.jdf) against upd_seg x upd_seg,
        # also on argument combinations that no task of the JDF produces
        for _ in range(1500 if quick else 20000):
            a = []
            for _dim in range(2):
                ys = r.range(0, 2)
                ye = ys + r.pick([0, 0, 1, 2, 3])
                a.append((r.pick([r.range(ys, ye)] * 10 + [ys - 1, ye + 1]), ys, ye, r.range(0, 3), r.range(1, 4), r.range(1, 4), r.range(1, 4), r.range(0, 3)))
            (my, mys, mye, i0, tlr, brr, mb, offr), (ny, nys, nye, j0, tlc, brc, nb, offc) = a
            out.append("upd %d %d  %d %d %d %d  %d %d  %d %d %d %d  %d %d  %d %d  %d" % (
                my, ny, mys, mye, nys, nye, i0, j0, tlr, tlc, brr, brc, mb, nb, offr, offc, r.below(2)))
        counts = [(1, 40), (2, 40), (3, 12), (4, 30)] if quick else [(1, 600), (2, 500), (3, 150), (4, 400)]
        out += self.run_cases(r, counts)
        return out

    def search_cases(self):
        # one-dimensional boxes on one rank (rows, then columns), then random multi-rank runs
        out = []
        base = dict(R=1, PY=1, kpY=1, kqY=1, PT=1, kpT=1, kqT=1)
        for bY in (1, 2, 3):
            for bT in (1, 2, 3):
                for s in (1, 2, 3, 5):
                    for dY in (0, 1, 2):
                        for dT in (0, 1, 2):
                            ext = 9
                            if dY + s > ext or dT + s > ext:
                                continue
                            p = dict(base, MY=ext, NY=4, mbY=bY, nbY=2, MT=ext, NT=4, mbT=bT, nbT=2, sr=s, sc=3,
                                     diY=dY, djY=1, diT=dT, djT=0)
                            out.append(mk_run(p))
                            p = dict(base, MY=4, NY=ext, mbY=2, nbY=bY, MT=4, NT=ext, mbT=2, nbT=bT, sr=3, sc=s,
                                     diY=1, djY=dY, diT=0, djT=dT)
                            out.append(mk_run(p))
        r = self.rng.fork()
        out += self.run_cases(r, [(2, 60), (4, 40)])
        return out

    def nontrivial_key(self, case):
        p = parse_run(case)
        if p is None or not valid(p):
            return None
        return case

    def dist(self, cases):
        d = {"gs": 0, "nc": 0, "upd": 0, "run_refused": 0, "run_reshuffle": 0, "run_general": 0}
        ranks = {}
        for c in cases:
            p = parse_run(c)
            if p is None:
                d[c.split()[0]] = d.get(c.split()[0], 0) + 1
                continue
            ranks[p["R"]] = ranks.get(p["R"], 0) + 1
            if not valid(p):
                d["run_refused"] += 1
            elif aligned(p):
                d["run_reshuffle"] += 1
            else:
                d["run_general"] += 1
        d["runs_per_rank_count"] = {str(k): v for k, v in sorted(ranks.items())}
        return d

    # ------------------------------------------------------------------ oracle (specification recomputed here)
    def oracle(self, case, obs):
        p = parse_run(case)
        if p is None:
            return None
        ok = valid(p)
        if obs.startswith("<skip>") or obs.startswith("<impl not run") or obs.startswith("<impl missing"):
            return None    # nothing was observed
        if obs.startswith("<"):
            return ("the redistribution did not complete: " + obs[:120]) if ok else None
        try:
            h, b = obs.split("|")
            h = h.split()
            rc, rows, cols = int(h[0][3:]), int(h[1]), int(h[2])
            vals = [int(x) for x in b.split()]
        except Exception:
            return "unparsable observation: " + obs[:80]
        pMY, pNY, pMT, pNT = padded(p)
        if rows != pMT or cols != pNT or len(vals) != rows * cols:
            return "target image has the wrong shape"
        if ok and rc != 0:
            return "valid request refused (rc=%d)" % rc
        for i in range(rows):
            for j in range(cols):
                inw = ok and p["diT"] <= i < p["diT"] + p["sr"] and p["djT"] <= j < p["djT"] + p["sc"]
                want = ((i - p["diT"] + p["diY"] + 1) * 1000 + (j - p["djT"] + p["djY"])) if inw else -((i + 1) * 1000 + j)
                got = vals[i * cols + j]
                if got != want:
                    where = "inside" if inw else "outside"
                    return "target(%d,%d)=%d, required %d (%s the window)" % (i, j, got, want, where)
        return None

    def signature(self, case, obs):
        p = parse_run(case)
        if p is None:
            return case.split()[0]
        if not valid(p):
            return "run-refused"
        return "run-%s-%s" % ("reshuffle" if aligned(p) else "general", "1rank" if p["R"] == 1 else "multirank")

    # ------------------------------------------------------------------ running the real code under mpiexec
    jobs = 3

    def stall_limit(self):
        return 45 if self.tier == "quick" else 90

    def run_group(self, tag, R, lines):
        """run the cases of one rank count in one MPI job; restart after a crash or a hang"""
        res = []
        rest = list(lines)
        attempt = 0
        threads = "2" if R <= 2 else "1"
        while rest and attempt < 8:
            cf = "%s.r%d.a%d.txt" % (tag, R, attempt)
            of = cf + ".out"
            with open(cf, "w") as f:
                f.write("\n".join(rest) + "\n")
            if os.path.exists(of):
                os.remove(of)
            cmd = ["mpiexec", "--allow-run-as-root", "--oversubscribe", "-n", str(R), self.hbin(), cf, of, threads]
            ef = cf + ".err"
            with open(ef, "wb") as efh:
                p = subprocess.Popen(cmd, stdout=subprocess.DEVNULL, stderr=efh, start_new_session=True)
            last, seen, why = time.time(), 0, None
            try:
                while p.poll() is None:
                    time.sleep(0.2)
                    try:
                        n = sum(1 for _ in open(of))
                    except OSError:
                        n = 0
                    if n != seen:
                        seen, last = n, time.time()
                    elif time.time() - last > self.stall_limit() + (30 if seen == 0 else 0):
                        why = "no progress for %ds" % self.stall_limit()
                        break
            finally:
                if p.poll() is None:
                    try:
                        os.killpg(p.pid, signal.SIGKILL)
                    except OSError:
                        pass
            try:
                p.wait(timeout=20)
            except Exception:
                pass
            try:
                err = open(ef, "rb").read()[-4000:]
            except OSError:
                err = b""
            try:
                got = [l.rstrip("\n") for l in open(of)]
            except OSError:
                got = []
            got = [l for l in got if l][:len(rest)]
            res += got
            rest = rest[len(got):]
            if rest:
                # the case after the last line is the one that crashed or hung
                tail = "".join(ch for ch in (err or b"").decode("ascii", "replace").replace("\n", " ")
                               if " " <= ch <= "~").strip()[-160:]
                res.append("<impl %s rc=%s: %s>" % (why or "crash", p.returncode, tail))
                rest = rest[1:]
            attempt += 1
        res += ["<impl not run: too many restarts>"] * len(rest)
        return res

    def run_impl(self, casefile, n):
        cases = [l.rstrip("\n") for l in open(casefile) if l.strip() and not l.startswith("#")]
        groups = {}
        for i, c in enumerate(cases):
            p = parse_run(c)
            R = p["R"] if p is not None and 1 <= p["R"] <= 8 else 1
            groups.setdefault(R, []).append(i)
        out = [None] * len(cases)
        tag = casefile[:-4] if casefile.endswith(".txt") else casefile
        with concurrent.futures.ThreadPoolExecutor(max_workers=self.jobs) as ex:
            futs = {ex.submit(self.run_group, tag, R, [cases[i] for i in idx]): R for R, idx in groups.items()}
            for f in concurrent.futures.as_completed(futs):
                R = futs[f]
                try:
                    lines = f.result()
                except Exception as exn:
                    lines = ["<impl exception %s>" % exn] * len(groups[R])
                for i, l in zip(groups[R], lines):
                    out[i] = l
        return [(o if o is not None else "<impl missing>") for o in out][:n] + ["<impl missing>"] * max(0, n - len(out))
