from compound_common import PoolCheck, SCHEDULERS


def members(body):
    """-> list of (size, bare) ; a bare member has size 0"""
    out = []
    for m in body.replace("(", ";").replace(")", ";").split(";"):
        w = m.split()
        if not w:
            continue
        out.append((0, True) if w[0] == "b" else (int(w[0]), False))
    return out


def kv(obs):
    d = {}
    for w in obs.split():
        if "=" in w:
            k, v = w.split("=", 1)
            d[k] = v
    return d


class C15(PoolCheck):
    id = "C15"
    prop_file = "theories/Properties/Properties_C15.v"
    theorems = ("C15_sequential", "C15_enabled_after_previous", "C15_member_callback_after_its_tasks",
                "C15_nothing_twice", "C15_all_exactly_once", "C15_no_stuck", "C15_steps_monotone",
                "C15_active_taskpools", "C15_compound_after_last_fixed", "C15_compound_exactly_at_end_fixed",
                "C15_code_compound_reported_at_add", "C15_compound_completion_refuted",
                "C15_model_with_bare_members_conservative")
    comp = "compound"
    extract_file = "theories/Extract/Extract_Compound.v"
    extracted = ("compound",)
    harness_src = "harness/h_compound.c"
    impl_env_timeout = ("H_COMPOUND_TIMEOUT_MS", 20000)
    level_text = (
        "Model (CompoundDefs.v): the compound's own detector and counters, parsec_context_add_taskpool of the compound "
        "(detector installed and declared ready, active_taskpools, startup hook), parsec_composed_taskpool_cb, member PTG pools "
        "as (startup task, tasks, nb_tasks, nb_pending_actions, monitor), events add / startup / startup-release / begin / end. "
        "Theorems for EVERY number of members >= 1, EVERY size vector and EVERY event list (any interleaving): a task of member "
        "k begins only after member k was enabled and every task of every earlier member ended; a member is enabled only after "
        "all earlier tasks ended; nothing happens twice; on completion everything happened exactly once; a run that is not "
        "complete always has a progressing event and every event is a no-op or increases a bounded-by-uniqueness measure; "
        "active_taskpools is 0 exactly at completion.  Compound completion: proved 'after the last member, exactly once' for the "
        "repaired constructor and REFUTED for the code as it is (the compound is reported terminated inside "
        "parsec_context_add_taskpool, before its first member starts: C15_code_compound_reported_at_add holds for every "
        "composition).  Proof technique: the model is shown equal, event by event, to a three-number abstract machine "
        "(CompoundRefine.step_conc), the log properties are invariants of that machine.  Level: full on the model; the tie to "
        "the runtime is by observation (T-obs) of compositions of 1..20 real PTG taskpools.")
    level_note = (
        "Each detector operation is one atomic step of the model (C10 covers their interleavings for reference-holding clients); "
        "tasks inside a member are independent in the model (the chains of the test taskpool only restrict the real schedule); "
        "the model that is run against the code is the one at CompoundCode.code_precharge (false = unchanged code).  The "
        "theorems quantify over PTG members of every size (0 included); bare members are in the executable model (stepB, "
        "conservative: C15_model_with_bare_members_conservative) and are tied by the differential run and the oracle only.  "
        "NESTED compositions (an element that is itself a compound) have an executable tree model (CompoundTree.v: one detector "
        "and counter set per compound node, the callback chain up through the ancestors and down into first elements); that "
        "its history equals the list semantics of the flattened composition is NOT proved in general: it is checked by "
        "exhaustive exploration of all interleavings on small trees (Examples C15_nested_equals_flat_*), by the model driver on "
        "every generated nested case (tree run vs flattened-list run under the same schedule) and against the code.")
    technique = ("Coq proof (refinement to an abstract machine + invariants, all schedules) + differential run of real compositions "
                 "of generated PTG taskpools (stamped bodies, enqueue and completion callbacks) against the extracted model")
    rule = ("compositions of 1..20 members built with parsec_compose, member = compound_pool.jdf with 0..24 tasks in 1..4 chains or a "
            "bare parsec_taskpool_t without any work (terminates re-entrantly inside parsec_context_add_taskpool), empty and bare "
            "members at first / middle / last positions and in runs; NESTED compositions (an element that is itself a compound: "
            "right-nested, compound + compound, depth up to 3), observed on the flattened sequence of leaves; "
            "modes: add/start/context_wait, start/add/taskpool_wait(compound)/context_wait, add/start/taskpool_wait/context_wait; "
            "threads 1..8, schedulers of the list; non-trivial = at least two members with tasks; distinct = member sizes + mode")
    trusted = ("harness/h_compound.c derives seq/clast/tpw from stamps of one global atomic counter; the first body executed waits "
               "up to 400 ms for parsec_taskpool_wait(compound) to return so that an early return is observed on any machine",
               "compound_pool.jdf is translated by the parsec-ptgpp of the tree under test")
    assumptions = ("every termination-detector call is atomic (C10)",
                   "member taskpools terminate on their own (C01) — the PTG engine is not part of this model")

    def configs(self):
        r = self.rng
        k = 3 if self.tier == "quick" else 8
        cfgs = [(1, "lfq"), (4, "lfq")]
        while len(cfgs) < k:
            c = (r.pick([1, 2, 3, 4, 8]), r.pick(SCHEDULERS[:9]))
            if c not in cfgs:
                cfgs.append(c)
        return cfgs

    def one(self, r, cfg, n=None, mode=None, nest=None):
        if nest is None:
            nest = r.chance(1, 3)
        if n is None:
            n = r.pick([1, 2, 2, 3, 3, 4, 5, r.range(6, 12), r.range(13, 20), 20])
        if mode is None:
            mode = r.pick([0, 0, 1, 2])
        ms = []
        # members without work: PTG taskpools of size 0 (terminate when their startup task is released) and bare
        # taskpools "b" (terminate re-entrantly inside parsec_context_add_taskpool), at first / middle / last positions
        nowork = r.pick([0, 0, 1, 2]) if n >= 2 else 0
        for j in range(n):
            if nowork and r.chance(1, 3 if nowork == 1 else 2):
                ms.append(r.pick(["b", "b", "0 1"]))
                continue
            nt = r.pick([0, 1, 1, 2, 3, r.range(4, 8), r.range(9, 24)])
            w = r.pick([1, 1, 2, 3, 4, 64])
            ms.append("%d %d" % (nt, w))
        body = " ; ".join(ms)
        if nest and n >= 3:
            body = self.nest(r, ms)
        return "cmp %d %s %d %d %d | %s" % (cfg[0], cfg[1], mode, r.pick([0, 1 + r.below(1000)]), r.below(100000), body)

    def nest(self, r, ms):
        """a composition tree over the members ms (in order), as parsec_compose can build it: the first element of every
        group is a leaf, later elements are leaves or groups; right-nested, compound + compound, depth up to 3"""
        def group(lo, hi, depth):
            # members lo..hi-1, at least 2
            parts = [ms[lo]]
            i = lo + 1
            while i < hi:
                left = hi - i
                if depth < 3 and left >= 2 and r.chance(1, 2):
                    k = r.range(2, left)
                    parts.append("( " + group(i, i + k, depth + 1) + " )")
                    i += k
                else:
                    parts.append(ms[i])
                    i += 1
            return " ; ".join(parts)
        style = r.below(3)
        n = len(ms)
        if style == 0:                                  # fully right-nested: A ; ( B ; ( C ; D ) )
            out = ms[n - 1]
            depth = 0
            for j in range(n - 2, -1, -1):
                if depth < 3 and j > 0:
                    out = "( " + ms[j] + " ; " + out + " )"
                    depth += 1
                else:
                    out = ms[j] + " ; " + out
            return out
        if style == 1 and n >= 4:                       # compound + compound: A ; B ; ( C ; D ... )
            k = r.range(2, n - 2)
            return " ; ".join(ms[:k]) + " ; ( " + group(k, n, 2) + " )"
        return group(0, n, 1)

    def cases(self):
        r = self.rng
        out = []
        per = 14 if self.tier == "quick" else 120
        for cfg in self.configs():
            # directed: the refutation witness, all-empty members, single member, 20 members
            out.append("cmp %d %s 2 0 1 | 1 1 ; 1 1" % cfg)
            out.append("cmp %d %s 1 3 2 | 2 1 ; 0 1 ; 3 2" % cfg)
            out.append("cmp %d %s 0 0 3 | 0 1 ; 0 1 ; 0 1" % cfg)
            out.append("cmp %d %s 2 5 4 | 3 2" % cfg)
            out.append(self.one(r, cfg, n=20))
            # bare members (re-entrant completion callback): middle, first, last, two in a row, all
            out.append("cmp %d %s 0 0 5 | 2 1 ; b ; 3 2" % cfg)
            out.append("cmp %d %s 2 7 6 | b ; 1 1 ; b ; b ; 2 2 ; b" % cfg)
            out.append("cmp %d %s 1 0 7 | b ; b ; b" % cfg)
            # nested compositions: an element that is itself a compound
            out.append("cmp %d %s 0 0 8 | 2 1 ; ( 1 1 ; 3 2 ) ; 1 1" % cfg)
            out.append("cmp %d %s 2 4 9 | 1 1 ; ( b ; 2 1 ; ( 0 1 ; b ) ) ; ( 1 1 ; 2 2 )" % cfg)
            out.append(self.one(r, cfg, n=r.range(4, 9), nest=True))
            out.append(self.one(r, cfg, n=r.range(3, 6), nest=True))
            for _ in range(per):
                out.append(self.one(r, cfg))
        return out

    def search_cases(self):
        r = self.rng.fork()
        return [self.one(r, cfg) for cfg in self.configs() for _ in range(6)]

    def nontrivial_key(self, case):
        hd, body = case.split("|", 1)
        ms = members(body)
        if sum(1 for m in ms if m[0] > 0) < 2:
            return None
        return hd.split()[3] + "|" + body.strip()

    def dist(self, cases):
        d = {"members_hist": {}, "modes": {}, "threads": {}, "schedulers": {}, "empty_members": 0, "tasks_total": 0}
        for c in cases:
            hd, body = c.split("|", 1)
            w = hd.split()
            ms = members(body)
            d["members_hist"][str(len(ms))] = d["members_hist"].get(str(len(ms)), 0) + 1
            d["bare_members"] = d.get("bare_members", 0) + sum(1 for m in ms if m[1])
            d["modes"][w[3]] = d["modes"].get(w[3], 0) + 1
            d["threads"][w[1]] = d["threads"].get(w[1], 0) + 1
            d["schedulers"][w[2]] = d["schedulers"].get(w[2], 0) + 1
            d["empty_members"] += sum(1 for m in ms if m[0] == 0 and not m[1])
            d["tasks_total"] += sum(m[0] for m in ms)
        return d

    # ---- the property, decided on the implementation's observation alone
    def verdict(self, case, obs):
        """-> (signature, message) or None"""
        hd, body = case.split("|", 1)
        mode = int(hd.split()[3])
        sizes = [m[0] for m in members(body)]
        if obs.startswith("<hang") and "(" in body:
            return ("nested-compound-never-completes",
                    "the composition contains an element that is itself a compound and never completes (parsec_context_wait / "
                    "parsec_taskpool_wait do not return): " + obs[:80])
        if obs.startswith("<"):
            return ("no-observation", "the run gave no observation: " + obs[:100])
        d = kv(obs)
        try:
            ran = [int(x) for x in d["ran"].split(",")]
            begun = [int(x) for x in d["begun"].split(",")]
            enq = [int(x) for x in d["enq"].split(",")]
            ccb, seq, clast, late, act = int(d["ccb"]), int(d["seq"]), int(d["clast"]), int(d["late"]), int(d["act"])
            tpw = d["tpw"]
        except Exception:
            return ("unparsable", "unparsable observation: " + obs[:100])
        if "over" in obs.split():
            return ("task-ran-twice", "a task body ran twice or an unknown task ran")
        for j, s in enumerate(sizes):
            if j >= len(ran) or ran[j] != s or begun[j] != s:
                return ("member-tasks-lost-or-repeated",
                        "member %d has %d tasks, %s began and %s completed" % (j, s, begun[j] if j < len(begun) else "?",
                                                                                ran[j] if j < len(ran) else "?"))
            if enq[j] != 1:
                return ("member-enabled-%s" % ("twice" if enq[j] > 1 else "never"), "member %d was enabled %d times" % (j, enq[j]))
        if seq != 1:
            return ("members-overlap", "a task of a later member started (or the member was enabled) before an earlier member ended")
        if late != 0:
            return ("activity-after-context-wait", "%d stamps were taken after parsec_context_wait returned" % late)
        if act != 0:
            return ("active-taskpools-nonzero", "active_taskpools = %d after parsec_context_wait" % act)
        if ccb != 1:
            return ("compound-callback-count", "the compound's completion callback ran %d times" % ccb)
        if clast != 1:
            return ("compound-completes-at-add" if len(sizes) >= 2 else "single-callback-early",
                    "the compound's completion callback ran before its last member completed")
        if mode != 0 and tpw != "1":
            return ("compound-wait-returns-early", "parsec_taskpool_wait(compound) returned before the last member completed")
        return None

    def oracle(self, case, obs):
        v = self.verdict(case, obs)
        return v[1] if v else None

    def signature(self, case, obs):
        v = self.verdict(case, obs)
        return v[0] if v else "none"
