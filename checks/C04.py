from dtd_common import DTDCheck, c04_verdict


class C04(DTDCheck):
    id = "C04"
    prop_file = "theories/Properties/Properties_C04.v"
    theorems = ("C04_exclusive", "C04_exclusive_datum", "C04_begin_waits", "C04_begun_after_conflicts",
                "C04_concurrent_set", "C04_readers_run_together", "C04_mechanism_exclusive",
                "C04_mechanism_begun_after", "C04_mechanism_unguarded_refuted")
    styles = ("readers", "readers", "readers", "mixed", "chain", "wide")
    level_text = ("Invariant over every run of the DTD protocol model (every sequence, body, window, event list): two running "
                  "tasks never conflict (per datum: a running W/RW holder excludes every other running task touching it); Begin "
                  "is enabled only when every earlier-inserted conflicting task has ended (a writer waits for all earlier "
                  "readers and writers); conversely any set of idle tasks whose earlier conflicting tasks ended can run "
                  "together, in particular all n readers between two writers, for every n. Below the protocol, the flow-level "
                  "mechanism model (DTD/DTDGate.v: last_user/alive flag, chained flows, reader count of the copy, walk of a "
                  "completing writer, AGAIN test of data_lookup, recycled task structs) is proved to have the same exclusion "
                  "for every sequence without repeated tiles and every event list WITH the guard of "
                  "notes/findings/C03-stale-last-user.patch, and is refuted WITHOUT it (C04_mechanism_unguarded_refuted; witness "
                  "replayed on the real code by corpus/C04/stale_last_user.txt). Partial: the real overlap of machine "
                  "instructions is observed (per-datum in-flight counters with atomic increments in test-owned bodies that "
                  "spin a seeded time), not proved; insertion and completion are atomic steps of the mechanism model.")
    level_note = ("Trusted: Coq kernel, extraction, the in-flight counters of harness/h_dtd.c (entry/exit stamps, re-check of the "
                  "values read after the spin). Real runs sample the schedules of the OS. The mechanism model is hand-written "
                  "from the C code and tied to it only through the witness replay and the differential stream. The window "
                  "between marking the chain tail not-alive and parsec_dtd_data_copy_reader_retain in "
                  "parsec_dtd_ordering_correctly is not modelled: a race confirmed by delay injection "
                  "(notes/findings/C04-retain-after-not-alive.md).")
    technique = ("Coq invariant proofs over all schedules (protocol model; flow-level mechanism model refining it, refuted "
                 "without the guard) + observation differential: per-datum overlap counters maintained by the task bodies "
                 "of the real runtime")
    rule = ("as C03 with more reader groups between writers and spinning bodies; non-trivial = the sequence has a dependency; "
            "the evidence reports how many cases really had overlapping readers (impl_overlap_stats)")
    trusted = ("harness/h_dtd.c: per-datum in-flight counters (atomic inc/dec at body entry/exit), bodies spin a seeded time",)
    assumptions = ("single process; bodies access their data only between entry and exit of the body",
                   "a task names a datum at most once in the differential stream")

    def verdict(self, case, obs):
        return c04_verdict(case, obs)

    def defect_cases(self):
        # reader count driven wrong by a task that reads one datum through two flows: a later
        # writer starts while readers of the datum are still running
        seq = "0x ; 0r 0r 0x ; " + " ; ".join([" ; ".join(["0r"] * 5) + " ; 0x"] * 8)
        return ["dtd 1 8 lfq 0 0 %d 0 | %s" % (s, seq) for s in (11, 12, 13)] + self.late_rr_cases()
