"""C17 — DTD data flush returns the last written value to the owner (component dtdflush).

Case text (one line, see harness/h_dtdflush.c):
  dtdflush <ranks> <ndata> <threads> <sched> <window> <threshold> <spin> <owners> | <item> ; <item> ; ...
  item = task "[@rank] <datum><r|w|x>[^] ..." | "F<d>" (flush of one tile) | "F*" (flush_all) | "!" (wait)
  the harness ends every case with F* ; !
Observation (both sides):
  in: <t>=<v>,<v> ... | snap: <v>,<v>,.. ... | data: v ... | runs: c ... | null=<k>
"""
import os
import re
import signal
import subprocess
import time

from vcheck import Check, run, log
from dtd_common import fval, SeqGen, MAIN_SCHEDS, MAXF

MPIEXEC = ["mpiexec", "--allow-run-as-root", "--oversubscribe", "--mca", "mpi_yield_when_idle", "1", "--bind-to", "none"]


# ---- case text -----------------------------------------------------------------
def parse_case(case):
    """-> (hdr, items); items = ('T', rank, [(d, m)], aff) | ('F', d or None) | ('!',)"""
    head, _, body = case.partition("|")
    w = head.split()
    hdr = {"ranks": int(w[1]), "ndata": int(w[2]), "threads": int(w[3]), "sched": w[4], "window": int(w[5]),
           "threshold": int(w[6]), "spin": int(w[7]), "owner": [int(x) for x in w[8].split(",")]}
    items = []
    for f in [x.strip() for x in body.split(";")]:
        if f == "":
            continue
        if f == "!":
            items.append(("!",))
        elif f.startswith("F"):
            items.append(("F", None if f[1:] == "*" else int(f[1:])))
        else:
            rank, aff, acc = None, None, []
            for a in f.split():
                if a == ".":
                    continue
                if a.startswith("@"):
                    rank = int(a[1:])
                    continue
                if a.endswith("^"):
                    aff = len(acc)
                    a = a[:-1]
                acc.append((int(a[:-1]), a[-1]))
            if aff is not None:
                rank = hdr["owner"][acc[aff][0]]
            items.append(("T", rank, acc, aff))
    return hdr, items


def item_txt(it):
    if it[0] == "!":
        return "!"
    if it[0] == "F":
        return "F*" if it[1] is None else "F%d" % it[1]
    _, rank, acc, aff = it
    s = " ".join("%d%s%s" % (d, m, "^" if aff == j else "") for j, (d, m) in enumerate(acc)) if acc else "."
    return s if aff is not None else "@%d %s" % (rank, s)


def case_txt(ranks, ndata, threads, sched, window, threshold, spin, owner, items):
    return "dtdflush %d %d %d %s %d %d %d %s | %s" % (
        ranks, ndata, threads, sched, window, threshold, spin, ",".join(map(str, owner)),
        " ; ".join(item_txt(i) for i in items))


def cfg_of(case):
    w = case.split("|")[0].split()
    return (w[1], w[3], w[4], w[5], w[6])        # ranks threads sched window threshold


# ---- python replay (oracle side; independent of the Coq model) -------------------
def replay(case):
    """sequential execution of the tasks in insertion order; flushes and waits change no value.
       -> (inputs per task, [(snapshot values, set of data the property constrains)], final values)
       a datum is constrained at a wait when it was never written or a flush of it was requested
       after its last write"""
    hdr, items = parse_case(case)
    nd = hdr["ndata"]
    cur = [100 + d for d in range(nd)]
    clean = [True] * nd           # flushed after the last write (or never written)
    live = set()                  # tiles named by a task since their last flush
    ins_all, snaps = [], []
    tid = 0
    for it in items:
        if it[0] == "T":
            _, rank, acc, aff = it
            ins = [cur[d] for (d, m) in acc if m != "w"]
            v = fval(tid, ins)
            for (d, m) in acc:
                live.add(d)
                if m != "r":
                    cur[d] = v
                    clean[d] = False
            ins_all.append(ins)
            tid += 1
        elif it[0] == "F":
            ds = sorted(live) if it[1] is None else [it[1]]
            for d in ds:
                clean[d] = True
                live.discard(d)
        else:
            snaps.append((list(cur), set(d for d in range(nd) if clean[d])))
    return ins_all, snaps, list(cur)


def parse_obs(obs):
    m = re.match(r"^in:(.*)\| snap:(.*)\| data:(.*)\| runs:(.*)\| null=(-?\d+)\s*$", obs)
    if not m:
        return None
    ins = []
    for tok in m.group(1).split():
        k, _, v = tok.partition("=")
        ins.append([] if v == "-" else v.split(","))
    try:
        snaps = [[int(x) for x in g.split(",")] for g in m.group(2).split()]
        return {"ins": ins, "snaps": snaps, "data": [int(x) for x in m.group(3).split()],
                "runs": [int(x) for x in m.group(4).split()], "null": int(m.group(5))}
    except ValueError:
        return None


def verdict(case, obs):
    """C17 on one observation of the implementation: None or (kind, text)"""
    if obs.startswith("<impl not run"):
        return None
    if obs.startswith("<impl hang") or obs.startswith("<hang"):
        return ("hang", "the wait after the flush never returned (%s)" % obs[:120])
    if obs.startswith("<"):
        return ("crash", "no observation: " + obs[:160])
    o = parse_obs(obs)
    if o is None:
        return ("unparsable", "unparsable observation " + obs[:80])
    hdr, items = parse_case(case)
    ins, snaps, final = replay(case)
    ntasks = len(ins)
    if len(o["runs"]) != ntasks or len(o["ins"]) != ntasks or len(o["snaps"]) != len(snaps):
        return ("unparsable", "observation has %d tasks / %d snapshots, case has %d / %d"
                % (len(o["runs"]), len(o["snaps"]), ntasks, len(snaps)))
    for t, c in enumerate(o["runs"]):
        if c != 1:
            return ("runs", "task %d ran %d times (summed over the ranks)" % (t, c))
    if o["null"] != 0:
        return ("null", "%d flows received a NULL data pointer" % o["null"])
    # owner's copy after flush + wait = value of the last inserted writer
    for k, ((want, constrained), got) in enumerate(zip(snaps, o["snaps"])):
        for d in sorted(constrained):
            if got[d] != want[d]:
                return ("owner-copy", "after wait %d the owner (rank %d) of datum %d holds %d; the last task inserted "
                        "that writes it produced %d" % (k, hdr["owner"][d], d, got[d], want[d]))
    for d, (g, w) in enumerate(zip(o["data"], final)):
        if g != w:
            return ("owner-copy", "after the final flush_all and wait the owner (rank %d) of datum %d holds %d; the "
                    "last task inserted that writes it produced %d" % (hdr["owner"][d], d, g, w))
    # tasks inserted after a flush (and every other task) see the value of the last inserted writer
    for t, (got, want) in enumerate(zip(o["ins"], ins)):
        if got != [str(v) for v in want]:
            return ("task-input", "task %d observed inputs %s, the last inserted writers produced %s"
                    % (t, ",".join(got) or "-", ",".join(map(str, want)) or "-"))
    return None


# ---- generator ---------------------------------------------------------------------
class FlushGen:
    """phases of tasks with placements; single-tile flushes in the middle of a phase (the tile is not
       named again before the next wait), every live tile flushed before a wait, flush_all at phase ends,
       flushes of untouched tiles and repeated flushes."""

    def __init__(self, rng):
        self.r = rng
        self.sg = SeqGen(rng)

    def owners(self, ranks, ndata):
        r = self.r
        k = r.below(4)
        if k == 0:
            return [d % ranks for d in range(ndata)]
        if k == 1:
            o = r.below(ranks)
            return [o] * ndata
        return [r.below(ranks) for _ in range(ndata)]

    def place(self, acc, ranks, owner):
        """-> (rank, aff): explicit rank (biased to a non-owner of a written tile) or affinity on a flow"""
        r = self.r
        if acc and r.chance(1, 3):
            j = r.below(len(acc))
            return owner[acc[j][0]], j
        wr = [d for (d, m) in acc if m != "r"]
        if wr and ranks > 1 and r.chance(2, 3):
            o = owner[r.pick(wr)]
            return r.pick([x for x in range(ranks) if x != o]), None
        return r.below(ranks), None

    def phase(self, ranks, ndata, owner, ntasks, style, last):
        r = self.r
        seq = [a for (_, a) in self.sg.sequence(ndata, ntasks, style, repeats=False)] if ntasks else []
        items = []
        for acc in seq:
            rk, aff = self.place(acc, ranks, owner)
            items.append(("T", rk, acc, aff))
        # single-tile flushes in the middle: after the last use of the tile in this phase
        lastuse = {}
        for i, it in enumerate(items):
            for (d, _) in it[2]:
                lastuse[d] = i
        mid = [d for d in lastuse if r.chance(1, 2)]
        # flushing a tile that no task of the phase names (untouched or flushed before): harmless
        for d in range(ndata):
            if d not in lastuse and r.chance(1, 4):
                mid.append(d)
                lastuse[d] = -1
        ins_at = {}
        for d in mid:
            pos = r.range(lastuse[d] + 1, len(items))
            ins_at.setdefault(pos, []).append(d)
            if r.chance(1, 6):                       # the same tile flushed twice
                ins_at.setdefault(r.range(pos, len(items)), []).append(d)
        out = []
        for i in range(len(items) + 1):
            for d in ins_at.get(i, []):
                out.append(("F", d))
            if i < len(items):
                out.append(items[i])
        # end of the phase: every live tile flushed before the wait
        rest = [d for d in lastuse if d not in mid]
        k = r.below(3)
        if ranks == 1 and r.chance(1, 3):
            pass                                     # one process: a wait needs no flush
        elif k == 0 or (last and r.chance(1, 2)):
            if not last or r.chance(1, 2):
                out.append(("F", None))
        elif k == 1:
            for d in r.shuffle(rest):
                out.append(("F", d))
            if r.chance(1, 3):
                out.append(("F", None))
        else:
            for d in r.shuffle(rest)[:len(rest) // 2]:
                out.append(("F", d))
            out.append(("F", None))
        if not last:
            out.append(("!",))
        elif r.chance(1, 3):
            out += [("F", None), ("!",)]
        return out


class C17(Check):
    id = "C17"
    prop_file = "theories/Properties/Properties_C17.v"
    theorems = ()
    comp = "dtdflush"
    extract_file = "theories/Extract/Extract_DTDFlush.v"
    extracted = ("dtdflush",)
    harness_src = "harness/h_dtdflush.c"
    link_parsec = True
    styles = ("mixed", "mixed", "readers", "chain", "chain", "groups", "wide")
    stall_s = 60

    # ---- running the real code: one MPI job per configuration -------------------------
    def impl_timeout(self):
        return 1500 if self.tier == "quick" else 6000

    def run_group(self, tag, ranks, lines):
        res, rest, attempt = [], list(lines), 0
        while rest and attempt < 6:
            cf = "%s.a%d.txt" % (tag, attempt)
            of = cf + ".out"
            with open(cf, "w") as f:
                f.write("\n".join(rest) + "\n")
            if os.path.exists(of):
                os.remove(of)
            cmd = MPIEXEC + ["-n", str(ranks), self.hbin(), cf, of]
            ef = cf + ".err"
            with open(ef, "wb") as efh:
                p = subprocess.Popen(cmd, stdout=subprocess.DEVNULL, stderr=efh, stdin=subprocess.DEVNULL,
                                     start_new_session=True)
            last, seen, why = time.time(), 0, None
            try:
                while p.poll() is None:
                    time.sleep(0.1)
                    try:
                        n = sum(1 for _ in open(of))
                    except OSError:
                        n = 0
                    if n != seen:
                        seen, last = n, time.time()
                    elif time.time() - last > self.stall_s + (60 if seen == 0 else 0):
                        why = "hang: no completion within %d s" % self.stall_s
                        break
            finally:
                if p.poll() is None:
                    try:
                        os.killpg(p.pid, signal.SIGKILL)
                    except OSError:
                        pass
            try:
                p.wait(timeout=20)
            except Exception:
                pass
            try:
                os.killpg(p.pid, signal.SIGKILL)       # stragglers of an aborted job
            except OSError:
                pass
            try:
                err = open(ef, "rb").read()[-4000:]
            except OSError:
                err = b""
            try:
                got = [l.rstrip("\n") for l in open(of)]
            except OSError:
                got = []
            got = [l for l in got if l][:len(rest)]
            res += got
            rest = rest[len(got):]
            if rest:
                tail = "".join(ch for ch in err.decode("ascii", "replace").replace("\n", " ")
                               if " " <= ch <= "~").strip()[-160:]
                res.append("<impl %s rc=%s: %s>" % (why or "crash", p.returncode, tail))
                rest = rest[1:]
                attempt += 1
        res += ["<impl not run: too many restarts>"] * len(rest)
        return res

    def run_impl(self, casefile, n):
        cases = [l.rstrip("\n") for l in open(casefile) if l.strip() and not l.startswith("#")]
        groups = {}
        for i, c in enumerate(cases):
            try:
                key = cfg_of(c) if c.startswith("dtdflush ") else None
                parse_case(c)
            except Exception:
                key = None
            groups.setdefault(key, []).append(i)
        out = [None] * len(cases)
        jobs = []
        for key, idx in groups.items():
            if key is None:
                for i in idx:
                    out[i] = "<bad case>"
                continue
            jobs.append((key, idx))
        # a few MPI jobs at a time (each has ranks x threads busy-waiting threads)
        from concurrent.futures import ThreadPoolExecutor

        def one(job):
            key, idx = job
            tag = "%s.g%s" % (casefile, "_".join(key))
            return idx, self.run_group(tag, int(key[0]), [cases[i] for i in idx])
        with ThreadPoolExecutor(max_workers=self.parallel_jobs) as ex:
            for idx, res in ex.map(one, jobs):
                for i, r in zip(idx, res):
                    out[i] = r
        return [o if o is not None else "<no result>" for o in out][:n] + ["<no result>"] * max(0, n - len(out))

    parallel_jobs = 3

    # ---- cases --------------------------------------------------------------------------
    def configs(self):
        r = self.rng
        base = [(1, 2, "lfq", 0, 0), (2, 2, "lfq", 0, 0), (3, 1, "ap", 0, 0), (4, 2, "lfq", 0, 0), (2, 4, "gd", 4, 2),
                (4, 1, "pbq", 0, 0)]
        extra = []
        for _ in range(2 if self.tier == "quick" else 10):
            w = r.pick([0, 0, 1, 2, 4, 8])
            extra.append((r.range(1, 4), r.pick([1, 2, 3, 4]), r.pick(MAIN_SCHEDS), w, r.range(0, w) if w else 0))
        return base + extra

    def gen_cases(self, per_cfg, maxtasks):
        r = self.rng
        g = FlushGen(r)
        out = []
        for (ranks, th, sc, w, h) in self.configs():
            for _ in range(per_cfg):
                ndata = r.range(1, 6)
                owner = g.owners(ranks, ndata)
                nph = r.pick([1, 1, 2, 2, 3, 4])
                items = []
                for ph in range(nph):
                    nt = r.pick([0, r.range(1, 4), r.range(3, 10), r.range(5, maxtasks)])
                    items += g.phase(ranks, ndata, owner, nt, r.pick(self.styles), ph == nph - 1)
                spin = r.pick([0, r.range(1, 1000), r.range(1, 1000)])
                out.append(case_txt(ranks, ndata, th, sc, w, h, spin, owner, items))
        return out

    def cases(self):
        if self.tier == "quick":
            return self.gen_cases(14, 24)
        return self.gen_cases(120, 60)

    def oracle(self, case, obs):
        v = verdict(case, obs)
        return v[1] if v else None

    def signature(self, case, obs):
        v = verdict(case, obs)
        try:
            multi = "multirank" if int(case.split()[1]) > 1 else "1rank"
        except Exception:
            multi = "bad"
        return "%s-%s" % (v[0] if v else "none", multi)

    def nontrivial_key(self, case):
        # non trivial: some tile is written by a task placed on a rank that does not own it and flushed afterwards
        try:
            hdr, items = parse_case(case)
        except Exception:
            return None
        remote = set()
        for it in items:
            if it[0] == "T":
                for (d, m) in it[2]:
                    if m != "r" and it[1] != hdr["owner"][d]:
                        remote.add(d)
        return case if remote else None
