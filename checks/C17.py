"""C17 — DTD data flush returns the last written value to the owner (component dtdflush).

Case text (one line, see harness/h_dtdflush.c):
  dtdflush <ranks> <ndata> <threads> <sched> <window> <threshold> <spin> <owners> [<bytes>] | <item> ; <item> ; ...
  bytes = size of a tile (3..16, default 16); "~" = late flush, "%r" = rank r inserts 30 ms late (timing only)
  item = task "[@rank] <datum><r|h|w|x>[^] ..." | "F<d>" (flush of one tile) | "F*" (flush_all) | "!" (wait)
         h = read through the datatype of the leading part of the tile (3 bytes; byte j of a tile of value v
         holds enc(v, j); writers always use the whole tile)
  the harness ends every case with F* ; !
Observation (both sides):
  in: <t>=<v>,<v> ... | snap: <v>,<v>,.. ... | data: v ... | runs: c ... | null=<k> torn=<n>
  a tile is printed as v when all its bytes belong to the value v, else as b0/b1/...
"""
import os
import re
import signal
import subprocess
import time

from vcheck import Check, run, log
from dtd_common import fval, SeqGen, MAIN_SCHEDS, MAXF

MPIEXEC = ["mpiexec", "--allow-run-as-root", "--oversubscribe", "--mca", "mpi_yield_when_idle", "1", "--bind-to", "none"]


# ---- case text -----------------------------------------------------------------
def parse_case(case):
    """-> (hdr, items); items = ('T', rank, [(d, m)], aff, heads) | ('F', d or None) | ('!',)
       m in r/w/x; heads = positions of the read flows that use the leading-part datatype (h in the text)"""
    head, _, body = case.partition("|")
    w = head.split()
    hdr = {"ranks": int(w[1]), "ndata": int(w[2]), "threads": int(w[3]), "sched": w[4], "window": int(w[5]),
           "threshold": int(w[6]), "spin": int(w[7]), "owner": [int(x) for x in w[8].split(",")],
           "bytes": int(w[9]) if len(w) > 9 else 16}
    items = []
    for f in [x.strip() for x in body.split(";")]:
        if f == "":
            continue
        if f == "!":
            items.append(("!",))
        elif f.startswith("%"):
            items.append(("%", int(f[1:])))     # timing only: rank r inserts what follows 30 ms late
        elif f == "~":
            items.append(("~",))     # timing only: the next flush is inserted after the local tasks have completed
        elif f.startswith("F"):
            items.append(("F", None if f[1:] == "*" else int(f[1:])))
        else:
            rank, aff, acc, heads = None, None, [], set()
            for a in f.split():
                if a == ".":
                    continue
                if a.startswith("@"):
                    rank = int(a[1:])
                    continue
                if a.endswith("^"):
                    aff = len(acc)
                    a = a[:-1]
                if a[-1] == "h":
                    heads.add(len(acc))
                    a = a[:-1] + "r"
                acc.append((int(a[:-1]), a[-1]))
            if aff is not None:
                rank = hdr["owner"][acc[aff][0]]
            items.append(("T", rank, acc, aff, frozenset(heads)))
    return hdr, items


def item_txt(it):
    if it[0] in ("!", "~"):
        return it[0]
    if it[0] == "%":
        return "%%%d" % it[1]
    if it[0] == "F":
        return "F*" if it[1] is None else "F%d" % it[1]
    _, rank, acc, aff = it[:4]
    heads = it[4] if len(it) > 4 else ()
    s = " ".join("%d%s%s" % (d, "h" if j in heads else m, "^" if aff == j else "") for j, (d, m) in enumerate(acc)) if acc else "."
    return s if aff is not None else "@%d %s" % (rank, s)


def case_txt(ranks, ndata, threads, sched, window, threshold, spin, owner, items, tb=16):
    return "dtdflush %d %d %d %s %d %d %d %s %d | %s" % (
        ranks, ndata, threads, sched, window, threshold, spin, ",".join(map(str, owner)), tb,
        " ; ".join(item_txt(i) for i in items))


def cfg_of(case):
    w = case.split("|")[0].split()
    return (w[1], w[3], w[4], w[5], w[6])        # ranks threads sched window threshold


# ---- python replay (oracle side; independent of the Coq model) -------------------
def replay(case):
    """sequential execution of the tasks in insertion order; flushes and waits change no value.
       -> (inputs per task, [(snapshot values, set of data the property constrains)], final values)
       a datum is constrained at a wait when it was never written or a flush of it was requested
       after its last write"""
    hdr, items = parse_case(case)
    nd = hdr["ndata"]
    cur = [100 + d for d in range(nd)]
    clean = [True] * nd           # flushed after the last write (or never written)
    live = set()                  # tiles named by a task since their last flush
    ins_all, snaps = [], []
    tid = 0
    for it in items:
        if it[0] == "T":
            _, rank, acc, aff = it[:4]
            ins = [cur[d] for (d, m) in acc if m != "w"]
            v = fval(tid, ins)
            for (d, m) in acc:
                live.add(d)
                if m != "r":
                    cur[d] = v
                    clean[d] = False
            ins_all.append(ins)
            tid += 1
        elif it[0] == "F":
            ds = sorted(live) if it[1] is None else [it[1]]
            for d in ds:
                clean[d] = True
                live.discard(d)
        elif it[0] == "!":
            snaps.append((list(cur), set(d for d in range(nd) if clean[d])))
    return ins_all, snaps, list(cur)


def enc(v, j):
    return ((v >> (8 * (j % 3))) + 37 * (j // 3)) & 255


def tile_elems(txt, tb=None):
    """bytes of a printed tile: 'v' stands for enc(v, 0), enc(v, 1), ... (harness/h_dtdflush.c); without tb a
       consistent tile is kept as its value"""
    if "/" in txt:
        return [int(x) for x in txt.split("/")]
    return [enc(int(txt), j) for j in range(tb)] if tb else int(txt)


def parse_obs(obs):
    m = re.match(r"^in:(.*)\| snap:(.*)\| data:(.*)\| runs:(.*)\| null=(-?\d+) torn=(-?\d+)\s*$", obs)
    if not m:
        return None
    ins = []
    for tok in m.group(1).split():
        k, _, v = tok.partition("=")
        ins.append([] if v == "-" else v.split(","))
    try:
        snaps = [[tile_elems(x) for x in g.split(",")] for g in m.group(2).split()]
        return {"ins": ins, "snaps": snaps, "data": [tile_elems(x) for x in m.group(3).split()],
                "runs": [int(x) for x in m.group(4).split()], "null": int(m.group(5)), "torn": int(m.group(6))}
    except ValueError:
        return None


def verdict(case, obs):
    """C17 on one observation of the implementation: None or (kind, text)"""
    if obs.startswith("<impl not run"):
        return None
    if obs.startswith("<impl hang") or obs.startswith("<hang"):
        return ("hang", "the wait after the flush never returned (%s)" % obs[:120])
    if obs.startswith("<"):
        return ("crash", "no observation: " + obs[:160])
    o = parse_obs(obs)
    if o is None:
        return ("unparsable", "unparsable observation " + obs[:80])
    hdr, items = parse_case(case)
    ins, snaps, final = replay(case)
    ntasks = len(ins)
    tb = hdr["bytes"]

    def elems(x):
        return x if isinstance(x, list) else tile_elems(str(x), tb)
    if len(o["runs"]) != ntasks or len(o["ins"]) != ntasks or len(o["snaps"]) != len(snaps):
        return ("unparsable", "observation has %d tasks / %d snapshots, case has %d / %d"
                % (len(o["runs"]), len(o["snaps"]), ntasks, len(snaps)))
    for t, c in enumerate(o["runs"]):
        if c != 1:
            return ("runs", "task %d ran %d times (summed over the ranks)" % (t, c))
    if o["null"] != 0:
        return ("null", "%d flows received a NULL data pointer" % o["null"])
    # owner's copy after flush + wait = value of the last inserted writer, element by element
    for k, ((want, constrained), got) in enumerate(zip(snaps, o["snaps"])):
        for d in sorted(constrained):
            for i, (g, w) in enumerate(zip(elems(got[d]), tile_elems(str(want[d]), tb))):
                if g != w:
                    return ("owner-copy", "after wait %d byte %d of the copy of datum %d at its owner (rank %d) is %d; "
                            "the last task inserted that writes the tile left %d there"
                            % (k, i, d, hdr["owner"][d], g, w))
    for d, (got, want) in enumerate(zip(o["data"], final)):
        if isinstance(got, list) and len(got) != tb:
            return ("unparsable", "tile of %d bytes printed with %d" % (tb, len(got)))
        for i, (g, w) in enumerate(zip(elems(got), tile_elems(str(want), tb))):
            if g != w:
                return ("owner-copy", "after the final flush_all and wait byte %d of the copy of datum %d at its owner "
                        "(rank %d) is %d; the last task inserted that writes the tile left %d there"
                        % (i, d, hdr["owner"][d], g, w))
    # tasks inserted after a flush (and every other task) see the value of the last inserted writer
    for t, (got, want) in enumerate(zip(o["ins"], ins)):
        if got != [str(v) for v in want]:
            return ("task-input", "task %d observed inputs %s, the last inserted writers produced %s"
                    % (t, ",".join(got) or "-", ",".join(map(str, want)) or "-"))
    if o["torn"] != 0:
        return ("task-input", "%d bytes seen by task bodies did not belong to the value held by bytes 0..2 of their tile"
                % o["torn"])
    return None


# ---- generator ---------------------------------------------------------------------
class FlushGen:
    """phases of tasks with placements; single-tile flushes in the middle of a phase (the tile is not
       named again before the next wait), every live tile flushed before a wait, flush_all at phase ends,
       flushes of untouched tiles and repeated flushes."""

    def __init__(self, rng):
        self.r = rng
        self.sg = SeqGen(rng)

    def owners(self, ranks, ndata):
        r = self.r
        k = r.below(4)
        if k == 0:
            return [d % ranks for d in range(ndata)]
        if k == 1:
            o = r.below(ranks)
            return [o] * ndata
        return [r.below(ranks) for _ in range(ndata)]

    def place(self, acc, ranks, owner):
        """-> (rank, aff): explicit rank (biased to a non-owner of a written tile) or affinity on a flow"""
        r = self.r
        if acc and r.chance(1, 3):
            j = r.below(len(acc))
            return owner[acc[j][0]], j
        wr = [d for (d, m) in acc if m != "r"]
        if wr and ranks > 1 and r.chance(2, 3):
            o = owner[r.pick(wr)]
            return r.pick([x for x in range(ranks) if x != o]), None
        return r.below(ranks), None

    def bounce(self, ranks, ndata, owner):
        """writer chains that leave the owner and come back (owner -> other rank(s) -> owner), a few readers of the
           last version on the owner, per tile; access lists of one tile only"""
        r = self.r
        seq = []
        for d in r.shuffle(range(ndata))[:r.range(1, ndata)]:
            o = owner[d]
            others = [x for x in range(ranks) if x != o] or [o]
            chain = [o] if r.chance(3, 4) else []
            for _ in range(r.range(1, 2)):
                chain += [r.pick(others) for _ in range(r.range(1, 2))] + [o]
            for k in chain:
                seq.append(("T", k, [(d, r.pick(["x", "x", "w"]) if seq else "x")], None, frozenset()))
            for _ in range(r.pick([0, 0, 1, 2])):
                seq.append(("T", o, [(d, "r")], None, frozenset([0]) if r.chance(1, 3) else frozenset()))
        return seq

    def phase(self, ranks, ndata, owner, ntasks, style, last, late=False):
        r = self.r
        if style == "bounce":
            items = self.bounce(ranks, ndata, owner)
            return self.finish_phase(items, ranks, ndata, owner, last, late)
        seq = [a for (_, a) in self.sg.sequence(ndata, ntasks, style, repeats=False)] if ntasks else []
        items = []
        self.seen = set()        # tiles named in this phase (a tile is flushed, hence re-created, at most at phase ends)
        prod = {}                # rank of the last writer of the tile in this phase
        for acc in seq:
            rk, aff = self.place(acc, ranks, owner)
            # reads through the leading-part datatype: never the first access of a tile since it was created
            # (the runtime moves a tile with the datatype of its first access: parsec_insert_dtd_task sets
            # tile->arena_index once, a fake first writer inherits it)
            # ... and only on the rank that produced the current version (no message): the receiving side of a
            # message takes the datatype of the consumers, "it would not make sense to receive different amount"
            # (remote_dep_mpi_retrieve_datatype): consumers of one version on one rank must agree on the size
            heads = set()
            for j, (d, m) in enumerate(acc):
                if m == "r" and d in self.seen and rk == prod.get(d, owner[d]) and r.chance(1, 2):
                    heads.add(j)
            for (d, m) in acc:
                self.seen.add(d)
                if m != "r":
                    prod[d] = rk
            items.append(("T", rk, acc, aff, frozenset(heads)))
        # a last look at the leading part of a tile on the rank of its last writer, when that is not the owner: the
        # flush then follows an access that used the smaller datatype and still has to bring the whole tile home
        lastw = {}
        for it in items:
            for (d, m) in it[2]:
                if m != "r":
                    lastw[d] = it[1]
        for d in sorted(lastw):
            if lastw[d] != owner[d] and r.chance(1, 2):
                items.append(("T", lastw[d], [(d, "r")], None, frozenset([0])))
        return self.finish_phase(items, ranks, ndata, owner, last, late)

    def finish_phase(self, items, ranks, ndata, owner, last, late):
        r = self.r
        # single-tile flushes in the middle: after the last use of the tile in this phase
        lastuse = {}
        for i, it in enumerate(items):
            for (d, _) in it[2]:
                lastuse[d] = i
        mid = [d for d in lastuse if r.chance(1, 2)]
        # flushing a tile that no task of the phase names (untouched or flushed before): harmless
        for d in range(ndata):
            if d not in lastuse and r.chance(1, 4):
                mid.append(d)
                lastuse[d] = -1
        ins_at = {}
        if ranks > 1 and items and r.chance(1, 6):    # ... or some rank inserts the rest of the phase late
            ins_at.setdefault(r.below(len(items)), []).append(("%", r.below(ranks)))
        for d in mid:
            pos = r.range(lastuse[d] + 1, len(items))
            ins_at.setdefault(pos, []).append(d)
            if r.chance(1, 6):                       # the same tile flushed twice
                ins_at.setdefault(r.range(pos, len(items)), []).append(d)
        out = []
        for i in range(len(items) + 1):
            for d in ins_at.get(i, []):
                out.append(d if isinstance(d, tuple) else ("F", d))
            if i < len(items):
                out.append(items[i])
        # late flush: the flushes at the end of the phase are inserted after the local tasks have completed
        if late:
            out.append(("~",))
        # the others run ahead: one rank (an owner of a tile written elsewhere when there is one) inserts the flushes
        # late, the activations of the flush tasks reach it before it knows them
        if ranks > 1 and r.chance(1, 3):
            lw = {}
            for it in items:
                for (d, m) in it[2]:
                    if m != "r":
                        lw[d] = it[1]
            cand = sorted(set(owner[d] for d in lw if lw[d] != owner[d]))
            out.append(("%", r.pick(cand) if cand else r.below(ranks)))
        # end of the phase: every live tile flushed before the wait
        rest = [d for d in lastuse if d not in mid]
        k = r.below(3)
        if ranks == 1 and r.chance(1, 3):
            pass                                     # one process: a wait needs no flush
        elif k == 0 or (last and r.chance(1, 2)):
            if not last or r.chance(1, 2):
                out.append(("F", None))
        elif k == 1:
            for d in r.shuffle(rest):
                out.append(("F", d))
            if r.chance(1, 3):
                out.append(("F", None))
        else:
            for d in r.shuffle(rest)[:len(rest) // 2]:
                out.append(("F", d))
            out.append(("F", None))
        if not last:
            out.append(("!",))
        elif r.chance(1, 3):
            out += [("F", None), ("!",)]
        return out


# ---- input classes of the two defects found by this check (notes/findings/C17-*.md) ---------------
def class_stale_desc(hdr, items):
    """a task T2 placed on rank b writes a tile whose previous writer ran on a rank != q and that was read by a
       task of rank q in between, with b != q: rank q releases its descriptor of T2 when the next writer of the
       tile is inserted although the reader on q still points to it as its descendant; harmful when the
       descriptor is recycled for a later task foreign to q with the same number of flows that READS at the
       flow position where T2 wrote (the successor walk then follows a foreign chain: hang)"""
    nd, owner, R = hdr["ndata"], hdr["owner"], hdr["ranks"]
    if R == 1:
        return False
    phases, phase = [], []
    for it in items:
        if it[0] == "!":
            phases.append(phase)
            phase = []
        else:
            phase.append(it)
    phases.append(phase)
    for ph in phases:
        for q in range(R):
            lw = [None] * nd          # rank of the last writer of the tile (None: new tile -> fake writer on the owner)
            rq = [False] * nd         # a task of q read the tile since its last writer
            cands = []                # (position, flow index, number of flows) of T2
            for pos, it in enumerate(ph):
                if it[0] == "T":
                    _, rank, acc, aff = it[:4]
                    for i, (d, m) in enumerate(acc):
                        lwr = owner[d] if lw[d] is None else lw[d]
                        if m == "r":
                            if rank == q:
                                rq[d] = True
                        else:
                            if lwr != q and rq[d] and rank != q:
                                cands.append((pos, i, len(acc)))
                            lw[d] = rank
                            rq[d] = False
                elif it[0] == "F":
                    for d in (range(nd) if it[1] is None else [it[1]]):
                        lw[d] = None
                        rq[d] = False
            for (pos, i, k) in cands:
                for it in ph[pos + 1:]:
                    if it[0] == "T" and it[1] != q and len(it[2]) == k and it[2][i][1] == "r":
                        return True
    return False


def class_overwrite(hdr, items):
    """a task of the owner reads the tile in the owner's storage (no task placed elsewhere wrote it since the tile
       was created / flushed), a task placed elsewhere writes the tile later, before the next wait: the receive
       side of the flush overwrites the owner's storage without waiting for that reader"""
    nd, owner = hdr["ndata"], hdr["owner"]
    if hdr["ranks"] == 1:
        return False
    inplace = [True] * nd
    pend = [False] * nd
    for it in items:
        if it[0] == "T":
            _, rank, acc, aff = it[:4]
            for (d, m) in acc:
                if m == "r":
                    if rank == owner[d] and inplace[d]:
                        pend[d] = True
                elif rank != owner[d]:
                    if inplace[d] and pend[d]:
                        return True
                    inplace[d] = False
        elif it[0] == "F":
            for d in (range(nd) if it[1] is None else [it[1]]):
                inplace[d] = True
        elif it[0] == "!":
            pend = [False] * nd
    return False


def class_reflush(hdr, items):
    """parsec_dtd_data_flush of a tile that was used and flushed since the last wait: PARSEC_DTD_TILE_OF creates a
       new tile and resets data_copy->readers to 0 although tasks inserted before the first flush still hold reader
       references on the owner's copy; a later writer of the old tile then overtakes those readers"""
    nd = hdr["ndata"]
    used = [False] * nd          # named by a task since the last wait
    flushed = [False] * nd       # ... and flushed afterwards
    for it in items:
        if it[0] == "T":
            for (d, m) in it[2]:
                used[d] = True
        elif it[0] == "F":
            if it[1] is None:
                for d in range(nd):
                    if used[d]:
                        flushed[d] = True
            else:
                if flushed[it[1]]:
                    return True
                if used[it[1]]:
                    flushed[it[1]] = True
        elif it[0] == "!":
            used = [False] * nd
            flushed = [False] * nd
    return False


def defect_classes(case):
    try:
        hdr, items = parse_case(case)
    except Exception:
        return (False, False, False)
    return (class_stale_desc(hdr, items), class_overwrite(hdr, items), class_reflush(hdr, items))


def repo_has(relpath, marker):
    import vcheck
    try:
        return marker in open(os.path.join(vcheck.REPO, relpath)).read()
    except OSError:
        return False


class C17(Check):
    id = "C17"
    prop_file = "theories/Properties/Properties_C17.v"
    theorems = ("C17_owner_copy_after_wait", "C17_flush_brings_version_home", "C17_owner_copy_final",
                "C17_flush_transparent", "C17_observations_sequential", "C17_last_written_value",
                "C17_flush_call_brings_home", "C17_flush_all_call_brings_home",
                "C17_flush_all_returns_last_written", "C17_progress",
                "C17_reads_do_not_change_what_a_flush_returns")
    comp = "dtdflush"
    extract_file = "theories/Extract/Extract_DTDFlush.v"
    extracted = ("dtdflush",)
    harness_src = "harness/h_dtdflush.c"
    link_parsec = True
    styles = ("mixed", "mixed", "readers", "chain", "chain", "groups", "wide")
    stall_s = 60
    defect_stall_s = 25
    parallel_jobs = 3
    level_text = ("Theorems over the flush model (DTDFlush/DTDFlushDefs.v, on the DTD engine of C03): tiles have an owner rank, "
                  "tasks an execution rank; the taskpool holds user tasks and flush-class tasks (INOUT on the tile; the one "
                  "executed by the owner is the receive side; parsec_dtd_data_flush inserts a send side on the last writer's rank "
                  "when that is not the owner, then the receive side, and forgets the tile); the state keeps the current version "
                  "of every tile and the owner's storage, which a task writes only when it runs on the owner and the version is "
                  "that storage, and into which the receive-side flush copies its input. For EVERY insertion sequence, ownership "
                  "map, placement, window and EVERY event list (Insert/Begin/End, refused events are no-ops) that respects the "
                  "API contract (a flushed tile is not named again before a wait): after a wait the owner's storage of every "
                  "tile whose version is at home - in particular every tile flushed and not written elsewhere since - holds the "
                  "value of the sequential execution in insertion order, i.e. the output of the last inserted writer or the "
                  "initial value (C17_owner_copy_after_wait, C17_flush_brings_version_home, C17_last_written_value); at the end "
                  "of a program that ends with flush_all + wait every owner holds the sequential result of the application's "
                  "tasks (C17_flush_all_returns_last_written); flushes (of touched or untouched tiles, repeated, anywhere) are "
                  "transparent (C17_flush_transparent) and every task, also one inserted after a flush, observes the sequential "
                  "values (C17_observations_sequential); no reachable state is stuck (C17_progress). Partial: one engine for all "
                  "ranks - the per-rank copies and the messages are not modelled, the multi-rank transport is only observed. "
                  "Tie T-obs: generated programs run through the real parsec_dtd_insert_task / parsec_dtd_data_flush(_all) / "
                  "parsec_taskpool_wait under mpiexec -n 1..4; after every wait each owner reports its tiles, every task the "
                  "values it read; compared with the extracted model (engine folded over a pseudo-random schedule) and decided "
                  "by a Python replay.")
    level_note = ("The model works on tile VALUES: a tile is moved as a whole, by the datatype of its first access "
                  "(parsec_insert_dtd_task sets tile->arena_index once; the flush tasks ship and copy with it). The harness "
                  "uses byte tiles of 3..16 bytes (byte j of a tile of value v holds enc(v, j)) and two arena datatypes of bytes "
                  "(whole tile / leading 3 bytes); writers and the first access of a tile use the whole tile, later reads "
                  "on the rank that produced the version may use the leading part (consumers of one version on one rank must "
                  "agree on the size: the receiving side takes the consumers' datatype); the oracle compares every byte of "
                  "the owner's copy. A crash of an MPI job is believed only when the case crashes again in a job of its own. Trusted: Coq kernel, extraction, harness bodies, Open MPI / mpiexec with oversubscription, MPI_Reduce merge of "
                  "the per-rank observations. The model orders a writer after the earlier readers of the tile on every rank "
                  "(one global chain); the runtime orders tasks of different ranks only through the data they exchange. Not "
                  "modelled: remote copies, activation messages, descriptors of remote tasks, the window warm-up. In runs with "
                  "several ranks parsec_taskpool_wait returns only when every tile that has a user was flushed (a remote last "
                  "writer keeps a pending action): the generator flushes every such tile before a wait. Two defects of the "
                  "unchanged tree were found by the differential run (notes/findings/C17-*.md); their input classes are kept "
                  "out of the differential stream until the repair is in the tree (detected from the sources) and are "
                  "exercised by directed cases decided by the oracle only.")
    technique = ("Coq proof (refinement of the generic DTD engine under the wait gate, invariant on the owner's storage, "
                 "erasure of flush tasks) + observation differential of the real multi-rank DTD runtime against the extracted model")
    rule = ("1..4 ranks, 1..6 tiles with a generated ownership map (cyclic / one owner / random), 1..4 phases of 0..24 tasks "
            "(styles of C03: mixed, reader groups, RW chains, independent groups, wide) placed by a rank value (two out of "
            "three times away from the owner of a written tile) or by PARSEC_AFFINITY on a flow; reads through the whole-tile or "
            "the leading-part datatype, one tile in two written off its owner gets a last leading-part read before its flush; "
            "one phase in five is a set of writer chains that leave the owner and return (owner -> other ranks -> owner), "
            "one phase in three flushes late (the inserting threads first wait for the bodies of their local tasks, so that "
            "the flush takes the last-user-not-alive branch of parsec_insert_dtd_flush_task); tiles of 3..16 bytes (two thirds "
            "of the cases with a size that is not a multiple of 4); in one phase in three a rank inserts its flushes 30 ms "
            "late so that the activations of the other ranks are deferred; "
            "single-tile flushes after the "
            "last use of the tile in the phase, flushes of untouched tiles, repeated flushes, flush_all; every phase ends "
            "with all used tiles flushed and a wait (one rank: also waits without flush); 8 configurations of (ranks, "
            "threads, scheduler, window); non-trivial = a tile is written by a task placed away from its owner; distinct = case text")
    trusted = ("harness/h_dtdflush.c: test-owned bodies (values read at entry, F(task, inputs) written at exit), owners "
               "read their tiles after parsec_taskpool_wait, MPI_Reduce of the observations after parsec_context_wait",
               "checks/C17.py: Python replay of the case (oracle), independent of the Coq model",
               "Open MPI 4.1 mpiexec --oversubscribe, one MPI job per configuration")
    assumptions = ("API contract of parsec_dtd_data_flush: the tile is not named again before a wait (wfb)",
                   "several ranks: every tile with a user is flushed before a wait",
                   "a task names a tile at most once; schedulers ll, llp, ip excluded (known findings of C03/C04)",
                   "every rank inserts the same sequence",
                   "the timing of a flush relative to the completion of the tile's users (last_user alive / not alive) is not a "
                   "parameter of the model: every timing is one of the event lists the theorems quantify over")

    def __init__(self, tier, seed):
        super().__init__(tier, seed)
        fixed = os.environ.get("VERIF_C17_FIXED", "")
        self.fixed_a = "a" in fixed or repo_has("parsec/interfaces/dtd/overlap_strategies.c", "via_local_reader")
        self.fixed_b = "b" in fixed or repo_has("parsec/interfaces/dtd/parsec_dtd_data_flush.c",
                                                "parsec_dtd_data_copy_reader_count(tile->data_copy)")
        self.fixed_c = "c" in fixed or not repo_has("parsec/interfaces/dtd/insert_function.c",
                                                    "tile->data_copy->readers = 0;")

    # ---- running the real code: one MPI job per configuration -------------------------
    def impl_timeout(self):
        return 1500 if self.tier == "quick" else 6000

    max_hangs = 6            # a broken runtime must not stretch the run to (cases) x (time-out)

    def run_group(self, tag, ranks, lines, stall, solo=False):
        res, rest, attempt = [], list(lines), 0
        while rest and attempt < 5:
            if getattr(self, "nhangs", 0) >= self.max_hangs:
                res += ["<impl not run: %d cases hung before>" % self.nhangs] * len(rest)
                return res
            if getattr(self, "nhangs", 0) >= 2:
                stall = min(stall, 20)
            cf = "%s.a%d.txt" % (tag, attempt)
            of = cf + ".out"
            with open(cf, "w") as f:
                f.write("\n".join(rest) + "\n")
            if os.path.exists(of):
                os.remove(of)
            cmd = MPIEXEC + ["-n", str(ranks), self.hbin(), cf, of]
            ef = cf + ".err"
            with open(ef, "wb") as efh:
                p = subprocess.Popen(cmd, stdout=subprocess.DEVNULL, stderr=efh, stdin=subprocess.DEVNULL,
                                     start_new_session=True)
            last, seen, why = time.time(), 0, None
            try:
                while p.poll() is None:
                    time.sleep(0.05)
                    try:
                        n = sum(1 for _ in open(of))      # "#ready" (start-up done) + one line per case
                    except OSError:
                        n = 0
                    if n != seen:
                        seen, last = n, time.time()
                    elif time.time() - last > (stall if seen > 0 else 150):   # MPI_Init + parsec_init can be slow
                        why = "hang: no completion within %d s" % stall
                        break
            finally:
                if p.poll() is None:
                    try:
                        os.killpg(p.pid, signal.SIGKILL)
                    except OSError:
                        pass
            try:
                p.wait(timeout=20)
            except Exception:
                pass
            try:
                os.killpg(p.pid, signal.SIGKILL)       # stragglers of an aborted job
            except OSError:
                pass
            try:
                err = open(ef, "rb").read()[-4000:]
            except OSError:
                err = b""
            try:
                got = [l.rstrip("\n") for l in open(of)]
            except OSError:
                got = []
            got = [l for l in got if l and not l.startswith("#")][:len(rest)]
            res += got
            rest = rest[len(got):]
            if rest and not why and not solo:
                # a crash is believed only when the case crashes again in a job of its own (a process that ran
                # many cases before, on a machine under heavy load, is not the input's fault)
                again = self.run_group(tag + ".solo%d" % attempt, ranks, rest[:1], stall, solo=True)
                self.cov["crashes_rerun"] = self.cov.get("crashes_rerun", 0) + 1
                if not again[0].startswith("<"):
                    self.cov["crashes_not_confirmed_by_rerun"] = self.cov.get("crashes_not_confirmed_by_rerun", 0) + 1
                res.append(again[0])
                rest = rest[1:]
                attempt += 1
                continue
            if rest:
                if why:
                    self.nhangs = getattr(self, "nhangs", 0) + 1
                tail = "".join(ch for ch in err.decode("ascii", "replace").replace("\n", " ")
                               if " " <= ch <= "~").strip()[-120:]
                res.append("<impl %s rc=%s: %s>" % (why or "crash", p.returncode, tail))
                rest = rest[1:]
                attempt += 1
        res += ["<impl not run: too many restarts>"] * len(rest)
        return res

    def run_impl(self, casefile, n):
        cases = [l.rstrip("\n") for l in open(casefile) if l.strip() and not l.startswith("#")]
        stall = self.defect_stall_s if "-defects-" in os.path.basename(casefile) else self.stall_s
        groups = {}
        for i, c in enumerate(cases):
            try:
                key = cfg_of(c) if c.startswith("dtdflush ") else None
                parse_case(c)
            except Exception:
                key = None
            groups.setdefault(key, []).append(i)
        out = [None] * len(cases)
        jobs = []
        for key, idx in groups.items():
            if key is None:
                for i in idx:
                    out[i] = "<bad case>"
                continue
            jobs.append((key, idx))
        # a few MPI jobs at a time (each has ranks x threads busy-waiting threads)
        from concurrent.futures import ThreadPoolExecutor

        def one(job):
            key, idx = job
            tag = "%s.g%s" % (casefile, "_".join(key))
            return idx, self.run_group(tag, int(key[0]), [cases[i] for i in idx], stall)
        with ThreadPoolExecutor(max_workers=self.parallel_jobs) as ex:
            for idx, res in ex.map(one, jobs):
                for i, r in zip(idx, res):
                    out[i] = r
        out = [o if o is not None else "<no result>" for o in out]
        return out[:n] + ["<no result>"] * max(0, n - len(out))

    # ---- cases --------------------------------------------------------------------------
    def configs(self):
        r = self.rng
        base = [(1, 2, "lfq", 0, 0), (2, 2, "lfq", 0, 0), (3, 1, "ap", 0, 0), (4, 2, "lfq", 0, 0), (2, 4, "gd", 4, 2),
                (4, 1, "pbq", 0, 0)]
        extra = []
        for _ in range(2 if self.tier == "quick" else 10):
            w = r.pick([0, 0, 1, 2, 4, 8])
            extra.append((r.range(1, 4), r.pick([1, 2, 3, 4]), r.pick(MAIN_SCHEDS), w, r.range(0, w) if w else 0))
        return base + extra

    def excluded(self, case):
        a, b, c = defect_classes(case)
        return (a and not self.fixed_a) or (b and not self.fixed_b) or (c and not self.fixed_c)

    def all_fixed(self):
        return self.fixed_a and self.fixed_b and self.fixed_c

    def gen_cases(self, per_cfg, maxtasks):
        r = self.rng
        g = FlushGen(r)
        out = []
        self.cov["generated_in_defect_classes"] = 0
        for (ranks, th, sc, w, h) in self.configs():
            got, tries = 0, 0
            while got < per_cfg and tries < 40 * per_cfg:
                tries += 1
                ndata = r.range(1, 6)
                owner = g.owners(ranks, ndata)
                nph = r.pick([1, 1, 2, 2, 3, 4])
                items = []
                for ph in range(nph):
                    nt = r.pick([0, r.range(1, 4), r.range(3, 10), r.range(5, maxtasks)])
                    # late flush (threads >= 2: with one thread the inserting thread is the only worker)
                    late = th >= 2 and r.chance(1, 3)
                    style = "bounce" if r.chance(1, 5) else r.pick(self.styles)
                    items += g.phase(ranks, ndata, owner, nt, style, ph == nph - 1, late or (style == "bounce" and th >= 2 and r.chance(1, 2)))
                spin = r.pick([0, r.range(1, 1000), r.range(1, 1000)])
                tb = r.pick([3, 5, 6, 7, 7, 9, 11, 13, 13, 16, 16, 8])
                c = case_txt(ranks, ndata, th, sc, w, h, spin, owner, items, tb)
                if self.excluded(c):
                    self.cov["generated_in_defect_classes"] += 1
                    continue
                out.append(c)
                got += 1
        return out

    def cases(self):
        fixed = self.directed_cases() if self.all_fixed() else []
        if self.tier == "quick":
            return fixed + self.gen_cases(14, 24)
        return fixed + self.gen_cases(120, 60)

    # directed inputs of the two defect classes (minimised from generated cases)
    def directed_cases(self):
        pp = " ; ".join(["@0 0x ; @1 0x"] * 4 + ["@0 0x"])
        pq = " ; ".join(["@1 1x ; @0 1x"] * 4 + ["@1 1x"])
        pr = " ; ".join(["@1 1x ; @0 1x"] * 6 + ["@1 1x"])
        return [
            # stale descriptor: rank 0 reads tile 1 between the writers T0 (rank 2) and T2 (rank 1); T2's descriptor
            # on rank 0 is recycled for T4, whose first flow is a read
            "dtdflush 3 2 1 ap 0 0 0 1,0 | @2 0x 1x ; 1r^ 0r ; @1 1w 0r ; @1 1x ; 0r^ 1r",
            "dtdflush 3 2 2 lfq 0 0 0 1,0 | @2 0x 1x ; 1r^ 0r ; @1 1w 0r ; @1 1x ; 0r^ 1r ; F* ; ! ; 0r^ ; 1r^",
            # in-place reader of tile 1 on its owner (rank 1) that waits for tile 0 to travel 0 -> 1 nine times,
            # a later writer of tile 1 on rank 0 and the flush
            "dtdflush 2 2 2 lfq 0 0 7 0,1 | %s ; @1 0r 1r ; @0 1w ; F1 ; F*" % pp,
            "dtdflush 2 2 1 lfq 0 0 0 0,1 | %s ; @1 0r 1r ; @0 1w ; F1 ; F*" % pp,
            "dtdflush 2 2 2 lfq 0 0 7 0,1 | %s ; 1r^ 0r ; @0 1x ; F*" % pp,
            # reader of tile 0 on its owner that waits for tile 1, a later writer of tile 0, tile 0 flushed twice
            # (the 150 tasks on tile 2 give the fake first writer of tile 0 time to complete before the second flush)
            "dtdflush 2 3 2 lfq 0 0 0 0,1,0 | %s ; @0 0r 1r ; @0 0x ; %s ; F0 ; F0 ; F*" % (pr, " ; ".join(["@0 2x"] * 150)),
            "dtdflush 2 2 2 lfq 0 0 7 0,1 | %s ; @0 0r 1r ; @0 0x ; F0 ; F0 ; F*" % pq,
        ]

    def defect_cases(self):
        if self.all_fixed():
            return []            # the directed cases are part of the differential stream
        return [c for c in self.directed_cases() if self.excluded(c)]

    def main_flow(self):
        fails, oracle_fail, cases, impl, model = super().main_flow()
        extra = [] if os.environ.get("VERIF_DTD_SKIP_DEFECTS") else list(self.defect_cases())
        ran = bool(impl) and len(impl) == len(cases)
        if extra and ran:
            eimpl, emodel = self.correspond(extra, "defects")
            hits = 0
            for i, (c, a) in enumerate(zip(extra, eimpl)):
                why = self.oracle(c, a)
                if why:
                    hits += 1
                    oracle_fail.append((len(cases) + i, why))
            self.cov["defect_stream"] = {"cases": len(extra), "violations": hits,
                                         "note": "directed inputs of the defect classes found by this check (stale "
                                                 "descriptor of a remote task, flush overwriting a tile under a reader, "
                                                 "second flush resetting the reader count); "
                                                 "decided by the oracle only, not diffed with the model"}
            cases = cases + extra
            impl = impl + eimpl
            model = model + emodel
        self.cov["repairs_detected_in_sources"] = {"stale-remote-desc": self.fixed_a, "flush-overwrites-reader": self.fixed_b,
                                                   "reflush-resets-readers": self.fixed_c}
        return fails, oracle_fail, cases, impl, model

    def oracle(self, case, obs):
        v = verdict(case, obs)
        return v[1] if v else None

    def signature(self, case, obs):
        v = verdict(case, obs)
        kind = v[0] if v else "none"
        if kind in ("owner-copy", "task-input"):
            kind = "value"
        a, b, c = defect_classes(case)
        if kind == "value" and c:
            cls = "reflush-resets-readers"
        elif kind == "value" and b:
            cls = "flush-overwrites-reader"
        elif a:
            cls = "stale-remote-desc"
        elif b:
            cls = "flush-overwrites-reader"
        elif c:
            cls = "reflush-resets-readers"
        else:
            cls = "main"
        # an input of a defect class is attributed to that defect whatever the symptom (wrong value, hang, crash:
        # the outcome of the race differs from run to run); other inputs keep the symptom in the signature
        return cls if cls != "main" else "main-%s" % kind

    def nontrivial_key(self, case):
        # non trivial: some tile is written by a task placed on a rank that does not own it (and flushed afterwards)
        try:
            hdr, items = parse_case(case)
        except Exception:
            return None
        for it in items:
            if it[0] == "T":
                for (d, m) in it[2]:
                    if m != "r" and it[1] != hdr["owner"][d]:
                        return case
        return None

    def dist(self, cases):
        d = {"cases": len(cases), "ranks": {}, "threads": {}, "sched": {}, "window": {}, "tasks_hist": {},
             "flush_single": 0, "flush_all": 0, "waits": 0, "tasks_placed_off_owner_of_written_tile": 0,
             "affinity_on_flow": 0, "max_tasks": 0, "late_flush_points": 0, "run_ahead_points": 0, "tile_bytes": {}, "reads_of_leading_part": 0,
             "flushes_after_a_leading_part_read_of_a_tile_written_off_owner": 0}
        for c in cases:
            try:
                hdr, items = parse_case(c)
            except Exception:
                continue
            nt = sum(1 for it in items if it[0] == "T")
            b = "0-8" if nt <= 8 else "9-30" if nt <= 30 else "31+"
            d["tasks_hist"][b] = d["tasks_hist"].get(b, 0) + 1
            d["max_tasks"] = max(d["max_tasks"], nt)
            for k in ("ranks", "threads", "sched", "window"):
                d[k][str(hdr[k])] = d[k].get(str(hdr[k]), 0) + 1
            d["tile_bytes"][str(hdr["bytes"])] = d["tile_bytes"].get(str(hdr["bytes"]), 0) + 1
            lasthead, remote = {}, {}
            for it in items:
                if it[0] == "T":
                    for j, (x, m) in enumerate(it[2]):
                        lasthead[x] = j in it[4]
                        if m != "r":
                            remote[x] = it[1] != hdr["owner"][x]
                    d["reads_of_leading_part"] += len(it[4])
                if it[0] == "F":
                    for x in (list(lasthead) if it[1] is None else [it[1]]):
                        if lasthead.get(x) and remote.get(x):
                            d["flushes_after_a_leading_part_read_of_a_tile_written_off_owner"] += 1
                        lasthead.pop(x, None)
                        remote.pop(x, None)
                    d["flush_all" if it[1] is None else "flush_single"] += 1
                elif it[0] == "!":
                    d["waits"] += 1
                elif it[0] == "~":
                    d["late_flush_points"] += 1
                elif it[0] == "%":
                    d["run_ahead_points"] += 1
                elif it[0] == "T":
                    d["affinity_on_flow"] += it[3] is not None
                    d["tasks_placed_off_owner_of_written_tile"] += any(m != "r" and it[1] != hdr["owner"][x] for (x, m) in it[2])
        return d

    def search_cases(self):
        # directed small programs: every placement of writer / reader / second writer on 3 ranks for one tile,
        # with the flush in the middle or at the end
        out = []
        for own in range(3):
            for a in range(3):
                for b in range(3):
                    out.append("dtdflush 3 2 2 lfq 0 0 5 %d,%d | @%d 0x ; @%d 0r 1x ; F0 ; @%d 1r ; F* ; ! ; 0r^ 1x ; @%d 0x"
                               % (own, (own + 1) % 3, a, b, a, b))
        return [c for c in out if not self.excluded(c)]
