from vcheck import Check


def parse_prog(txt):
    return [th.split() for th in txt.split(";")]


def gk_deadlock_free(prog):
    """exhaustive exploration of the Give/Take skeleton (op granularity, fungible mailboxes):
    True when no reachable state has an unfinished thread and every unfinished thread blocked."""
    sk = [[o for o in th if o[0] in "GK"] for th in prog]
    n = len(sk)
    start = tuple([0] * n)
    seen = {start}
    todo = [start]

    def boxes(pos):
        b = {"t": 0, "p": 0}
        for t in range(n):
            for o in sk[t][:pos[t]]:
                b[o[1]] += 1 if o[0] == "G" else -1
        return b
    while todo:
        pos = todo.pop()
        b = boxes(pos)
        moved = False
        unfinished = False
        for t in range(n):
            if pos[t] < len(sk[t]):
                unfinished = True
                o = sk[t][pos[t]]
                if o[0] == "G" or b[o[1]] > 0:
                    moved = True
                    q = list(pos)
                    q[t] += 1
                    q = tuple(q)
                    if q not in seen:
                        seen.add(q)
                        todo.append(q)
        if unfinished and not moved:
            return False
        if len(seen) > 20000:
            return False
    return True


def wf_thread(ops):
    """the static discipline check of one thread (mirror of wf_from, used to validate generated cases)"""
    fr = "R" in ops
    so = fr
    a = b = 0
    for o in ops:
        k = o[0]
        if k == "M":
            return False
        if k == "R":
            if not fr:
                return False
            fr, so = False, False
        elif k in "tp":
            v = int(o[1:])
            if v > 0 and not (fr or a + b > 0):
                return False
            if k == "t":
                a += v
            else:
                b += v
            if a < 0 or b < 0:
                return False
        elif k == "T":
            v = int(o[1:])
            if not (fr and so and v >= 0):
                return False
            a = v
        elif k == "P":
            v = int(o[1:]) - (1 if a > 0 else 0)
            if not (fr and so and v >= 0):
                return False
            b = v
        elif k == "G":
            if o[1] == "t":
                a -= 1
            else:
                b -= 1
            if a < 0 or b < 0:
                return False
            so = False
        elif k == "K":
            if o[1] == "t":
                a += 1
            else:
                b += 1
    return not fr


def wf_prog(prog):
    return all(wf_thread(th) for th in prog) and sum(1 for th in prog if "R" in th) == 1 \
        and all(th.count("R") <= 1 for th in prog)


def guarded_ok(prog):
    """class d=2 ("guarded sets"): one thread G (the ready-caller) holds a pending-action reference
    from its set-up until its last operation p-1; every increment / set of nb_tasks is G's; the
    other threads only decrement task references they took from G (Gp/Kp are used as a pure
    'worker done' signal).  set_nb_tasks(v) may race with the workers' decrements: it needs
    v >= (task references handed out and not known to be returned), G's own decrements stay
    within what it certainly owns.  For such histories the literal statement of C10 is true of the
    correct code for every schedule (all increments are sequential in G and G's reference keeps
    nb_pending_actions >= 1 until its final release)."""
    gs = [i for i, th in enumerate(prog) if "R" in th]
    if len(gs) != 1:
        return False
    g = prog[gs[0]]
    if g.count("R") != 1 or not g or g[-1] != "p-1":
        return False
    nkt = ngp = 0
    for i, th in enumerate(prog):
        if i == gs[0]:
            continue
        held = 0
        for o in th:
            if o == "Kt":
                held += 1
                nkt += 1
            elif o[0] == "t" and int(o[1:]) < 0:
                held += int(o[1:])
                if held < 0:
                    return False
            elif o == "Gp":
                if held != 0:
                    return False
                ngp += 1
            elif o != "Q":
                return False
    own = out = 0          # lower bound of G's own task references; handed out, maybe not yet returned
    hold = 0               # pending-action references G holds
    exact = True           # nb_tasks == own + (outstanding) is known exactly to be consistent
    ngt = nkp = 0
    for j, o in enumerate(g):
        k = o[0]
        last = j == len(g) - 1
        if k in "QR":
            continue
        if k in "tT" and hold < 1:
            if not (k == "T" and out == 0 and hold == 0 and own == 0 and int(o[1:]) == 0):
                return False
        if k == "t":
            v = int(o[1:])
            own += v
            if own < 0:
                return False
        elif k == "T":
            v = int(o[1:])
            if v < out:
                return False
            own = v - out
        elif k == "P":
            if out or own:
                return False
            hold = int(o[1:])
        elif k == "p":
            v = int(o[1:])
            hold += v
            if hold < (0 if last else 1):
                return False
        elif o == "Gt":
            if own < 1:
                return False
            own -= 1
            out += 1
            ngt += 1
        elif o == "Kp":
            nkp += 1
            if nkp == ngp:
                out = 0
        else:
            return False
    return hold == 0 and ngt == nkt and nkp in (0, ngp)


class C10(Check):
    id = "C10"
    prop_file = "theories/Properties/Properties_C10.v"
    theorems = ("C10_callback_at_most_once", "C10_callback_only_when_ready_and_zero", "C10_counters_stay_zero",
                "C10_terminated_implies_callback_returned", "C10_termination_reported",
                "C10_undisciplined_refuted", "C10_refcount_release_before_retain_witness")
    comp = "termlocal"
    extract_file = "theories/Extract/Extract_TermLocal.v"
    extracted = ("termlocal",)
    harness_src = "harness/h_termlocal.c"
    harness_cflags = ("-DBUILDING_PARSEC",)
    link_parsec = True
    level_text = ("Theorems over an atomic-step model of termdet_local_module.c (monitor/ready/state/addto_nb_tasks/"
                  "addto_runtime_actions/set_nb_tasks/set_runtime_actions cut at every parsec_atomic_* operation, plain reads in the "
                  "segment that contains them, the user callback as its own segment): for ANY number of threads, ANY per-thread "
                  "operation lists that pass the static client-discipline check wf_prog (one ready; an increment is issued by a thread "
                  "that holds a reference or by the ready-caller before ready; decrements return held references; references move "
                  "between threads through a blocking hand-over; set_* only by the ready-caller before it hands anything over) and "
                  "EVERY schedule: the callback starts at most once; when it has started ready has happened and both counters are 0 "
                  "in that and every later state; TERMINATED implies the callback returned; when all threads have finished and all "
                  "references were returned the callback has run exactly once and the state is TERMINATED. The undisciplined literal "
                  "statement is refuted by a concrete schedule (by design of the statement, F9). Tie: the real module runs under the "
                  "same schedules in ucontext coroutines; callback counts, the global step index of the callback and of ready, counters "
                  "seen by the callback, final counters/state/refcount, every return value and per-thread step counts are compared "
                  "with the extracted model. Full level (sequentially consistent atomics).")
    level_note = ("Trusted: Coq kernel, extraction, cosched/interpose.h (a yield before every parsec_atomic_* RMW, inside the harness "
                  "callback and between two operations), the fake parsec_taskpool_t of harness/h_termlocal.c. Assumes SC atomics and "
                  "int32 counters that do not overflow. Hand-over of references between threads is a harness mailbox (ghost in the "
                  "model). The taskpool object reference count is modelled and compared but not part of the claims. The theorems cover "
                  "wf_prog; the wider 'guarded set' histories (d=2: set_nb_tasks of the reference-holding ready-caller racing with "
                  "workers' decrements) are compared with the model and judged by the oracle, not covered by the proofs.")
    technique = ("Coq invariant proof over all schedules and all disciplined programs + controlled-schedule differential run "
                 "(ucontext coroutines, macro-interposed atomics) of the real termdet_local module")
    rule = ("disciplined programs generated by a reference-tracking random walk (1..5 threads, zero crossings of both counters before "
            "ready and of nb_tasks while another reference is held, ready early/middle/late, hand-overs), balanced or leaving a "
            "reference; schedules sequential / round-robin / bursts / one-step lag / stalls in the middle of an operation / random, and directed races of a decrement with ready; guarded-set programs (set_nb_tasks racing with addto_nb_tasks(-1) across zero, then the release of the last runtime action); when something breaks a failing-schedule search runs the implementation alone over a menu of such programs under every context-bounded schedule and every 11-step schedule of the smallest ones, then random; plus an undisciplined stream compared with the model "
            "only; non-trivial = at least 2 threads and an interleaving schedule; distinct = case text")
    trusted = ("cosched.h/interpose.h scheduling points; fake taskpool, counting callback and mailbox in harness/h_termlocal.c",)
    assumptions = ("sequentially consistent atomics (parsec_atomic_* are full-barrier builtins)",
                   "client discipline wf_prog (how the runtime uses the module: a task or an open pool holds a reference while adding work)",
                   "no int32 overflow of the counters")

    # ------------------------------------------------------------------
    def sched(self, r, nt, total):
        kind = r.below(10)
        if kind == 0:       # sequential in a random thread order
            return [t for t in r.shuffle(range(nt)) for _ in range(total)]
        if kind == 1:       # round robin
            return [t for _ in range(total) for t in range(nt)]
        if kind == 2:       # reverse round robin
            return [t for _ in range(total) for t in reversed(range(nt))]
        if kind == 3:       # bursts
            s = []
            while len(s) < total * nt:
                s += [r.below(nt)] * r.range(1, 6)
            return s
        if kind == 4:       # one thread lags one step behind the others
            s = []
            for _ in range(total):
                o = r.shuffle(range(nt))
                s += o + o[:-1]
            return s
        if kind in (5, 6, 7):   # stalls: a thread stops in the middle of an operation while the others run on
            s = []
            for _ in range(r.range(1, 4)):
                m = r.below(nt)
                s += [m] * r.range(1, total)
                others = [t for t in range(nt) if t != m]
                if kind == 5:
                    for t in r.shuffle(others):
                        s += [t] * r.range(1, total)
                elif kind == 6:
                    for _ in range(r.range(1, total)):
                        s += others
                else:
                    s += [r.pick(others + [m]) for _ in range(r.range(1, 2 * total))]
                s += [m] * r.range(0, 3)
            return s
        return [r.below(nt) for _ in range(r.range(0, total * nt))]

    def disciplined(self, r):
        nt = r.pick([1, 2, 2, 3, 3, 3, 4, 4, 5])
        main = r.below(nt)
        a = [0] * nt
        b = [0] * nt
        box = {"t": 0, "p": 0}
        prog = [[] for _ in range(nt)]
        fr, so = True, True
        ready_after = r.pick([0, 1, 2, 4, 8, 12, 20, 30, 1000])
        nsteps = r.range(2, 40)
        style = r.below(4)   # 0: task-heavy, 1: pa-heavy, 2: mixed, 3: dtd-like (main holds a pa ref, inserts tasks)
        if style == 3:
            prog[main] += ["T0", "P0"] if r.chance(1, 2) else []
            prog[main].append("p1")
            b[main] += 1
        for i in range(nsteps):
            if fr and i >= ready_after:
                prog[main].append("R")
                fr = False
            t = main if (r.chance(1, 3) or nt == 1) else r.below(nt)
            free = fr and t == main
            hold = a[t] + b[t]
            acts = ["Q"]
            if free or hold > 0:
                acts += ["t+", "t+", "p+"] if style != 1 else ["t+", "p+", "p+"]
            if a[t] > 0:
                acts += ["t-", "t-", "Gt"]
            if b[t] > 0:
                acts += ["p-", "Gp"] + (["p-"] if style != 3 or t != main else [])
            if box["t"] > 0:
                acts += ["Kt", "Kt", "Kt"]
            if box["p"] > 0:
                acts += ["Kp", "Kp", "Kp"]
            if free and so and t == main:
                acts += ["T", "P"]
            act = r.pick(acts)
            if act == "Q":
                prog[t].append("Q")
            elif act == "t+":
                v = r.pick([1, 1, 1, 2, 3])
                prog[t].append("t%d" % v)
                a[t] += v
            elif act == "p+":
                v = r.pick([1, 1, 2])
                prog[t].append("p%d" % v)
                b[t] += v
            elif act == "t-":
                v = r.range(1, a[t]) if r.chance(1, 3) else 1
                prog[t].append("t-%d" % v)
                a[t] -= v
            elif act == "p-":
                v = r.range(1, b[t]) if r.chance(1, 3) else 1
                prog[t].append("p-%d" % v)
                b[t] -= v
            elif act in ("Gt", "Gp"):
                k = act[1]
                prog[t].append(act)
                if k == "t":
                    a[t] -= 1
                else:
                    b[t] -= 1
                box[k] += 1
                if t == main:
                    so = False
            elif act in ("Kt", "Kp"):
                k = act[1]
                prog[t].append(act)
                box[k] -= 1
                if k == "t":
                    a[t] += 1
                else:
                    b[t] += 1
            elif act == "T":
                v = r.pick([0, 0, 1, 2, 3])
                prog[t].append("T%d" % v)
                a[t] = v
            elif act == "P":
                x = 1 if a[t] > 0 else 0
                v = r.pick([0, 1, 2]) + x
                prog[t].append("P%d" % v)
                b[t] = v - x
        if fr:
            prog[main].append("R")
            fr = False
        balanced = r.chance(4, 5)
        if balanced:
            # tokens in the mailbox are picked up, then every thread returns what it holds
            for k in "tp":
                while box[k] > 0:
                    t = r.below(nt)
                    prog[t].append("K" + k)
                    box[k] -= 1
                    if k == "t":
                        a[t] += 1
                    else:
                        b[t] += 1
            for t in r.shuffle(range(nt)):
                rel = []
                while a[t] > 0:
                    v = r.range(1, a[t]) if r.chance(1, 4) else 1
                    rel.append("t-%d" % v)
                    a[t] -= v
                while b[t] > 0:
                    v = r.range(1, b[t]) if r.chance(1, 4) else 1
                    rel.append("p-%d" % v)
                    b[t] -= v
                prog[t] += r.shuffle(rel)
                if r.chance(1, 3):
                    prog[t].append("Q")
        else:
            if sum(a) + sum(b) + box["t"] + box["p"] == 0:
                balanced = True
        if any(len(th) > 60 for th in prog):
            return None
        if not gk_deadlock_free(prog):
            return None
        return prog, balanced

    def undisciplined(self, r):
        nt = r.range(1, 5)
        prog = []
        for t in range(nt):
            th = []
            for _ in range(r.range(0, 8)):
                k = r.below(20)
                if k < 5:
                    th.append("t%d" % r.pick([-2, -1, -1, 1, 1, 2, 0]))
                elif k < 10:
                    th.append("p%d" % r.pick([-2, -1, -1, 1, 1, 2, 0]))
                elif k < 12:
                    th.append("T%d" % r.pick([0, 0, 1, 2, -1]))
                elif k < 14:
                    th.append("P%d" % r.pick([0, 0, 1, 2]))
                elif k < 16:
                    th.append("R")
                elif k < 18:
                    th.append("Q")
                elif k < 19:
                    th.append("M")
                else:
                    th.append(r.pick(["Gt", "Gp", "Gt", "Gp", "Kt", "Kp"]))
            prog.append(th)
        return prog

    def guarded(self, r):
        """random member of the guarded-set class (see guarded_ok)"""
        nw = r.pick([1, 1, 1, 2, 2, 3])
        sync = r.chance(1, 2)
        g = (["T0", "P0"] if r.chance(1, 4) else []) + ["p1"]
        own = out = 0
        given = 0
        body = r.range(2, 7)
        rpos = r.range(0, body)
        for i in range(body):
            if i == rpos:
                g.append("R")
            acts = ["t+", "T", "T"]
            if own >= 1:
                acts += ["Gt", "Gt", "Gt", "t-"]
            act = r.pick(acts)
            if act == "t+":
                v = r.pick([1, 1, 2])
                g.append("t%d" % v)
                own += v
            elif act == "T":
                v = out + r.pick([0, 0, 1, 1, 2, 4])
                g.append("T%d" % v)
                own = v - out
            elif act == "Gt":
                g.append("Gt")
                own -= 1
                out += 1
                given += 1
            else:
                v = r.range(1, own)
                g.append("t-%d" % v)
                own -= v
            if r.chance(1, 8):
                g.append("Q")
        if "R" not in g:
            g.append("R")
        ws = [[] for _ in range(nw)]
        for _ in range(given):
            w = ws[r.below(nw)]
            w += ["Kt", "t-1"]
        ws = [w for w in ws if w] or [["Q"]]
        if sync:
            for w in ws:
                if "Kt" in w:
                    w.append("Gp")
                    g.append("Kp")
            if r.chance(2, 3):
                g.append("T0")
        g.append("p-1")
        prog = [g] + ws
        gi = r.below(len(prog))
        prog[0], prog[gi] = prog[gi], prog[0]
        return prog

    def menu(self):
        """small structured programs of the guarded-set class: a set_nb_tasks(v) of G racing with a worker's
        addto_nb_tasks(-1) that moves nb_tasks across zero, then the release of the last runtime action"""
        out = []
        for setup in ("t1 Gt", "t2 Gt", "t1 Gt t1"):
            for v in (1, 2, 5):
                for rfirst in (0, 1):
                    g = "p1 " + setup + (" R T%d" % v if rfirst else " T%d R" % v) + " p-1"
                    out.append([g.split(), ["Kt", "t-1"]])
        for v in (1, 5):
            out.append([("T0 P0 p1 t1 Gt T%d R p-1" % v).split(), ["Kt", "t-1"]])
            out.append([("p1 t1 Gt T%d Kp T0 R p-1" % v).split(), ["Kt", "t-1", "Gp"]])
            out.append([("p1 t1 Gt R T%d Kp T0 p-1" % v).split(), ["Kt", "t-1", "Gp"]])
            out.append([("p1 t1 Gt T%d T%d R p-1" % (v, v + 1)).split(), ["Kt", "t-1"]])
        out.append(["p1 t1 R T0 p-1".split(), ["Q"]])
        out.append(["p1 t1 T0 T2 T0 R p-1".split(), ["Q"]])
        three = []
        for v in (2, 5):
            three.append([("p1 t2 Gt Gt T%d R p-1" % v).split(), ["Kt", "t-1"], ["Kt", "t-1"]])
            three.append([("p1 t1 Gt T%d Gt R p-1" % v).split(), ["Kt", "t-1"], ["Kt", "t-1"]])
        return out, three

    def bounded_schedules(self, n):
        """context-bounded enumeration (depth-first over the points at which the running thread is
        pre-empted): thread 0 runs a steps, then the others, ...; every schedule ends with long runs so that
        the completion order is fixed too"""
        tail = 48
        out = []
        if n == 2:
            for a in range(0, 15):
                for b in range(0, 6):
                    for c in ([0] if b == 0 else range(0, 4)):
                        for d in ([0] if c == 0 else range(0, 3)):
                            pre = [0] * a + [1] * b + [0] * c + [1] * d
                            out.append(pre + [0] * tail + [1] * tail)
                            if b and not d:
                                out.append(pre + [1] * tail + [0] * tail)
        else:
            for a in range(0, 15):
                for (x, y) in ((1, 2), (2, 1)):
                    for b in range(0, 4):
                        for c in ([0] if b == 0 else range(0, 4)):
                            for d in (0, 1):
                                pre = [0] * a + [x] * b + [y] * c + [0] * d
                                out.append(pre + [x] * tail + [y] * tail + [0] * tail)
                                out.append(pre + [0] * tail + [x] * tail + [y] * tail)
        return out

    def gfmt(self, prog, sched, rc0=2):
        return "%d | %s | %s | d=2 b=0" % (rc0, " ; ".join(" ".join(th) for th in prog), " ".join(map(str, sched)))

    def fmt(self, r, prog, d, b):
        nt = len(prog)
        total = sum(len(th) for th in prog) * 3 // max(nt, 1) + 4
        s = self.sched(r, nt, total)
        return "%d | %s | %s | d=%d b=%d" % (r.pick([1, 1, 2, 3]), " ; ".join(" ".join(th) for th in prog),
                                             " ".join(map(str, s)), d, b)

    DIRECTED = [
        # a decrement to zero racing with ready: thread 1 fires between ready's CAS to BUSY and its read of the counter
        "1 | p1 Gp R ; Kp p-1 | 0 0 0 0 0 1 1 1 1 0 0 | d=1 b=1",
        # both see BUSY and 0; thread 1 wins the CAS / thread 0 wins the CAS
        "1 | p1 Gp R ; Kp p-1 | 0 0 0 0 0 1 1 1 0 1 | d=1 b=1",
        "1 | p1 Gp R ; Kp p-1 | 0 0 0 0 0 1 1 1 0 0 1 | d=1 b=1",
        # thread 1 completes the whole termination (callback, TERMINATED, release) before ready retains
        "1 | p1 Gp R ; Kp p-1 | 0 0 0 0 0 1 1 1 1 1 1 1 1 0 0 | d=1 b=1",
        "2 | p1 Gp R Q ; Kp p-1 Q | 0 0 0 0 0 1 1 1 1 1 1 1 1 0 0 | d=1 b=1",
        # the decrement lands while the monitor is still NOT_READY: ready itself must detect
        "1 | p1 Gp R ; Kp p-1 | 0 0 0 0 1 1 1 0 0 0 | d=1 b=1",
        # nb_tasks 1 -> 0 before ready with the nb_pending_actions decrement delayed past ready's read
        "1 | t1 Gt R ; Kt t-1 | 0 0 0 0 0 0 1 1 1 0 1 1 | d=1 b=1",
        "1 | t1 Gt R ; Kt t-1 | 0 0 0 0 0 1 1 1 1 0 0 0 | d=1 b=1",
        "1 | t1 Gt R ; Kt t-1 | 0 0 0 0 0 1 1 1 0 0 1 0 1 | d=1 b=1",
        # nb_tasks crosses zero twice while the pending-action reference is held
        "2 | p1 t1 Gt t1 Gt R p-1 ; Kt t-1 ; Kt t-1 | 0 0 0 0 0 0 1 1 1 2 2 2 0 0 1 2 | d=1 b=1",
        "2 | p2 t1 Gt Gp R p-1 ; Kt Kp t-1 t1 t-1 p-1 | 0 0 0 0 0 0 0 1 1 1 1 0 0 0 1 1 1 1 1 0 0 1 1 1 | d=1 b=1",
        "2 | p2 t1 Gt Gp R p-1 ; Kt Kp t-1 t1 t-1 p-1 | 0 0 0 0 0 0 0 1 1 1 1 0 0 0 1 1 1 0 0 0 1 1 1 1 | d=1 b=1",
        # DTD-like: set 0/0, open reference, insert, run, wait
        "1 | T0 P0 p1 t1 Gt t1 Gt R p-1 ; Kt t-1 Q ; Kt t-1 Q | 1 2 0 0 0 0 0 0 0 1 2 1 2 0 0 0 1 2 0 0 | d=1 b=1",
        # set_nb_tasks / set_runtime_actions crossing zero in the set-up phase
        "1 | T2 P1 T0 P1 t1 R t-1 p-1 Q | | d=1 b=1",
        # guarded sets (d=2): set_nb_tasks racing with a decrement that takes nb_tasks to zero, then the last
        # runtime action is released: the set must count the 0 -> v crossing it really performed
        "2 | p1 t1 Gt T5 R p-1 ; Kt t-1 | 0 0 0 0 0 0 0 1 1 1 0 0 0 0 0 0 0 1 1 | d=2 b=0",
        "2 | p1 t1 Gt T5 R p-1 ; Kt t-1 | 0 0 0 0 0 0 0 1 1 1 1 0 0 0 0 0 0 | d=2 b=0",
        "2 | p1 t1 Gt R T5 p-1 ; Kt t-1 | 0 0 0 0 0 0 0 0 0 0 1 1 1 0 0 0 0 1 | d=2 b=0",
        "2 | p1 t1 Gt T5 Kp T0 R p-1 ; Kt t-1 Gp | 0 0 0 0 0 0 0 1 1 1 0 1 1 | d=2 b=0",
        "2 | p1 t2 Gt Gt T2 R p-1 ; Kt t-1 ; Kt t-1 | 0 0 0 0 0 0 0 0 1 1 1 2 2 2 0 1 2 | d=2 b=0",
        # ready with nothing registered terminates at once
        "1 | R Q | | d=1 b=1",
        # undisciplined: an increment overtakes the CAS (model/implementation comparison only)
        "1 | p1 R p-1 ; p1 | 0 0 0 0 0 0 0 1 1 0 0 0 0 | d=0 b=0",
    ]

    def cases(self):
        r = self.rng
        out = list(self.DIRECTED)
        N = 1200 if self.tier == "quick" else 30000
        while len(out) < N:
            if r.chance(1, 6):
                out.append(self.fmt(r, self.undisciplined(r), 0, 0))
            elif r.chance(1, 5):
                out.append(self.fmt(r, self.guarded(r), 2, 0))
            else:
                g = self.disciplined(r)
                if g is None:
                    continue
                prog, bal = g
                out.append(self.fmt(r, prog, 1, 1 if bal else 0))
        for c in out:
            f = [x.strip() for x in c.split("|")]
            if "d=1" in f[3] and not wf_prog(parse_prog(f[1])):
                raise RuntimeError("generator produced an undisciplined case tagged d=1: " + c)
            if "d=2" in f[3] and not (guarded_ok(parse_prog(f[1])) and gk_deadlock_free(parse_prog(f[1]))):
                raise RuntimeError("generator produced a case outside the guarded-set class tagged d=2: " + c)
        return out

    def nontrivial_key(self, case):
        f = [x.strip() for x in case.split("|")]
        nt = len(f[1].split(";"))
        s = f[2].split()
        if nt < 2 or len(s) < 3:
            return None
        inter = any(s[i] != s[i + 1] and s[i] in s[i + 2:] for i in range(len(s) - 2))
        return case if inter else None

    def dist(self, cases):
        d = {"disciplined": 0, "balanced": 0, "undisciplined": 0, "threads_hist": {}, "with_set": 0, "with_handover": 0}
        for c in cases:
            f = [x.strip() for x in c.split("|")]
            if "d=1" in f[3]:
                d["disciplined"] += 1
                d["balanced"] += 1 if "b=1" in f[3] else 0
            else:
                d["undisciplined"] += 1
            nt = str(len(f[1].split(";")))
            d["threads_hist"][nt] = d["threads_hist"].get(nt, 0) + 1
            ws = f[1].split()
            d["with_set"] += 1 if any(w[0] in "TP" for w in ws) else 0
            d["with_handover"] += 1 if any(w[0] == "G" for w in ws) else 0
        return d

    # the property, decided on the implementation's observation alone
    def oracle(self, case, obs):
        f = [x.strip() for x in case.split("|")]
        if "d=1" not in f[3] and "d=2" not in f[3]:
            return None          # undisciplined stream: compared with the model only
        d2 = "d=2" in f[3]       # guarded sets: judged on the implementation's own final counters
        bal = "b=1" in f[3]
        try:
            g = [x.strip() for x in obs.split("|")]
            h = dict(kv.split("=") for kv in g[0].split())
            cs, cd = [int(x) for x in h["cb"].split("/")]
            at, bad, rdy = int(h["at"]), int(h["bad"]), int(h["rdy"])
            fin = dict(kv.split("=") for kv in g[1].split())
            nt, pa, mon = int(fin["nt"]), int(fin["pa"]), int(fin["mon"])
            rets = [[int(x) for x in th.split()] for th in g[2][len("ret:"):].split(";")]
        except Exception:
            return "unparsable observation " + obs[:80]
        if "<deadlock>" in obs:
            return "the operations did not complete"
        if cs > 1:
            return "termination callback ran %d times" % cs
        if bad:
            return "callback ran while a counter was non-zero"
        if cs >= 1 and (rdy == 0 or at <= rdy):
            return "callback (step %d) ran before ready (step %d)" % (at, rdy)
        if cs >= 1 and (nt != 0 or pa != 0):
            return "terminated but counters end at nb_tasks=%d nb_pending_actions=%d" % (nt, pa)
        if cd != cs:
            return "callback started %d times, returned %d times" % (cs, cd)
        if mon == 0 and cd == 0:
            return "state TERMINATED without a callback"
        for th in rets:
            for x in th:
                if x >= 300 or 200 <= x < 300:
                    return "taskpool_state reported TERMINATED before the callback returned"
                if x >= 100:
                    return "taskpool_state reported TERMINATED while a counter was non-zero"
        if rdy > 0 and nt == 0 and pa == 0 and cs != 1:
            return "both counters are zero after ready but termination was not reported"
        if d2:
            return None
        if bal and cs != 1:
            return "all references returned after ready but the callback did not run"
        if bal and mon != 0:
            return "all references returned after ready but the final state is %d, not TERMINATED" % mon
        if not bal and cs != 0:
            return "callback ran although a reference is still held"
        return None

    def signature(self, case, obs):
        why = self.oracle(case, obs) or "none"
        return "C10-" + "-".join(why.split()[:4]).replace("(", "").replace(")", "")

    def search_cases(self):
        """failing-schedule search, run when a proof obligation or the correspondence broke: the
        implementation alone is judged by the oracle.  (1) exhaustive: the guarded-set menu under every
        context-bounded schedule, and every schedule of 11 steps (2 threads) for the smallest programs;
        (2) random guarded-set programs and random disciplined programs under random schedules."""
        r = self.rng.fork()
        out = []
        two, three = self.menu()
        s2, s3 = self.bounded_schedules(2), self.bounded_schedules(3)
        for prog in two:
            if len(prog) == 2 and prog[1] != ["Q"]:
                out += [self.gfmt(prog, sc) for sc in s2]
            else:
                out.append(self.gfmt(prog, []))
        for prog in three:
            out += [self.gfmt(prog, sc) for sc in s3]
        for prog in two[:3]:
            for bits in range(1 << 11):
                out.append(self.gfmt(prog, [(bits >> i) & 1 for i in range(11)]))
        for _ in range(2000):
            out.append(self.fmt(r, self.guarded(r), 2, 0))
        for _ in range(3000):
            g = self.disciplined(r)
            if g is None:
                continue
            prog, bal = g
            out.append(self.fmt(r, prog, 1, 1 if bal else 0))
        return out
