from vcheck import Check, Rng


class C12(Check):
    id = "C12"
    prop_file = "theories/Properties/Properties_C12.v"
    theorems = ("C12_exactly_one_sender", "C12_root_has_no_sender", "C12_all_triggered",
                "C12_children_distinct", "C12_children_in_range")
    comp = "usertrig"
    extract_file = "theories/Extract/Extract_UserTrig.v"
    extracted = ("usertrig",)
    harness_src = "harness/h_usertrig.c"
    link_parsec = True
    level_text = ("Theorems for every communicator size n and root: each non-root rank is the destination of exactly one "
                  "notification, the root of none, all ranks are reached, destinations are distinct and in range. The model's "
                  "child formula is tied to the real module by running both on every (n, root, me) up to a bound and on "
                  "whole-job simulations; full level for the broadcast-tree logic.")
    level_note = ("Trusted: Coq kernel, extraction, harness stub of send_am; assumes exactly-once message delivery (C14) and no "
                  "int overflow (2n+2 < 2^31). The delayed-message path of the public dispatch entry is not exercised.")
    technique = "Coq proof (spanning binary tree for every n, root) + differential run of the real module against the extracted model"
    rule = ("'one n root me': exhaustive over all (n, root, me) with n <= NMAX, plus sampled n up to 4096; "
            "'sys n root': whole-system delivery simulation.  Non-trivial = n >= 2; distinct = distinct case text")
    trusted = ("harness stubs parsec_ce.send_am with a recorder and calls the module's static dispatch function directly "
               "(the delayed-message list and the taskpool lookup of the public dispatch entry are not exercised)",)
    assumptions = ("reliable exactly-once delivery of each active message by the communication engine (C14)",
                   "int arithmetic does not overflow: 2*nb_nodes + 2 < 2^31")

    def cases(self):
        r = self.rng
        out = []
        nmax = 24 if self.tier == "quick" else 64
        for n in range(1, nmax + 1):
            for root in range(n):
                for me in range(n):
                    out.append("one %d %d %d" % (n, root, me))
                out.append("sys %d %d" % (n, root))
        # whole-system runs cover every process of the job: all roots for every n up to SMAX
        for n in range(nmax + 1, (96 if self.tier == "quick" else 400) + 1):
            for root in range(n):
                out.append("sys %d %d" % (n, root))
        for _ in range(2000 if self.tier == "quick" else 20000):
            n = r.pick([r.range(2, 4096), r.range(25, 300), 2 ** r.range(1, 12) + r.range(-1, 1)])
            root = r.pick([0, n - 1, r.below(n)])
            # aim at the case splits of the proof: wrap-around of both mod operations, 1 vs 2 children
            me = r.pick([root, (root + n // 2) % n, (root + (n - 1) // 2) % n, (root + (n - 2) // 2) % n,
                         (root + n - 1) % n, r.below(n)])
            out.append("one %d %d %d" % (n, root, me))
        for _ in range(20 if self.tier == "quick" else 200):
            n = r.range(25, 1500)
            out.append("sys %d %d" % (n, r.pick([0, n - 1, r.below(n)])))
        return out

    def nontrivial_key(self, case):
        w = case.split()
        return case if int(w[1]) >= 2 else None

    def dist(self, cases):
        one = [c for c in cases if c.startswith("one")]
        return {"one": len(one), "sys": len(cases) - len(one),
                "max_n": max(int(c.split()[1]) for c in cases)}

    # --- property oracle on the implementation's observations -------------
    def oracle(self, case, obs):
        w = case.split()
        if w[0] == "sys":
            n, root = int(w[1]), int(w[2])
            try:
                recv = [int(x) for x in obs.split("|")[0].split()[1:]]
                cbs = [int(x) for x in obs.split("|")[1].split()[1:]]
            except Exception:
                return "unparsable observation: " + obs[:80]
            for i in range(n):
                want = 0 if i == root else 1
                if i >= len(recv) or recv[i] != want:
                    return "rank %d received %s notifications (n=%d root=%d), expected %d" % (
                        i, recv[i] if i < len(recv) else "?", n, root, want)
                if cbs[i] != 1:
                    return "rank %d ran its termination callback %d times" % (i, cbs[i])
        else:
            n = int(w[1])
            try:
                ch = [int(x) for x in obs.split("|")[0].split()[1:]]
            except Exception:
                return "unparsable observation: " + obs[:80]
            if any(c < 0 or c >= n for c in ch):
                return "notification sent outside the job: %s" % ch
            if len(set(ch)) != len(ch):
                return "a process notified the same rank twice: %s" % ch
        return None

    def signature(self, case, obs):
        w = case.split()
        return "%s-n%s" % (w[0], w[1])

    def search_cases(self):
        # whole-system simulations decide the property on the implementation directly
        out = []
        for n in range(1, 80):
            for root in sorted({0, n // 2, n - 1}):
                out.append("sys %d %d" % (n, root))
        return out
