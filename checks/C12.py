from vcheck import Check, Rng


class C12(Check):
    id = "C12"
    prop_file = "theories/Properties/Properties_C12.v"
    theorems = ("C12_exactly_one_sender", "C12_root_has_no_sender", "C12_all_triggered",
                "C12_children_distinct", "C12_children_in_range",
                "C12_arrival_exactly_once", "C12_arrival_terminates", "C12_stale_recheck_refuted",
                "C12_children_are_the_code", "C12_signalled_exactly_once", "C12_state_guard_necessary")
    gen = ({"file": "parsec/mca/termdet/user_trigger/termdet_user_trigger_module.c",
            "fns": ["parsec_termdet_signal_termination"],
            "locals": ["parsec_termdet_signal_termination:my_rank,nb_children,child,real_child"],
            "out": "theories/Gen/Gen_usertrig.v"},)
    comp = "usertrig"
    extract_file = "theories/Extract/Extract_UserTrig.v"
    extracted = ("usertrig",)
    harness_src = "harness/h_usertrig.c"
    link_parsec = True
    level_text = ("Theorems for every communicator size n and root: each non-root rank is the destination of exactly one "
                  "notification, the root of none, all ranks are reached, destinations are distinct and in range. The model's "
                  "child formula is tied to the real module by running both on every (n, root, me) up to a bound and on "
                  "whole-job simulations; full level for the broadcast-tree logic. Arrival at a process: for every interleaving of the "
                  "communication thread (public dispatch entry: lookup, delayed-message list under its lock, re-lookup) with the main "
                  "thread (registration, taskpool_ready, replay of parked messages) and each of the three situations the notification "
                  "can find, it is handled at most once, only while BUSY, exactly once when both threads are done, and both finish "
                  "(finite protocol: the reachable set is computed and checked closed by the kernel); tied by running the real entry "
                  "points under EVERY schedule prefix of length 12 with per-thread step counts compared. Counter protocol of one process "
                  "(ready / trigger / runtime actions): for every disciplined history termination is signalled at most once, exactly "
                  "when TERMINATED, and as soon as nothing is pending (C12_signalled_exactly_once); tied by random histories of the "
                  "module's interface calls.")
    level_note = ("Trusted: Coq kernel, extraction, harness stub of send_am; assumes exactly-once message delivery (C14) and no "
                  "int overflow (2n+2 < 2^31). In the arrival cases parsec_taskpool_lookup is replaced by a one-entry table (the real "
                  "registry is C37's subject); one notification per process (duplicates are excluded by C14 and the tree theorems).")
    technique = ("Coq proof (spanning binary tree for every n and root; arrival protocol and counter protocol of one process for every "
                 "interleaving / history) + child formula regenerated from the C text (c2gallina) with an equivalence theorem + differential "
                 "run of the real module against the extracted model, under controlled schedules for the arrival protocol")
    rule = ("'one n root me': exhaustive over all (n, root, me) with n <= NMAX, plus sampled n up to 4096; "
            "'sys n root': whole-system delivery simulation; 'arr ini n root me sched': every 0/1 schedule prefix of length 12 "
            "for ini = 0, 1 (then round-robin), all prefixes of length 3 for ini = 2, plus random long schedules.  "
            "Non-trivial = n >= 2; distinct = distinct case text")
    trusted = ("harness stubs parsec_ce.send_am with a recorder; tree cases call the module's static dispatch function directly, "
               "arrival cases the public entry with parsec_taskpool_lookup / parsec_list_lock / parsec_list_unlock interposed by "
               "macros (yield, one-entry table) in the harness translation unit",)
    assumptions = ("reliable exactly-once delivery of each active message by the communication engine (C14)",
                   "int arithmetic does not overflow: 2*nb_nodes + 2 < 2^31")

    def cases(self):
        r = self.rng
        out = []
        nmax = 24 if self.tier == "quick" else 64
        for n in range(1, nmax + 1):
            for root in range(n):
                for me in range(n):
                    out.append("one %d %d %d" % (n, root, me))
                out.append("sys %d %d" % (n, root))
        # whole-system runs cover every process of the job: all roots for every n up to SMAX
        for n in range(nmax + 1, (96 if self.tier == "quick" else 400) + 1):
            for root in range(n):
                out.append("sys %d %d" % (n, root))
        for _ in range(2000 if self.tier == "quick" else 20000):
            n = r.pick([r.range(2, 4096), r.range(25, 300), 2 ** r.range(1, 12) + r.range(-1, 1)])
            root = r.pick([0, n - 1, r.below(n)])
            # aim at the case splits of the proof: wrap-around of both mod operations, 1 vs 2 children
            me = r.pick([root, (root + n // 2) % n, (root + (n - 1) // 2) % n, (root + (n - 2) // 2) % n,
                         (root + n - 1) % n, r.below(n)])
            out.append("one %d %d %d" % (n, root, me))
        for _ in range(20 if self.tier == "quick" else 200):
            n = r.range(25, 1500)
            out.append("sys %d %d" % (n, r.pick([0, n - 1, r.below(n)])))
        out += self.arrival_cases(r)
        out += self.ops_cases(r)
        return out

    def ops_cases(self, r):
        """histories of the module's interface calls on one process (counter protocol): disciplined ones
        (ready first, one trigger, runtime actions never below zero, paired actions after the termination)"""
        out = ["ops 7 2 2 R T a1 a-1 a1 a-1", "ops 7 5 6 R T a1 a-1 s0 a2 a-2", "ops 3 0 1 R a2 T a-1 a-1 a3 a-3"]
        for _ in range(1500 if self.tier == "quick" else 20000):
            n = r.range(2, 200)
            root = r.below(n)
            me = r.pick([root, (root + 1) % n, r.below(n)])
            ops, pa, trig, term = ["R"], 1, False, False
            for _k in range(r.range(1, 14)):
                c = r.below(10)
                if c < 2 and not trig:
                    ops.append("T"); trig = True; pa -= 1
                elif c < 5:
                    v = r.range(1, 3); ops.append("a%d" % v); pa += v
                elif c < 8 and pa > (0 if trig else 1):
                    v = r.range(1, pa - (0 if trig else 1)); ops.append("a-%d" % v); pa -= v
                elif c == 8:
                    ops.append(r.pick(["n%d" % r.range(1, 5), "t%d" % r.range(-3, 3), "a0"]))
                elif c == 9 and trig:
                    v = r.pick([0, 0, r.range(1, 3)]); ops.append("s%d" % v); pa = v
            # usually finish: trigger, retire everything, then late paired actions
            if r.chance(3, 4):
                if not trig:
                    ops.append("T"); pa -= 1
                if pa > 0:
                    ops.append("a-%d" % pa)
                for _k in range(r.range(0, 3)):
                    v = r.range(1, 2); ops += ["a%d" % v, "a-%d" % v]
            out.append("ops %d %d %d %s" % (n, root, me, " ".join(ops)))
        return out

    def arrival_cases(self, r):
        """arrival protocol: each thread has at most 6 steps, so the 0/1 prefixes of length 12 followed by
        round-robin cover every interleaving without a failed lock attempt and many with some"""
        out = []
        for ini in (0, 1):
            for bits in range(1 << 12):
                n = r.pick([2, 3, 7, 8, r.range(2, 200)])
                root = r.below(n)
                me = r.pick([(root + 1) % n, (root + n - 1) % n, r.below(n)])
                if me == root:
                    me = (root + 1) % n
                out.append("arr %d %d %d %d %s" % (ini, n, root, me, " ".join(str((bits >> k) & 1) for k in range(12))))
        for bits in range(8):
            out.append("arr 2 5 3 0 %s" % " ".join(str((bits >> k) & 1) for k in range(3)))
        for _ in range(300 if self.tier == "quick" else 5000):
            n = r.range(2, 3000)
            root = r.below(n)
            me = (root + r.range(1, n - 1)) % n
            # long runs of one thread: spins on the list lock, late and early arrivals
            sched = []
            while len(sched) < 30:
                sched += [r.below(2)] * r.range(1, 6)
            out.append("arr %d %d %d %d %s" % (r.below(3), n, root, me, " ".join(map(str, sched))))
        return out

    def nontrivial_key(self, case):
        w = case.split()
        if w[0] == "ops":
            return case
        return case if int(w[2 if w[0] == "arr" else 1]) >= 2 else None

    def dist(self, cases):
        one = [c for c in cases if c.startswith("one")]
        arr = [c for c in cases if c.startswith("arr")]
        ops = [c for c in cases if c.startswith("ops")]
        return {"one": len(one), "sys": len(cases) - len(one) - len(arr) - len(ops), "arr": len(arr), "ops": len(ops),
                "max_n": max(int(c.split()[1]) for c in cases)}

    # --- property oracle on the implementation's observations -------------
    def oracle(self, case, obs):
        w = case.split()
        if w[0] == "ops":
            f = dict(x.split("=") for x in obs.split() if "=" in x)
            try:
                sig, st, pa = int(f["sig"]), int(f["state"]), int(f["pa"])
            except Exception:
                return "unparsable observation: " + obs[:80]
            if sig > 1:
                return "termination was signalled %d times at one process (children notified and callback run again)" % sig
            if (sig == 1) != (st == 4):
                return "signalled %d time(s) but the monitor state is %d" % (sig, st)
            if st != 1 and pa == 0 and sig != 1:
                return "the taskpool is ready with no pending action but termination was not signalled"
            return None
        if w[0] == "arr":
            n, root, me = int(w[2]), int(w[3]), int(w[4])
            f = dict(x.split("=") for x in obs.split(" children:")[0].split() if "=" in x)
            try:
                ch = [int(x) for x in obs.split("children:")[1].split()]
                if f["done"] != "1":
                    return "the communication thread and the main thread did not both finish (deadlock on the delayed-message list)"
                if f["cb"] != "1" or f["state"] != "4":
                    return ("the notification was handled %s times at process %d (n=%d root=%d): parked=%s, taskpool state %s"
                            % (f["cb"], me, n, root, f["parked"], f["state"]))
                if f["parked"] != "0" or f["lockfree"] != "1":
                    return "a notification is left parked (%s) or the delayed-message lock is still held" % f["parked"]
            except Exception:
                return "unparsable observation: " + obs[:80]
            if any(c < 0 or c >= n for c in ch) or len(set(ch)) != len(ch):
                return "bad notifications forwarded: %s" % ch
            return None
        if w[0] == "sys":
            n, root = int(w[1]), int(w[2])
            try:
                recv = [int(x) for x in obs.split("|")[0].split()[1:]]
                cbs = [int(x) for x in obs.split("|")[1].split()[1:]]
            except Exception:
                return "unparsable observation: " + obs[:80]
            for i in range(n):
                want = 0 if i == root else 1
                if i >= len(recv) or recv[i] != want:
                    return "rank %d received %s notifications (n=%d root=%d), expected %d" % (
                        i, recv[i] if i < len(recv) else "?", n, root, want)
                if cbs[i] != 1:
                    return "rank %d ran its termination callback %d times" % (i, cbs[i])
        else:
            n = int(w[1])
            try:
                ch = [int(x) for x in obs.split("|")[0].split()[1:]]
            except Exception:
                return "unparsable observation: " + obs[:80]
            if any(c < 0 or c >= n for c in ch):
                return "notification sent outside the job: %s" % ch
            if len(set(ch)) != len(ch):
                return "a process notified the same rank twice: %s" % ch
        return None

    def signature(self, case, obs):
        w = case.split()
        if w[0] == "arr":
            return "arr-ini%s" % w[1]
        if w[0] == "ops":
            return "ops-signal-count"
        return "%s-n%s" % (w[0], w[1])

    def search_cases(self):
        # whole-system simulations decide the property on the implementation directly
        out = []
        for n in range(1, 80):
            for root in sorted({0, n // 2, n - 1}):
                out.append("sys %d %d" % (n, root))
        return out
