import os
import signal
import subprocess

import vcheck
from vcheck import Failure, run
from compound_common import PoolCheck, SCHEDULERS

MPIEXEC = ["mpiexec", "--allow-run-as-root", "--oversubscribe", "--mca", "mpi_yield_when_idle", "1", "-n", "2"]


def kv(obs):
    d = {}
    cur = None
    for w in obs.split():
        if "=" in w and w.split("=", 1)[0] in ("ran", "cb", "waits", "tests", "act", "ep"):
            cur, v = w.split("=", 1)
            d[cur] = [v] if v else []
        elif cur is not None:
            d[cur].append(w)
    return d


def parse(case):
    hd, pl, ne, ops = [x.strip() for x in case.split("|")]
    pools = []
    for w in pl.split():
        if w == "D":
            pools.append(("D", 0))
        else:
            pools.append(("P", int(w[1:].split(":")[0])))
    return hd.split(), pools, ne.split(), ops.split()


class C06(PoolCheck):
    id = "C06"
    prop_file = "theories/Properties/Properties_C06.v"
    theorems = ("C06_context_wait_returns_when_done_partial", "C06_context_wait_returns_partial",
                "C06_taskpool_wait_returns_when_terminated_partial", "C06_callback_once_after_last_task_partial",
                "C06_dtd_callback_once_refuted", "C06_epochs_independent_partial", "C06_initial_state_is_fresh",
                "C06_test_true_means_done_partial", "C06_active_taskpools_accounting",
                "C06_running_callback_keeps_context_active",
                "C06_master_released_only_when_done", "C06_context_wait_returns_when_done", "C06_context_wait_returns",
                "C06_barrier_accounting", "C06_master_returns", "C06_taskpool_wait_returns_when_terminated",
                "C06_callback_once_after_last_task", "C06_epochs_independent", "C06_test_true_means_done")
    comp = "ctxwait"
    extract_file = "theories/Extract/Extract_CtxWait.v"
    extracted = ("ctxwait",)
    harness_src = "harness/h_ctxwait.c"
    impl_env_timeout = ("H_CTXWAIT_TIMEOUT_MS", 12000)
    level_text = (
        "Model (CtxWaitDefs.v): the context (CONTEXT_ACTIVE / WAITING flags, active_taskpools, master thread in or out of "
        "parsec_context_wait / parsec_taskpool_wait), any number of PTG taskpools (startup task, tasks, detector) and DTD "
        "taskpools (tasks inserted by the master, detector ready only in waits, re-armed on leave, destructor), events: start, "
        "add (by the master, from a running task body, from a running completion callback), insert, test, free, wait enter/leave, "
        "taskpool_wait enter/leave, startup / begin / end of tasks, callback return + decrement, TERMINATED store.  Theorems over "
        "ALL event lists (all programs, interleavings, multi-epoch histories): parsec_context_wait returns only when every "
        "taskpool given to the context so far has terminated with all tasks ended, none running and (PTG) its callback run exactly "
        "once, and it can return then; parsec_taskpool_wait returns only for a terminated taskpool; a taskpool's detection implies "
        "all its tasks ended; PTG callbacks exactly once, never before; after a wait the context is in the state of a fresh "
        "context plus its still-attached, re-armed DTD taskpools (epoch independence); context_test true only when all is done; "
        "active_taskpools = start token + taskpools whose callback has not returned.  REFINED MODEL (CtxBarrierDefs.v): the "
        "choreography of __parsec_context_wait thread by thread (n threads on one counter+generation barrier: start barrier and "
        "the token increment after it, work loop with its test of active_taskpools, final barrier, workers' return to the start "
        "barrier, master's leave; every inner event performed by a thread that is 'inside' it until finished): for every "
        "interleaving the master is released from the final barrier only when active_taskpools = 0 and no thread is inside a "
        "task/startup/callback (C06_master_released_only_when_done) - the condition the first model assumes -, the barrier "
        "counter is exactly the number of waiters of the current generation (nobody left behind), from every reachable state "
        "with the work done a schedule releases the master; the six statements are re-derived for it without '_partial'.  "
        "Tie of the refined model: T-sched (scheduling.c under harness/cosched.h, per-thread step counts and state trace "
        "compared on 1-4 threads, 1-3 epochs).  REFUTED: 'exactly once' for DTD "
        "taskpools (callback at every wait and in the destructor).  Level PARTIAL: the barriers of __parsec_context_wait are "
        "abstracted to 'the master leaves at an instant where active_taskpools = 0 and no thread is inside a task or callback'; "
        "detector calls are atomic (C10).  Tie: T-obs on real contexts (random multi-epoch histories, PTG + DTD, nested adds).")
    level_note = ("Outside the model: the taskpool-list lock, the communication engine (see notes/findings/C06-*.md for what "
                  "was found there), DTD insertion from task bodies, parsec_taskpool_test.  The model is single-process: it has no "
                  "communication thread.  In a multi-rank run that thread detects terminations (last pending action = an outgoing "
                  "transfer) and runs completion callbacks without being one of the barrier's threads, so the quiescence hypothesis of "
                  "MWaitLeave does not cover it; the statements that do not use that hypothesis (C06_running_callback_keeps_context_"
                  "active: active_taskpools > 0 while any callback runs; C06_test_true_means_done_partial: active_taskpools = 0 "
                  "implies all callbacks returned and all tasks ended) are the ones that apply to it, and the two-rank scenario family "
                  "(mpiexec -n 2, oracle only) observes the real code there.")
    technique = ("Coq proof (per-taskpool and accounting invariants over all event lists) + differential run of random multi-epoch "
                 "histories on a real context (stamped bodies, enqueue/completion callbacks, wait returns) against the extracted model")
    rule = ("1..3 epochs, 1..6 taskpools (PTG 0..8 tasks in 1..64 chains, up to 2 DTD), each PTG taskpool added by the master "
            "(before or after start) or from a task body / a completion callback of an earlier one; inserts, taskpool_wait, "
            "context_test between; malformed calls (wait without start, double start, wait on an unknown taskpool); non-trivial = "
            "at least 2 taskpools and a nested add or a DTD taskpool or 2 epochs; distinct = the program text")
    trusted = ("harness/h_ctxwait.c decides the wait flags from stamps of one global atomic counter",
               "compound_pool.jdf is translated by the parsec-ptgpp of the tree under test")
    assumptions = ("every termination-detector call is atomic (C10)",
                   "barrier abstraction: the master leaves __parsec_context_wait at an instant where active_taskpools = 0 and no "
                   "thread is inside a task, a startup task or a termination callback")

    # ---- the two-rank scenario family (harness/h_ctxwait_dist.jdf), oracle only
    def dbin(self):
        return os.path.join(vcheck.BIN, "h_ctxwait_dist")

    def build_sides(self):
        fails = PoolCheck.build_sides(self)
        if any(f.kind == "build" for f in fails):
            return fails
        gen = os.path.join(vcheck.BIN, "gen_ctxwait_dist")
        os.makedirs(gen, exist_ok=True)
        with open(os.path.join(vcheck.VERIF, "harness/h_ctxwait_dist.jdf")) as f, open(os.path.join(gen, "h_ctxwait_dist.jdf"), "w") as g:
            g.write(f.read())
        ptgpp = os.path.join(vcheck.PBUILD, "parsec/interfaces/ptg/ptg-compiler/parsec-ptgpp")
        rc, o, e = run([ptgpp, "--noline", "-E", "-i", "h_ctxwait_dist.jdf", "-o", "h_ctxwait_dist", "-f", "h_ctxwait_dist"], cwd=gen, timeout=120)
        if rc != 0:
            fails.append(Failure("correspondence", "parsec-ptgpp no longer accepts harness/h_ctxwait_dist.jdf", (o + e)[-3000:]))
            return fails
        libdir = os.path.join(vcheck.PBUILD, "parsec")
        cmd = (["cc"] + vcheck.harness_cflags() + ["-O0", "-g0", "-w", "-I" + gen, "h_ctxwait_dist.c", "-o", self.dbin(),
               "-L" + libdir, "-lparsec", "-Wl,-rpath," + libdir, "-lpthread", "-lm", "-lhwloc"] + vcheck.MPI_LINK)
        rc, o, e = run(cmd, cwd=gen, timeout=300)
        if rc != 0:
            fails.append(Failure("correspondence", "harness/h_ctxwait_dist.jdf no longer compiles against /repo", (o + e)[-3000:]))
        # the T-sched pair: the real choreography of scheduling.c under the controlled scheduler / the refined model
        ok, msg = vcheck.build_harness("harness/h_ctxbarrier.c", self.sbin(), True, cflags=("-DBUILDING_PARSEC", "-w"))
        if not ok:
            fails.append(Failure("correspondence", "harness harness/h_ctxbarrier.c no longer compiles against /repo", msg))
        ok, msg = vcheck.build_driver("ctxbarrier", "ocaml/d_ctxbarrier.ml", self.extracted, self.smbin())
        if not ok:
            fails.append(Failure("build", "model driver d_ctxbarrier does not build", msg))
        return fails

    def sbin(self):
        return os.path.join(vcheck.BIN, "h_ctxbarrier")

    def smbin(self):
        return os.path.join(vcheck.BIN, "vm_ctxbarrier")

    def sched_cases(self):
        """bar <n> | <sizes> | <master program> | <schedule>: 1..4 threads, 1..3 epochs, taskpools added before and after start"""
        r = self.rng.fork()
        out = ["bar 1 | 2 | A0 S W |", "bar 2 | 2 | A0 S W | 0 0 1 1 0 1", "bar 3 | 2 1 | A0 S A1 W S W | 1 2 0 0 1 2 2 1 0 1 0 2",
               "bar 4 | 0 | S W S A0 W W |", "bar 2 | 1 | W S S A0 W | 1 1 1 1 0 0 0 0 0 0 1"]
        for _ in range(150 if self.tier == "quick" else 2500):
            n = r.pick([1, 2, 2, 3, 3, 4, 4])
            npool = r.range(1, 4)
            sizes = [r.pick([0, 1, 1, 2, 3]) for _ in range(npool)]
            nep = r.range(1, 3)
            prog = []
            pend = list(range(npool))
            for e in range(nep):
                for q in list(pend):
                    if r.chance(1, 3):
                        prog.append("A%d" % q)
                        pend.remove(q)
                if r.chance(1, 8):
                    prog.append("W")                 # not started: refused
                prog.append("S")
                if r.chance(1, 8):
                    prog.append("S")
                for q in list(pend):
                    if r.chance(1, 2) or e == nep - 1:
                        prog.append("A%d" % q)
                        pend.remove(q)
                prog.append("W")
            style = r.below(4)
            L = r.pick([0, 10, 40, 120, 300])
            if style == 0:
                sched = [r.below(n) for _ in range(L)]
            elif style == 1:                         # the master runs ahead
                sched = [0] * (L // 2) + [r.below(n) for _ in range(L // 2)]
            elif style == 2:                         # the workers run ahead
                sched = [1 + r.below(max(1, n - 1)) if n > 1 else 0 for _ in range(L // 2)] + [r.below(n) for _ in range(L // 2)]
            else:                                    # long bursts of one thread
                sched = []
                while len(sched) < L:
                    sched += [r.below(n)] * r.range(1, 12)
            out.append("bar %d | %s | %s | %s" % (n, " ".join(map(str, sizes)), " ".join(prog), " ".join(map(str, sched))))
        return out

    def sched_verdict(self, case, obs):
        if obs.startswith("<") or "deadlock" in obs.split():
            return ("sched-no-return", "the choreography did not complete under the schedule: " + obs[:80])
        d = dict(w.split("=", 1) for w in obs.split() if "=" in w)
        hd, szs, prog, _ = [x.strip() for x in case.split("|")]
        sizes = [int(x) for x in szs.split()]
        if "0" in d.get("ok", ""):
            return ("sched-wait-returned-early", "parsec_context_wait returned with active_taskpools != 0, a thread inside an item or an unfinished taskpool")
        added = set(int(o[1:]) for o in prog.split() if o[0] == "A")
        ran = [int(x) for x in d["ran"].split(",")]
        for q, sz in enumerate(sizes):
            if ran[q] != (sz + 1 if q in added else 0):
                return ("sched-items-lost", "taskpool %d finished %d of %d items" % (q, ran[q], sz + 1))
        return None

    def dist_cases(self):
        """two ranks; tp1 = chain across the ranks, its completion callback (cb_ms later) adds tp2 = local tasks on both ranks.
        dist <threads> <nchain> <nlocal> <late_rank> <late_ms> <cb_ms>"""
        r = self.rng.fork()
        th = r.pick([1, 2, 3])
        out = ["dist %d 2 8 1 300 250" % th,          # rank 0 sends last, rank 1 joins late (the seed's scenario)
               "dist %d 3 6 0 200 200" % th,          # 0 -> 1 -> 0: rank 1 sends last
               "dist %d 2 5 0 0 150" % th]            # nobody late: the send still completes after the compute threads ran dry
        for _ in range(2 if self.tier == "quick" else 12):
            out.append("dist %d %d %d %d %d %d" % (th, r.range(2, 6), r.range(1, 16), r.below(2), r.pick([0, 50, 150, 300]),
                                                   r.pick([100, 150, 250])))
        return out

    def run_dist(self, cases):
        """-> one observation line per scenario:  R0 cb=.. local=../.. after=.. chain=../.. | R1 ..."""
        if not cases:
            return []
        os.makedirs(vcheck.CASES, exist_ok=True)
        cf = os.path.join(vcheck.CASES, "%s-dist-%d.txt" % (self.id, self.seed))
        with open(cf, "w") as f:
            f.write("\n".join(cases) + "\n")
        so, se = cf + ".stdout", cf + ".stderr"
        tmo = 60 + 12 * len(cases)
        out = ""
        for attempt in range(2):
            with open(so, "w") as fo, open(se, "w") as fe:
                pr = subprocess.Popen(MPIEXEC + [self.dbin(), cf], stdout=fo, stderr=fe, stdin=subprocess.DEVNULL, start_new_session=True)
                try:
                    rc = pr.wait(timeout=tmo)
                except subprocess.TimeoutExpired:
                    rc = 124
                    try:
                        os.killpg(pr.pid, signal.SIGKILL)
                    except Exception:
                        pass
                    pr.wait()
            out = open(so).read()
            if rc in (0, 124) or "R0 S0" in out or "R1 S0" in out:
                break              # a failure before the first line happened in mpiexec / MPI_Init start-up: once more
        per = {}
        for line in out.splitlines():
            w = line.split()
            if len(w) >= 3 and w[0] in ("R0", "R1") and w[1].startswith("S"):
                try:
                    per.setdefault(int(w[1][1:]), {})[w[0]] = " ".join(w[2:])
                except ValueError:
                    pass
        res = []
        for i in range(len(cases)):
            d = per.get(i, {})
            if "R0" in d and "R1" in d:
                res.append("R0 %s | R1 %s" % (d["R0"], d["R1"]))
            else:
                res.append("<no observation: rc=%d %s>" % (rc, " ".join("%s %s" % kv for kv in sorted(d.items()))))
        return res

    def run_impl(self, casefile, n):
        lines = [l.rstrip("\n") for l in open(casefile) if l.strip() and not l.startswith("#")]
        if lines and all(l.startswith("bar ") for l in lines):
            rc, o, e = run([self.sbin(), casefile], timeout=600)
            return (o.splitlines() + ["<impl rc=%d>" % rc] * n)[:n]
        di = [i for i, l in enumerate(lines) if l.startswith("dist ")]
        if not di:
            return PoolCheck.run_impl(self, casefile, n)
        out = [None] * len(lines)
        rest = [i for i in range(len(lines)) if i not in di]
        if rest:
            cf = casefile + ".ctx"
            with open(cf, "w") as f:
                f.write("\n".join(lines[i] for i in rest) + "\n")
            for i, o in zip(rest, PoolCheck.run_impl(self, cf, len(rest))):
                out[i] = o
        for i, o in zip(di, self.run_dist([lines[i] for i in di])):
            out[i] = o
        return (out + ["<impl missing>"] * n)[:n]

    def dist_verdict(self, case, obs):
        if obs.startswith("<"):
            return ("dist-no-observation", "the two-rank run gave no observation: " + obs[:120])
        for part in obs.split("|"):
            w = part.split()
            try:
                d = dict(x.split("=", 1) for x in w[1:] if "=" in x)
                cb = int(d["cb"])
                done, exp = [int(x) for x in d["local"].split("/")]
                after = int(d["after"])
                ch, che = [int(x) for x in d["chain"].split("/")]
            except Exception:
                return ("unparsable", "unparsable observation: " + obs[:100])
            if done != exp or cb != 1 or after != 0:
                return ("dist-wait-returned-early",
                        "rank %s: parsec_context_wait returned with %d of %d tasks of the taskpool added by the completion callback "
                        "ended, %d callback call(s) before the return, %d stamps after it (the termination of the parent taskpool was "
                        "detected while the callback-added work was not counted)" % (w[0][1:], done, exp, cb, after))
            if ch != che:
                return ("tasks-lost-or-repeated", "rank %s ran %d of its %d chain tasks" % (w[0][1:], ch, che))
        return None

    def configs(self):
        r = self.rng
        k = 3 if self.tier == "quick" else 8
        cfgs = [(1, "lfq"), (4, "lfq")]
        while len(cfgs) < k:
            c = (r.pick([1, 2, 3, 4, 8]), r.pick(SCHEDULERS[:9]))
            if c not in cfgs:
                cfgs.append(c)
        return cfgs

    def program(self, r, malformed=False):
        npools = r.pick([1, 2, 3, 3, 4, 5, 6])
        pools = []
        ndtd = 0
        for _ in range(npools):
            if ndtd < 2 and r.chance(1, 4):
                pools.append("D")
                ndtd += 1
            else:
                pools.append("P%d:%d" % (r.pick([0, 1, 2, 3, 5, 8]), r.pick([1, 1, 2, 64])))
        nep = r.pick([1, 1, 2, 2, 3])
        # who adds each taskpool: ('m', epoch, before_start) | ('t', host, task) | ('c', host)
        plan = {}
        order = list(range(npools))
        hosts = []          # PTG taskpools already planned (possible hosts), with their epoch
        nested = []
        for q in order:
            if pools[q] == "D":
                plan[q] = ("m", r.below(nep), r.chance(1, 2))
                continue
            cand_t = [(h, e) for (h, e) in hosts if int(pools[h][1:].split(":")[0]) > 0]
            choice = r.below(4)
            if choice == 0 and cand_t:
                h, e = r.pick(cand_t)
                nested.append("t%d.%d+%d" % (h, r.below(int(pools[h][1:].split(":")[0])), q))
                hosts.append((q, e))
            elif choice == 1 and hosts:
                h, e = r.pick(hosts)
                nested.append("c%d+%d" % (h, q))
                hosts.append((q, e))
            else:
                e = r.below(nep)
                plan[q] = ("m", e, r.chance(1, 2))
                hosts.append((q, e))
        ops = []
        added = []
        for e in range(nep):
            pre = [q for q in plan if plan[q][1] == e and plan[q][2]]
            post = [q for q in plan if plan[q][1] == e and not plan[q][2]]
            for q in pre:
                ops.append("A%d" % q)
            if malformed and r.chance(1, 3):
                ops.append(r.pick(["W", "T%d" % r.pick(sorted(plan))]))  # before start: refused
            if r.chance(1, 4):
                ops.append("?")
            ops.append("S")
            if malformed and r.chance(1, 3):
                ops.append("S")                                         # second start: no-op
            added += pre
            for q in post:
                ops.append("A%d" % q)
                added.append(q)
                if r.chance(1, 3):
                    ops.append("?")
            dtds = [q for q in added if pools[q] == "D"]
            for q in dtds:
                if r.chance(3, 4):
                    ops.append("I%d:%d" % (q, r.pick([1, 2, 3, 5])))
            if added and r.chance(1, 2):
                q = r.pick(added)
                ops.append("T%d" % q)
                if pools[q] == "D" and r.chance(1, 2):
                    ops.append("I%d:%d" % (q, r.pick([1, 2])))
                    if r.chance(1, 2):
                        ops.append("T%d" % q)
            if malformed and r.chance(1, 4):
                # only taskpools the master adds in a LATER epoch: a nested add could race with the call
                cand = [q for q in plan if pools[q] != "D" and plan[q][1] > e]
                if cand:
                    ops.append("T%d" % r.pick(cand))                    # possibly not yet given to the context
            if r.chance(1, 3):
                ops.append("?")
            ops.append("W")
            if malformed and r.chance(1, 3):
                ops.append("W")                                         # not started any more: refused
            if r.chance(1, 2):
                ops.append("?")
        for q in added:
            if pools[q] == "D":
                ops.append("F%d" % q)
        ops.append("?")
        return pools, nested, ops

    def one(self, r, cfg, malformed=False):
        pools, nested, ops = self.program(r, malformed)
        return "ctx %d %s %d %d 0 | %s | %s | %s" % (cfg[0], cfg[1], r.pick([0, 1 + r.below(1000)]), r.below(100000),
                                                     " ".join(pools), " ".join(nested), " ".join(ops))

    def cases(self):
        r = self.rng
        out = []
        per = 16 if self.tier == "quick" else 150
        cold = 1
        for cfg in self.configs():
            # directed: nested adds from a body and from a callback inside the wait; DTD over two epochs;
            out.append("ctx %d %s 3 1 0 | P3:1 P2:2 P1:1 | t0.1+1 c1+2 | A0 S W ?" % cfg)
            out.append("ctx %d %s 0 2 0 | D P2:1 | | A0 S I0:2 T0 I0:1 W ? S A1 I0:1 W F0 ?" % cfg)
            out.append("ctx %d %s 0 3 0 | P0:1 P2:64 | c0+1 | W S A0 T0 W W ?" % cfg)
            for k in range(per):
                out.append(self.one(r, cfg, malformed=(k % 4 == 3)))
        return out

    def defect_cases(self):
        """inputs of the defect classes found outside the model (communication engine, taskpool-list lock): decided by
        the oracle only, never diffed (a crash / hang is not an observation the model could produce)"""
        out = []
        # the first wait of a process (no empty epoch before): a worker of its own each (cold = 1, 2, ..)
        out.append("ctx 2 lfq 0 1 1 | P3:1 | | A0 S T0 W ?")
        out.append("ctx 1 lfq 0 1 2 | P2:1 | | A0 S W ?")
        # a DTD taskpool without pending task terminates inside parsec_context_wait's enter_wait; its callback adds a taskpool
        out.append("ctx 2 lfq 0 1 0 | D P2:1 | c0+1 | A0 S W F0 ?")
        return out

    def main_flow(self):
        fails, oracle_fail, cases, impl, model = super().main_flow()
        extra = [] if os.environ.get("VERIF_C06_SKIP_DEFECTS") else list(self.defect_cases())
        if extra and impl and len(impl) == len(cases):
            eimpl, emodel = self.correspond(extra, "defects")
            hits = 0
            for i, (c, a) in enumerate(zip(extra, eimpl)):
                why = self.oracle(c, a)
                if why:
                    hits += 1
                    oracle_fail.append((len(cases) + i, why))
            self.cov["defect_stream"] = {"cases": len(extra), "violations": hits,
                                         "note": "directed inputs of the defect classes outside the model (first wait of a process is a "
                                                 "parsec_taskpool_wait; completion callback adding a taskpool under the list lock); decided "
                                                 "by the oracle only, not diffed with the model"}
            cases = cases + extra
            impl = impl + eimpl
            model = model + emodel
        sc = list(self.sched_cases())
        if sc and impl and os.path.exists(self.sbin()) and os.path.exists(self.smbin()):
            os.makedirs(vcheck.CASES, exist_ok=True)
            cf = os.path.join(vcheck.CASES, "%s-sched-%d.txt" % (self.id, self.seed))
            with open(cf, "w") as f:
                f.write("\n".join(sc) + "\n")
            rc1, o1, e1 = run([self.sbin(), cf], timeout=600)
            rc2, o2, e2 = run([self.smbin(), cf], timeout=600)
            simpl = (o1.splitlines() + ["<impl rc=%d>" % rc1] * len(sc))[:len(sc)]
            smodel = (o2.splitlines() + ["<model rc=%d>" % rc2] * len(sc))[:len(sc)]
            diff = [i for i in range(len(sc)) if simpl[i] != smodel[i]]
            hits = 0
            for i, (c, a) in enumerate(zip(sc, simpl)):
                why = self.oracle(c, a)
                if why:
                    hits += 1
                    oracle_fail.append((len(cases) + i, why))
            if diff:
                i = diff[0]
                fails.append(Failure("correspondence", "T-sched: the real choreography and the refined model differ on %d of %d schedules" % (len(diff), len(sc)),
                                     "first differing case: %s\nimpl : %s\nmodel: %s" % (sc[i], simpl[i], smodel[i])))
            self.cov["t_sched_stream"] = {"schedules": len(sc), "disagreements": len(diff), "oracle_hits": hits, "sample": simpl[:2],
                                          "note": "scheduling.c compiled into harness/h_ctxbarrier.c, n coroutines under the schedule of the case "
                                                  "(yields at the barrier, at the updates of active_taskpools and in the harness's select); compared "
                                                  "line by line with the refined model driven by ocaml/d_ctxbarrier.ml: per-thread step counts, returns "
                                                  "of parsec_context_wait, items run, hash of (active_taskpools, generation, arrivals) after every step"}
            cases = cases + sc
            impl = impl + simpl
            model = model + smodel
        dist = [] if os.environ.get("VERIF_C06_SKIP_DIST") else list(self.dist_cases())
        if dist and impl and not any("h_ctxwait_dist" in f.what for f in fails):
            dimpl = self.run_dist(dist)
            hits = 0
            for i, (c, a) in enumerate(zip(dist, dimpl)):
                why = self.oracle(c, a)
                if why:
                    hits += 1
                    oracle_fail.append((len(cases) + i, why))
            self.cov["two_rank_stream"] = {"scenarios": len(dist), "violations": hits, "sample": dimpl[:2],
                                           "note": "mpiexec -n 2: a taskpool that terminates through an outgoing transfer (detected by the "
                                                   "communication thread, outside the barrier) and whose completion callback adds a taskpool; "
                                                   "decided by the oracle only (the single-process model has no communication thread)"}
            cases = cases + dist
            impl = impl + dimpl
            model = model + ["(two-rank scenario: not compared with the model)"] * len(dist)
        return fails, oracle_fail, cases, impl, model

    def search_cases(self):
        r = self.rng.fork()
        return [self.one(r, cfg) for cfg in self.configs() for _ in range(6)]

    def nontrivial_key(self, case):
        try:
            hd, pools, nested, ops = parse(case)
        except Exception:
            return None
        if len(pools) >= 2 and (nested or any(k == "D" for k, _ in pools) or ops.count("W") >= 2):
            return case.split("|", 1)[1]
        return None

    def dist(self, cases):
        d = {"pools_hist": {}, "epochs_hist": {}, "dtd_pools": 0, "nested_from_task": 0, "nested_from_callback": 0,
             "taskpool_waits": 0, "tests": 0, "threads": {}, "schedulers": {}, "cold": 0}
        for c in cases:
            try:
                hd, pools, nested, ops = parse(c)
            except Exception:
                continue
            d["pools_hist"][str(len(pools))] = d["pools_hist"].get(str(len(pools)), 0) + 1
            e = str(ops.count("W"))
            d["epochs_hist"][e] = d["epochs_hist"].get(e, 0) + 1
            d["dtd_pools"] += sum(1 for k, _ in pools if k == "D")
            d["nested_from_task"] += sum(1 for n in nested if n[0] == "t")
            d["nested_from_callback"] += sum(1 for n in nested if n[0] == "c")
            d["taskpool_waits"] += sum(1 for o in ops if o[0] == "T")
            d["tests"] += ops.count("?")
            d["threads"][hd[1]] = d["threads"].get(hd[1], 0) + 1
            d["schedulers"][hd[2]] = d["schedulers"].get(hd[2], 0) + 1
            d["cold"] += 1 if hd[5] != "0" else 0
        return d

    # ---- the property, decided on the implementation's observation alone
    def verdict(self, case, obs):
        if case.startswith("dist "):
            return self.dist_verdict(case, obs)
        if case.startswith("bar "):
            return self.sched_verdict(case, obs)
        try:
            hd, pools, nested, ops = parse(case)
        except Exception:
            return ("bad-case", "unparsable case")
        cold = hd[5] != "0"
        if obs.startswith("<"):
            if cold and "T" in "".join(o[0] for o in ops):
                return ("taskpool-wait-first-epoch-crash", "parsec_taskpool_wait as the first wait of the process: " + obs[:80])
            if obs.startswith("<hang") and any(n[0] == "c" and pools[int(n[1:].split("+")[0])][0] == "D" for n in nested):
                return ("callback-add-deadlocks-in-enter-wait",
                        "parsec_context_wait hangs: the completion callback of a DTD taskpool that terminates inside enter_wait "
                        "calls parsec_context_add_taskpool under the taskpool-list lock")
            return ("no-observation", "the run gave no observation: " + obs[:100])
        d = kv(obs)
        try:
            ran = [int(x) for x in d["ran"][0].split(",")]
            cb = [int(x) for x in d["cb"][0].split(",")]
            waits = d.get("waits", [])
            act = int(d["act"][0])
        except Exception:
            return ("unparsable", "unparsable observation: " + obs[:100])
        if "over" in obs.split():
            return ("task-ran-twice", "a task body ran twice or an unknown task ran")
        # which taskpools are given to the context at all (by the master, or nested from one that is)
        given = set(int(o[1:]) for o in ops if o[0] == "A")
        changed = True
        while changed:
            changed = False
            for n in nested:
                host = int(n[1:].split("+")[0].split(".")[0])
                q = int(n.split("+")[1])
                if host in given and q not in given:
                    given.add(q)
                    changed = True
        inserted = {}
        for o in ops:
            if o[0] == "I":
                q, k = o[1:].split(":")
                inserted[int(q)] = inserted.get(int(q), 0) + int(k)
        for w in waits:
            if w == "0":
                return ("wait-returned-early", "a wait returned while a task it had to wait for had not ended (or a callback had not run)")
        for p, (kind, nt) in enumerate(pools):
            want = (nt if kind == "P" else inserted.get(p, 0)) if p in given else 0
            if p >= len(ran) or ran[p] != want:
                return ("tasks-lost-or-repeated", "taskpool %d: %s bodies completed, %d expected" % (p, ran[p] if p < len(ran) else "?", want))
        for p, (kind, nt) in enumerate(pools):
            want = 1 if p in given else 0
            if cb[p] != want:
                if kind == "D" and cb[p] > 1:
                    return ("dtd-complete-callback-repeats",
                            "the completion callback of DTD taskpool %d ran %d times (once per wait it went through, and in its destructor)" % (p, cb[p]))
                return ("callback-count", "the completion callback of taskpool %d ran %d times" % (p, cb[p]))
        if act != 0:
            return ("active-taskpools-nonzero", "active_taskpools = %d at the end" % act)
        return None

    def oracle(self, case, obs):
        v = self.verdict(case, obs)
        return v[1] if v else None

    def signature(self, case, obs):
        v = self.verdict(case, obs)
        return v[0] if v else "none"
