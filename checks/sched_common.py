"""Shared part of the scheduler checks C08 (no task lost or duplicated) and C09
(priority order): case language, grouping of the cases by (module, stream count)
- one harness process and one model process per group -, generators, parsing."""
import os
import re
from concurrent.futures import ThreadPoolExecutor

from vcheck import Check, run, BIN

MODULES = ("ap", "gd", "ip", "lfq", "lhq", "ll", "llp", "ltq", "pbq", "rnd", "spq")
# development knob (mutation testing): VERIF_SCHED_ONLY=lfq,ltq restricts the generators to these modules
ONLY = tuple(m for m in os.environ.get("VERIF_SCHED_ONLY", "").split(",") if m)
HB = ("lfq", "lhq", "pbq", "ltq")


# ---------------------------------------------------------------------------
# case language:  "<module> <n> | op | op ..."   (see harness/h_sched.c)
def parse_case(case):
    parts = [p.strip() for p in case.split("|")]
    hd = parts[0].split()
    mod, n = hd[0], int(hd[1])
    ops = []
    for p in parts[1:]:
        w = p.split()
        if not w:
            continue
        if w[0] in ("S", "V"):
            tasks = []
            for t in w[3:]:
                f = [int(x) for x in t.split(":")]
                f += [0] * (5 - len(f))
                tasks.append({"id": f[0], "prio": f[1], "tag": f[2], "hi": f[3], "rnd": f[4]})
            ops.append((w[0], int(w[1]), int(w[2]), tasks))
        elif w[0] in ("L", "N", "F"):
            ops.append((w[0], int(w[1])))
        elif w[0] == "D":
            ops.append(("D",))
    return mod, n, ops


def parse_obs(obs):
    """-> (list of events, left) ; event = ('sel', id or -1) | ('drain', [(es, id), ...]); None if unparsable"""
    if "|" not in obs:
        return None
    body, tail = obs.rsplit("|", 1)
    m = re.match(r"\s*left\s+(-?\d+)\s*$", tail)
    if not m:
        return None
    ev = []
    pos = 0
    body = body.strip()
    try:
        while pos < len(body):
            if body[pos] == " ":
                pos += 1
            elif body[pos] == "[":
                end = body.index("]", pos)
                items = []
                for w in body[pos + 1:end].split():
                    a, b = w.split(":")
                    items.append((int(a), int(b)))
                ev.append(("drain", items))
                pos = end + 1
            else:
                end = pos
                while end < len(body) and body[end] != " ":
                    end += 1
                ev.append(("sel", int(body[pos:end])))
                pos = end
    except ValueError:
        return None
    return ev, int(m.group(1))


def fmt_task(t):
    return "%d:%d:%d:%d:%d" % (t["id"], t["prio"], t["tag"], t["hi"], t["rnd"])


def fmt_case(mod, n, ops):
    out = ["%s %d" % (mod, n)]
    for o in ops:
        if o[0] in ("S", "V"):
            out.append("%s %d %d %s" % (o[0], o[1], o[2], " ".join(fmt_task(t) for t in o[3])))
        elif o[0] in ("L", "N", "F"):
            out.append("%s %d" % (o[0], o[1]))
        else:
            out.append("D")
    return " | ".join(out)


def stale_flush(ops):
    """does the history call flush_private on a stream whose next_task may have been retained from a ring of
    two or more tasks (the retained task then still points into that ring)?  Static, conservative."""
    stale = {}
    for o in ops:
        if o[0] == "V" and o[1] >= 0 and o[2] == 0 and len(o[3]) >= 2:
            stale[o[1]] = True
        elif o[0] == "N":
            stale[o[1]] = False
        elif o[0] == "D":
            stale = {}
        elif o[0] == "F":
            if stale.get(o[1]):
                return True
    return False


def topo_wf(topo, mod):
    """the hypothesis [wf] of the C08 liveness theorems, on the hierarchy read back from the real module:
    every buffer is some stream's task queue or one of hierarch_queues[1..]; parents are buffers or the system queue"""
    if mod not in HB:
        return True
    try:
        parts = [p.strip() for p in topo.split(";")]
        n = int(parts[0].split()[1])
        sizes = [int(x) for x in parts[1].split()]
        parents = [int(x) for x in parts[2].split()]
        tq = [int(x) for x in parts[3].split()]
        chains = [[int(y) for y in w.split(",") if y != ""] for w in parts[4].split()]
    except (ValueError, IndexError):
        return False
    nb = len(sizes)
    if len(parents) != nb or len(tq) != n or len(chains) != n or nb == 0:
        return False
    if any(not (-1 <= p < nb) for p in parents) or any(not 0 <= b < nb for b in tq + [b for c in chains for b in c]):
        return False
    reach = set(tq)
    for c in chains:
        reach.update(c[1:])
    return reach == set(range(nb))


class SchedCheck(Check):
    comp = "sched"
    per_check_bin = True
    extract_file = "theories/Extract/Extract_Sched.v"
    extracted = ("sched",)
    harness_src = "harness/h_sched.c"
    link_parsec = True
    harness_ldflags = ("-rdynamic",)

    def mbin(self):
        return os.path.join(BIN, "vm_sched_" + self.id)

    def impl_timeout(self):
        # per process (one group of cases); a hang (e.g. a cycle in a corrupted list) is treated like a crash
        return 180 if self.tier == "quick" else 900

    # ---- one process per (module, stream count) ---------------------------
    def _groups(self, casefile):
        cases = [l.rstrip("\n") for l in open(casefile) if l.strip() and not l.startswith("#")]
        groups = {}
        for i, c in enumerate(cases):
            w = c.split("|")[0].split()
            key = (w[0] if w else "?", w[1] if len(w) > 1 else "1")
            groups.setdefault(key, []).append(i)
        return cases, groups

    JOBS = 8

    @staticmethod
    def _valid(key):
        mod, ns = key
        return mod in MODULES and ns.isdigit() and 1 <= int(ns) <= 64

    def _impl_group(self, casefile, cases, key, idxs):
        """one harness process for the group (a fresh one after each crash); -> (topo line, {index: line})"""
        mod, ns = key
        res = {}
        topo = None
        todo = list(idxs)
        part = 0
        crashes = 0
        while todo:
            gf = "%s.%s.%s.impl%d" % (casefile, mod, ns, part)
            part += 1
            with open(gf, "w") as f:
                for i in todo:
                    f.write(cases[i] + "\n")
            rc, o, e = run([self.hbin(), gf, mod, ns], timeout=self.impl_timeout())
            lines = o.splitlines()
            if not (lines and lines[0].startswith("T ")):
                for i in todo:
                    res[i] = "<impl rc=%d: %s>" % (rc, (e.strip()[-160:] or o.strip()[-160:]).replace("\n", " "))
                break
            topo = lines[0]
            lines = lines[1:]
            if not topo_wf(topo, mod):
                for i in todo:
                    res[i] = "<buffer hierarchy not well formed: %s>" % topo[:200]
                break
            for i, l in zip(todo, lines):
                res[i] = l
            if len(lines) >= len(todo):
                break
            # the process died inside case todo[len(lines)]: report it, go on after it in a fresh process
            res[todo[len(lines)]] = "<crash rc=%d%s: %s>" % (rc, " (timeout)" if rc == 124 else "",
                                                              e.strip()[-160:].replace("\n", " "))
            todo = todo[len(lines) + 1:]
            crashes += 1
            if crashes >= 2:
                for i in todo:
                    res[i] = "<not run: the process of this group crashed twice>"
                break
        return topo or "T %s ; ; ; ;" % ns, res

    def run_impl(self, casefile, n):
        cases, groups = self._groups(casefile)
        out = ["<bad case>"] * len(cases)
        self._topo = getattr(self, "_topo", {})
        good = [(k, v) for k, v in groups.items() if self._valid(k)]
        with ThreadPoolExecutor(self.JOBS) as ex:
            for (key, idxs), (topo, res) in zip(good, ex.map(lambda kv: self._impl_group(casefile, cases, kv[0], kv[1]), good)):
                self._topo[key] = topo
                for i, l in res.items():
                    out[i] = l
        return out

    def _model_group(self, casefile, cases, key, idxs):
        mod, ns = key
        gf = "%s.%s.%s.model" % (casefile, mod, ns)
        with open(gf, "w") as f:
            for i in idxs:
                f.write(cases[i] + "\n")
        topo = getattr(self, "_topo", {}).get(key, "T %s ; ; ; ;" % ns)
        rc, o, e = run([self.mbin(), gf, mod, ns, topo], timeout=self.impl_timeout())
        lines = o.splitlines()
        return {i: (lines[k] if k < len(lines) else "<model rc=%d: %s>" % (rc, e.strip()[-160:].replace("\n", " ")))
                for k, i in enumerate(idxs)}

    def run_model(self, casefile, n):
        cases, groups = self._groups(casefile)
        out = ["<bad case>"] * len(cases)
        good = [(k, v) for k, v in groups.items() if self._valid(k)]
        with ThreadPoolExecutor(self.JOBS) as ex:
            for res in ex.map(lambda kv: self._model_group(casefile, cases, kv[0], kv[1]), good):
                for i, l in res.items():
                    out[i] = l
        return out

    # ---- generator pieces ---------------------------------------------------
    def gen_ring(self, r, nextid, size, prio_lo, prio_hi, tie_rnd):
        tasks = []
        for _ in range(size):
            tasks.append({"id": nextid[0], "prio": r.range(prio_lo, prio_hi), "tag": r.range(0, 2),
                          "hi": 1 if r.chance(1, 4) else 0,
                          "rnd": r.range(0, 3) if tie_rnd else r.below(1 << 30)})
            nextid[0] += 1
        return tasks

    def gen_history(self, r, mod, n, nops, vp_ops=True, maxring=16, dist_hi=3, big=False):
        """schedule/select history ending with a drain"""
        nextid = [0]
        ops = []
        prio_lo, prio_hi = r.pick([(0, 2), (0, 3), (-2, 2), (0, 1), (0, 9), (5, 5)])
        tie_rnd = r.chance(1, 3)
        p_sched = r.pick([50, 60, 75])
        for _ in range(nops):
            x = r.below(100)
            if x < p_sched:
                size = r.pick([1, 1, 2, 3, r.range(1, maxring), r.range(1, maxring), maxring])
                if big and r.chance(1, 4):
                    size = r.range(maxring, 4 * maxring)
                d = r.pick([0, 0, 0, r.range(0, dist_hi), r.range(1, dist_hi), dist_hi + r.range(0, 2)])
                es = r.pick([0, r.below(n), r.below(n)])
                ring = self.gen_ring(r, nextid, size, prio_lo, prio_hi, tie_rnd)
                if vp_ops and r.chance(1, 4):
                    ops.append(("V", r.pick([-1, es, es]), r.pick([0, 0, d]), ring))
                else:
                    ops.append(("S", es, d, ring))
            elif x < 97:
                k = r.pick(["L", "L", "N", "F"]) if vp_ops else "L"
                es = r.below(n)
                if k == "F" and stale_flush(ops + [("F", es)]):
                    k = "N"           # flush_private is only exercised where the retained task is a singleton ring
                ops.append((k, es))
            else:
                ops.append(("D",))
        ops.append(("D",))
        return fmt_case(mod, n, ops)

    def dist(self, cases):
        d = {}
        sizes = []
        dists = {}
        for c in cases:
            mod, n, ops = parse_case(c)
            d["%s/%d" % (mod, n)] = d.get("%s/%d" % (mod, n), 0) + 1
            for o in ops:
                if o[0] in ("S", "V"):
                    sizes.append(len(o[3]))
                    dists[o[2]] = dists.get(o[2], 0) + 1
        return {"cases_per_module_streams": d, "rings": len(sizes), "max_ring": max(sizes or [0]),
                "tasks": sum(sizes), "distances": {str(k): v for k, v in sorted(dists.items())}}

    def nontrivial_key(self, case):
        mod, n, ops = parse_case(case)
        ns = sum(1 for o in ops if o[0] in ("S", "V"))
        return case if ns >= 1 else None
