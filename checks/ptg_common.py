"""Shared part of the PTG checks (C01, C23; reusable by C02/C16/C24/C15/C22).

A case line is   <mode> <config> <config> … | <program in the format of tools/jdfgen.py to_case>
with  config = scheduler:threads[:startup_iter:startup_chunk[:again_max[:repetitions[:slow_us:slow_class]]]]   ('-' = default iter/chunk)
The model side (ocaml/d_ptg.ml) ignores the configurations.  The implementation side is
driven from Python (run_impl is overridden): for every case the JDF is written, compiled by
parsec-ptgpp (built from the repository under test), compiled and linked with
harness/ptg_driver.c and libparsec, and run once per configuration under a timeout.
"""
import concurrent.futures
import os
import shutil
import sys

import vcheck
from vcheck import Check, Failure, run, log

sys.path.insert(0, os.path.join(vcheck.VERIF, "tools"))
import jdfgen  # noqa: E402

SCHEDULERS = ("lfq", "ll", "llp", "ltq", "lhq", "gd", "ap", "ip", "pbq", "spq", "rnd")
# OpenMPI singleton start-up: no orted, no network BTLs (MPI_Init drops from seconds to ~0.4 s)
RUN_ENV = {"OMPI_MCA_ess_singleton_isolated": "1", "OMPI_MCA_btl": "self", "OMPI_MCA_pml": "ob1"}


def ptgpp_path():
    return os.path.join(vcheck.PBUILD, "parsec/interfaces/ptg/ptg-compiler/parsec-ptgpp")


def link_flags():
    libdir = os.path.join(vcheck.PBUILD, "parsec")
    return ["-L" + libdir, "-lparsec", "-Wl,-rpath," + libdir, "-lpthread", "-lm", "-lhwloc"] + vcheck.MPI_LINK


def parse_config(s):
    """scheduler:threads[:iter:chunk[:again[:reps[:slow_us:slow_class]]]]  ('-' for iter/chunk = runtime default)"""
    w = s.split(":")
    d = {"sched": w[0], "threads": int(w[1]) if len(w) > 1 else 1, "iter": None, "chunk": None, "again": 0, "reps": 1,
         "slow": None}
    if len(w) > 7:
        d["slow"] = (int(w[6]), w[7])
    if len(w) > 3 and w[2] != "-" and w[3] != "-":
        d["iter"], d["chunk"] = int(w[2]), int(w[3])
    if len(w) > 4:
        d["again"] = int(w[4])
    if len(w) > 5:
        d["reps"] = int(w[5])
    return d


def config_args(cfg, seed=1):
    a = []
    if cfg["again"]:
        a += ["--again", str(seed), str(cfg["again"])]
    if cfg.get("reps", 1) > 1:
        a += ["--reps", str(cfg["reps"])]
    if cfg.get("slow"):
        a += ["--slow", str(cfg["slow"][0]), cfg["slow"][1]]
    a += ["--cfg", str(cfg["threads"]), "--mca", "mca_sched", cfg["sched"]]
    if cfg["iter"] is not None:
        a += ["--mca", "task_startup_iter", str(cfg["iter"]), "--mca", "task_startup_chunk", str(cfg["chunk"])]
    return a


class Entry:
    """one body invocation of the log printed by harness/ptg_driver.c"""
    __slots__ = ("cls", "again", "params", "locals", "begin", "end", "reads", "writes", "key", "keyprint")


def parse_log(out):
    """-> (entries, info) ; info has 'end' (rc string or None), 'data', 'oor'"""
    ents, info = [], {"end": None, "data": None, "oor": None}
    for line in out.splitlines():
        if line.startswith("I "):
            try:
                head, rest = line.split(" ; KP ", 1)
                f = [x.strip() for x in head.split(";")]
                e = Entry()
                w = f[0].split()
                e.cls, e.again = w[1], int(w[2])
                e.params = tuple(int(x) for x in w[4:])
                e.locals = tuple(int(x) for x in f[1].split()[1:])
                s = f[2].split()
                e.begin, e.end = int(s[1]), int(s[2])
                e.reads = {int(a.split("=")[0]): int(a.split("=")[1]) for a in f[3].split()[1:]}
                e.writes = {int(a.split("=")[0]): int(a.split("=")[1]) for a in f[4].split()[1:]}
                e.key = int(f[5].split()[1])
                e.keyprint = rest.strip()
                ents.append(e)
            except Exception:
                info["end"] = "unparsable-log-line"
        elif line.startswith("END "):
            info["end"] = line[4:].strip()
        elif line.startswith("D "):
            info["data"] = [int(x) for x in line.split()[1:]]
        elif line.startswith("OOR "):
            info["oor"] = int(line.split()[1])
    return ents, info


class PtgCheck(Check):
    comp = "ptg"
    extract_file = "theories/Extract/Extract_PTG.v"
    extracted = ("ptg",)
    harness_src = None          # the harness is linked per generated program
    link_parsec = True
    mode = "inst"
    run_timeout = int(os.environ.get("VERIF_PTG_TIMEOUT", "60"))   # seconds per configuration (a hang is an observation)
    jobs = 12

    # ---- build: libparsec + ptgpp (ensure_parsec, by the base class), the driver object, the model driver
    def build_sides(self):
        fails = Check.build_sides(self)
        if any(f.kind == "build" for f in fails):
            return fails
        os.makedirs(vcheck.BIN, exist_ok=True)
        self.drv_obj = os.path.join(vcheck.BIN, "ptg_driver.o")
        cmd = ["cc"] + vcheck.harness_cflags() + ["-c", os.path.join(vcheck.VERIF, "harness/ptg_driver.c"), "-o", self.drv_obj]
        rc, o, e = run(cmd, timeout=300)
        if rc != 0:
            fails.append(Failure("correspondence", "harness harness/ptg_driver.c no longer compiles against /repo", (o + e)[-4000:]))
        if not os.path.exists(ptgpp_path()):
            fails.append(Failure("build", "parsec-ptgpp was not built", ptgpp_path()))
        return fails

    def workdir(self, tag, i):
        # the pid keeps concurrent runs of the same check and seed apart
        return os.path.join(vcheck.WORK, "ptg" + vcheck._SFX, "%s-%s-%d-p%d" % (self.id, tag, self.seed, os.getpid()), "c%03d" % i)

    # ---- one generated program: JDF -> ptgpp -> cc -> run per configuration
    def build_case(self, wd, prog):
        """returns (exe or None, message)"""
        shutil.rmtree(wd, ignore_errors=True)
        os.makedirs(wd)
        with open(os.path.join(wd, "ptgcase.jdf"), "w") as f:
            f.write(jdfgen.to_jdf(prog))
        rc, o, e = run([ptgpp_path(), "-E", "-i", "ptgcase.jdf", "-o", "ptgcase", "-f", "ptgcase"], cwd=wd, timeout=120)
        if rc != 0 or not os.path.exists(os.path.join(wd, "ptgcase.c")):
            return None, "ptgpp-rejected rc=%d %s" % (rc, (o + e).strip()[-300:].replace("\n", " "))
        # -O0 -g0: the generated file is ~3000 lines per program; optimisation is not what is under test
        cmd = (["cc"] + vcheck.harness_cflags() + ["-O0", "-g0", "-w", "-I" + wd, "-c", "ptgcase.c", "-o", "ptgcase.o"])
        rc, o, e = run(cmd, cwd=wd, timeout=300)
        if rc != 0:
            return None, "generated-C-does-not-compile " + (o + e).strip()[-300:].replace("\n", " ")
        exe = os.path.join(wd, "run")
        rc, o, e = run(["cc", "ptgcase.o", self.drv_obj, "-o", exe] + link_flags(), cwd=wd, timeout=300)
        if rc != 0:
            return None, "link-failed " + (o + e).strip()[-300:].replace("\n", " ")
        return exe, ""

    def run_config(self, exe, cfg):
        env = dict(os.environ)
        env.update(RUN_ENV)
        for attempt in range(3):
            rc, o, e = run([exe] + config_args(cfg, self.seed), timeout=self.run_timeout, env=env, cwd=os.path.dirname(exe))
            # a failure before "CONFIG" is printed happened inside MPI_Init_thread (singleton start-up
            # under load), not in the code under test: try again
            if rc in (0, 124) or "CONFIG" in o:
                break
        ents, info = parse_log(o)
        if rc == 124:
            info["end"] = "timeout"
        elif rc != 0 and (info["end"] is None or info["end"] == "rc=0"):
            info["end"] = "crash-rc=%d" % rc
        elif info["end"] is not None and info["end"].startswith("rc=signal-"):
            info["end"] = "crash-" + info["end"][3:]          # the driver's handler dumped the log before dying
        elif info["end"] is None:
            info["end"] = "no-END"
        info["stderr"] = e[-1500:]
        if info["end"] != "rc=0":
            log("%s: %s %s -> %s; stderr tail: %s" % (self.id, exe, cfg, info["end"], e.strip()[-400:].replace("\n", " | ")))
        return ents, info

    def one_case(self, tag, i, case):
        try:
            hd, progtxt = case.split("|", 1)
            cfgs = [parse_config(c) for c in hd.split()[1:]]
            prog = jdfgen.parse_case(progtxt)
        except Exception as ex:
            return "<bad case %s>" % ex
        wd = self.workdir(tag, i)
        exe, msg = self.build_case(wd, prog)
        if exe is None:
            return "<%s>" % msg
        runs = []
        for c, cs in zip(cfgs, hd.split()[1:]):
            ents, info = self.run_config(exe, c)
            runs.append((cs, ents, info))
        ok = all(info["end"] == "rc=0" for _, _, info in runs)
        if ok and not os.environ.get("VERIF_KEEP"):
            shutil.rmtree(wd, ignore_errors=True)
        return self.observation(prog, runs)

    def observation(self, prog, runs):
        raise NotImplementedError

    def run_impl(self, casefile, n):
        cases = [l.rstrip("\n") for l in open(casefile) if l.strip() and not l.startswith("#")]
        tag = os.path.basename(casefile).split("-")[1] if "-" in os.path.basename(casefile) else "x"
        out = [None] * len(cases)
        with concurrent.futures.ThreadPoolExecutor(max_workers=self.jobs) as ex:
            futs = {ex.submit(self.one_case, tag, i, c): i for i, c in enumerate(cases)}
            for f in concurrent.futures.as_completed(futs):
                i = futs[f]
                try:
                    out[i] = f.result()
                except Exception as exn:
                    out[i] = "<impl exception %s>" % exn
        try:
            os.rmdir(os.path.dirname(self.workdir(tag, 0)))     # only when every case was cleaned up
        except OSError:
            pass
        return (out + ["<impl missing>"] * n)[:n]

    # ---- generation helpers
    def draw_configs(self, r, k):
        cfgs = []
        for _ in range(k):
            s = r.pick(SCHEDULERS)
            th = r.pick([1, 2, 3, 4, 8, 16] if self.tier != "quick" else [1, 2, 4, 8])
            c = "%s:%d" % (s, th)
            if r.chance(1, 3):
                c += ":%d:%d" % (r.pick([1, 1, 2, 3]), r.pick([1, 1, 2, 5]))
            cfgs.append(c)
        return cfgs

    def program_cases(self, nprog, ncfg):
        r = self.rng
        out = []
        # every template at least once, then random
        ts = list(jdfgen.TEMPLATES)
        for i in range(nprog):
            t = ts[i] if i < len(ts) else None
            p = jdfgen.gen_program(r, t)
            out.append("%s %s | %s" % (self.mode, " ".join(self.draw_configs(r, ncfg)), jdfgen.to_case(p)))
        return out

    def nontrivial_key(self, case):
        try:
            p = jdfgen.parse_case(case.split("|", 1)[1])
        except Exception:
            return None
        st = jdfgen.stats(p)
        return case.split("|", 1)[1] if (st["instances"] >= 2 and st["edges"] >= 1) else None

    def dist(self, cases):
        d = {"programs": len(cases), "classes_hist": {}, "instances_hist": {}, "edges_total": 0, "schedulers": {},
             "threads": {}, "startup_params": 0, "count_deps_classes": 0, "classes_total": 0,
             "ternary_deps": 0, "range_args": 0, "derived_locals": 0, "steps_gt1": 0, "negative_lower_bounds": 0}
        for c in cases:
            try:
                hd, pt = c.split("|", 1)
                p = jdfgen.parse_case(pt)
            except Exception:
                continue
            st = jdfgen.stats(p)
            k = str(st["classes"])
            d["classes_hist"][k] = d["classes_hist"].get(k, 0) + 1
            b = str(10 * (st["instances"] // 10)) + "+"
            d["instances_hist"][b] = d["instances_hist"].get(b, 0) + 1
            d["edges_total"] += st["edges"]
            for cf in hd.split()[1:]:
                w = cf.split(":")
                d["schedulers"][w[0]] = d["schedulers"].get(w[0], 0) + 1
                d["threads"][w[1]] = d["threads"].get(w[1], 0) + 1
                d["startup_params"] += 1 if len(w) > 3 else 0
            for cl in p.classes:
                d["classes_total"] += 1
                d["count_deps_classes"] += 1 if cl.count else 0
                for l in cl.locals:
                    if l.kind == 'V':
                        d["derived_locals"] += 1
                    else:
                        if l.st != ('c', 1):
                            d["steps_gt1"] += 1
                        if jdfgen.ev(p.gvals, [0] * 20, l.lo) < 0:
                            d["negative_lower_bounds"] += 1
                for f in cl.flows:
                    for dp in f.deps:
                        d["ternary_deps"] += 1 if dp.els is not None else 0
                        for tg in (dp.then, dp.els):
                            if tg is not None and tg[0] == 'T':
                                d["range_args"] += sum(1 for a in tg[3] if a[0] == 'S')
        return d
