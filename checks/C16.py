import os
import re
import sys

sys.path.insert(0, os.path.dirname(os.path.abspath(__file__)))
from ptg_common import PtgCheck, jdfgen, SCHEDULERS  # noqa: E402
import ptgval_common as pv  # noqa: E402
from C02 import ValCheck, split_cfg, hb_violation, en_prio  # noqa: E402


def head_again(case):
    """'again 7:3 lfq:2 …' -> (seed, max)"""
    w = case.split("|", 1)[0].split()
    a, b = w[1].split(":")
    return int(a), int(b)


class C16(ValCheck):
    id = "C16"
    prop_file = "theories/Properties/Properties_C16.v"
    theorems = ("C16_body_invoked_k_plus_1_times", "C16_pending_task_stays_scheduled", "C16_no_duplicate_after_completion",
                "C16_hook_again_keeps_inputs", "C16_demotion_int32", "C16_demotion_lowers_positive",
                "C16_demotion_raises_negative", "C16_never_lost_never_duplicated", "C16_empty_scheduler_all_complete",
                "C16_scheduler_progress", "C16_engine_invocations_bounded", "C16_engine_release_after_last_invocation",
                "C16_engine_invocation_after_predecessors", "C16_engine_running_task_can_move", "C16_engine_complete_run",
                "C16_resumed_enumeration_is_execution_space", "C16_chunks_concat", "C16_again_invocation_progresses",
                "C16_startup_instances_exactly_once")
    comp = "again"
    extract_file = "theories/Extract/Extract_Again.v"
    extracted = ("again",)
    gen_cflags = ("-DPTG_RT_TRACE_STARTUP",)
    mode = "again"
    level_text = ("(i) __parsec_task_progress/__parsec_execute modelled as a function on the task's status and priority (prepare_input "
                  "AGAIN keeps the status so the inputs are looked up again; hook AGAIN sets status HOOK so they are not; demotion p/10, 0 -> -1; "
                  "reschedule at distance+1): for ALL a, k, priorities and distances, a task whose prepare_input defers a times and whose body "
                  "returns AGAIN k times gets exactly a+1 / k+1 calls, release_deps exactly once, in the call of the last invocation, is in the "
                  "scheduler after every earlier call and changes no more afterwards; with a scheduler that keeps what it is given (C08) and ANY "
                  "selection order an unreleased task is in the ready list exactly once, an empty scheduler means all complete, a non-empty one "
                  "advances. In C01's dataflow engine extended with Again/Rerun events, for EVERY wf program, AGAIN count per instance and "
                  "schedule: at most k+1 invocations, one release, the release follows the (k+1)-th and last invocation, every invocation follows "
                  "the release of all predecessors, a started task can always move, quiescence = every instance invoked k+1 times and released "
                  "once. (ii) the generated startup function as a resumable enumerator: resuming from the saved locals enumerates `enum` (the "
                  "execution space of C01's AST) in order for every loop nest, and for ALL task_startup_iter/chunk >= 0 the concatenation of "
                  "the batches created by the successive invocations is the list of startup instances. Tie (T-obs): generated JDFs whose "
                  "bodies return AGAIN a seeded number of times, startup parameters swept from 1, all schedulers, both ptgpp back-ends; every "
                  "invocation is logged with its priority and stamps, the creation order of startup tasks is traced; compared with the "
                  "extracted progress machine and startup enumerator. Full on the models; generated C tied by observation.")
    level_note = ("Trusted: Coq kernel, extraction, ocaml/d_again.ml, tools/jdfgen.py, harness/ptg_driver.c + ptg_rt.h (invocation log with "
                  "task->priority; -DPTG_RT_TRACE_STARTUP wraps parsec_dependencies_mark_task_as_startup in the GENERATED file by a macro, no "
                  "change to /repo). Not modelled: ASYNC completion paths, error return codes (fatal), the `version++` of written copies at "
                  "every invocation (not observable through the body log), prepare_input AGAIN is proved about but not exercised (generated "
                  "data_lookup only returns AGAIN for unfinished reshape promises, C18). Invocation boundaries of the startup function are not "
                  "observable: the tie sees the creation ORDER and exactly-once, not the batch sizes.")
    technique = ("Coq proofs (closed form of the call sequence; invariants over all schedules; list induction for the enumerator) + "
                 "observation-differential runs of generated JDF programs with seeded AGAIN bodies")
    rule = ("programs from all DAG templates plus parameter-space shapes (independent tasks, 1-4 parameters, dependent bounds: every "
            "instance is a startup task); AGAIN max 0..3 (seeded per instance); startup_iter in {1,2,3}, startup_chunk in {1,2,5,7}; "
            "3 configurations scheduler[@ia]:threads:iter:chunk per program, schedulers rotated, threads 1,2,4,16, plus (every "
            "parameter-space program, one DAG program in three) one configuration with 2 or 3 virtual processes (vpmap=hwloc on a "
            "synthetic hwloc topology; classes are placed on D(first parameter) and the harness maps D(k) to VP k mod nb_vp); non-trivial = some "
            "instance defers at least once or some class has >= 3 startup instances; distinct = program text + again seed")
    trusted = ("tools/jdfgen.py, harness/ptg_driver.c + ptg_rt.h (seeded AGAIN, priority and startup-creation trace)",
               "checks/ptgval_common.py (SplitMix64 arithmetic of the harness recomputed by the oracle)")
    assumptions = ("bodies return DONE or AGAIN only; single process; C08 (scheduler conservation) for the step from the model's ready list "
                   "to the real schedulers, exercised by rotating all schedulers",
                   "priorities are int32 (C semantics of /10 towards zero)")

    def static_flags(self, prog):
        wf = jdfgen.wf(prog)
        return "wf=%d" % wf, bool(wf), (pv.Sem(prog) if wf else None)

    def head_cfgs(self, hd):
        w = hd.split()
        a, b = w[1].split(":")
        return w[2:], int(a), int(b)

    # ---- generation
    def cfgs_for(self, i, r, nthreads=(1, 2, 4, 16)):
        out = []
        for j in range(3):
            s = SCHEDULERS[(3 * i + j) % len(SCHEDULERS)]
            m = "@ia" if (i + j) % 2 else ""
            out.append("%s%s:%d:%d:%d" % (s, m, nthreads[(i + j) % len(nthreads)], r.pick([1, 1, 2, 3]), r.pick([1, 1, 2, 5, 7])))
        return out

    def vp_cfg(self, i, r):
        """one configuration with 2 or 3 virtual processes; startup parameters that keep the generator going after a flush"""
        s = SCHEDULERS[(5 * i + 1) % len(SCHEDULERS)]
        it, ch = r.pick([(3, 7), (2, 5), (64, 256), (2, 2), (1, 5), (1, 1)])
        return "%s%s@vp%d:-1:%d:%d" % (s, "@ia" if i % 2 else "", 2 + i % 2, it, ch)

    @staticmethod
    def spread(p):
        """place every class on D(<first parameter>): with several virtual processes the harness' vpid_of sends
        D(k) to VP k mod nb_vp, so consecutive instances go to different VPs (no effect with one VP)"""
        for c in p.classes:
            if c.params:
                c.place = [jdfgen.L(c.params[0])]
        return p

    def cases(self):
        r = self.rng
        n1, n2 = (9, 5) if self.tier == "quick" else (110, 50)
        if os.environ.get("VERIF_NCASES"):                      # development aid
            n1 = (int(os.environ["VERIF_NCASES"]) + 1) // 2
            n2 = int(os.environ["VERIF_NCASES"]) // 2
        out = []
        ts = list(jdfgen.TEMPLATES)
        for i in range(n1):
            p = self.spread(jdfgen.gen_program(r, ts[i % len(ts)] if i < len(ts) else None, max_inst=60))
            cf = self.cfgs_for(i, r) + ([self.vp_cfg(i, r)] if i % 3 == 0 else [])
            out.append("again %d:%d %s | %s" % (r.range(1, 10 ** 6), r.pick([1, 2, 3, 3]), " ".join(cf), jdfgen.to_case(p)))
        for i in range(n2):
            # independent tasks: every instance is a startup task; always one multi-VP configuration
            p = self.spread(jdfgen.gen_program(r, "keys", max_inst=80, allow_derived_param=False, allow_permuted=False))
            cf = self.cfgs_for(i + n1, r) + [self.vp_cfg(i + n1, r)]
            out.append("again %d:%d %s | %s" % (r.range(1, 10 ** 6), r.pick([0, 1, 2]), " ".join(cf), jdfgen.to_case(p)))
        return out

    def search_cases(self):
        r = self.rng
        out = []
        for i in range(6):
            p = jdfgen.gen_program(r, max_inst=60) if i % 2 else jdfgen.gen_program(r, "keys", max_inst=80, allow_derived_param=False, allow_permuted=False)
            cf = self.cfgs_for(i + 50, r) + [self.vp_cfg(i + 50, r)]
            out.append("again %d:3 %s | %s" % (r.range(1, 10 ** 6), " ".join(cf), jdfgen.to_case(self.spread(p))))
        return out

    def nontrivial_key(self, case):
        try:
            p = jdfgen.parse_case(case.split("|", 1)[1])
            seed, amax = head_again(case)
        except Exception:
            return None
        sem = pv.Sem(p)
        defers = any(pv.again_count(seed, amax, p.classes[t[0]].name, sem.env[t]) > 0 for t in sem.ids)
        big = any(sum(1 for t in sem.ids if t[0] == ci and not sem.pred[t]) >= 3 for ci in range(len(p.classes)))
        return (case.split("|", 1)[1], seed, amax) if (defers or big) else None

    # ---- observation
    def run_line(self, prog, sem, ents, info):
        name2ci = {c.name: i for i, c in enumerate(prog.classes)}
        per = {}
        for e in ents:
            per.setdefault((name2ci.get(e.cls, 99), e.params), []).append(e)
        items, marks = [], []
        for t in sorted(per):
            l = sorted(per[t], key=lambda e: e.begin)
            nm = "%s(%s)" % (l[0].cls, ",".join(str(v) for v in t[1]))
            items.append("%s %s" % (nm, ">".join(str(en_prio(e)) for e in l)))
            agains = [e.again for e in l]
            if agains.count(0) > 1:
                marks.append("!dup %s completed %d times" % (nm, agains.count(0)))
            elif agains.count(0) == 0:
                marks.append("!lost %s never completed (%d invocations)" % (nm, len(l)))
            elif agains[-1] != 0:
                marks.append("!late %s was invoked again after it completed" % nm)
            for a, b in zip(l, l[1:]):
                if not a.end < b.begin:
                    marks.append("!overlap two invocations of %s overlap" % nm)
                    break
        hb = hb_violation(prog, sem, ents)
        if hb:
            marks.append("!hb " + hb)
        su = sorted(info.get("startup") or [], key=lambda x: name2ci.get(x[0], 99))     # stable: creation order inside a class
        sutxt = " ".join("%s(%s)" % (c, ",".join(str(v) for v in ps)) for c, ps in su)
        return "%s | SU %s%s" % (" ; ".join(items), sutxt, "".join(" " + m for m in marks))

    def observation2(self, prog, sem, flags, hd, runs):
        per = [(cs, info["end"], self.run_line(prog, sem, ents, info)) for cs, ents, info in runs]
        # the rnd scheduler overwrites task->priority with rand() + distance every time a task is scheduled
        # (sched_rnd_module.c): its runs are compared on the NUMBER of invocations only
        def counts(line):
            return re.sub(r"(\S+\)) (-?\d+(?:>-?\d+)*)", lambda m: "%s x%d" % (m.group(1), m.group(2).count(">") + 1), line)
        full = [x for cs, _, x in per if split_cfg(cs)[1]["sched"] != "rnd"]
        if per and all(e == "rc=0" for _, e, _ in per) and len(set(full)) <= 1 and len({counts(x) for _, _, x in per}) == 1:
            return "%s | %s" % (flags, full[0] if full else counts(per[0][2]))
        return " || ".join("cfg=%s end=%s %s" % x for x in per)

    # ---- oracle: invocation count = k+1 per instance (k recomputed from the seed), successors after the final
    # invocation only, every instance completes once, every startup instance created exactly once
    def oracle(self, case, obs):
        try:
            prog = jdfgen.parse_case(case.split("|", 1)[1])
            seed, amax = head_again(case)
        except Exception as ex:
            return None if obs.startswith("<bad case") else "unparsable case: %s" % ex
        if obs.startswith("<ptgpp-rejected") or obs.startswith("<generated-C") or obs.startswith("<link-failed"):
            return None
        if obs.startswith("<"):
            return "no observation: " + obs[:120]
        if obs == "wf=0":
            return None
        sem = pv.Sem(prog)
        want = {pv.fmt_tid(prog, t): pv.again_count(seed, amax, prog.classes[t[0]].name, sem.env[t]) + 1 for t in sem.ids}
        startup = sorted(pv.fmt_tid(prog, t) for t in sem.ids if not sem.pred[t])
        chunks = obs.split(" || ") if obs.startswith("cfg=") else [obs]
        for ch in chunks:
            m = re.match(r"cfg=(\S+) end=(\S+) (.*)$", ch)
            if m:
                cfg, end, body = m.group(1), m.group(2), m.group(3)
            else:
                cfg, end = "all", "rc=0"
                body = ch.split(" | ", 1)[1] if " | " in ch else ""
            if end != "rc=0":
                return "[%s] run did not complete (%s)" % (cfg, end)
            mk = re.search(r" !(hb|dup|lost|late|overlap) (.*)$", body)
            if mk:
                return "[%s] %s: %s" % (cfg, {"hb": "a successor started before the final invocation of a predecessor",
                                              "dup": "instance completed more than once", "lost": "deferred instance was lost",
                                              "late": "instance re-run after completion", "overlap": "concurrent invocations of one instance"
                                              }[mk.group(1)], mk.group(2)[:200])
            parts = body.split(" | SU")
            got = {}
            for it in (parts[0].split(" ; ") if parts[0].strip() else []):
                w = it.split()
                if len(w) == 2:
                    got[w[0]] = len(w[1].split(">"))
            for nm in want:
                if nm not in got:
                    return "[%s] instance %s never ran" % (cfg, nm)
            for nm in got:
                if nm not in want:
                    return "[%s] %s ran but is not in the execution space" % (cfg, nm)
                if got[nm] != want[nm]:
                    return "[%s] the body of %s was invoked %d times; it returns AGAIN %d times, so %d invocations are required" % (
                        cfg, nm, got[nm], want[nm] - 1, want[nm])
            su = sorted((parts[1] if len(parts) > 1 else "").split())
            if su != startup:
                dup = [x for i, x in enumerate(su) if i and su[i - 1] == x]
                miss = [x for x in startup if x not in su]
                extra = [x for x in su if x not in startup]
                return "[%s] startup tasks created: %s" % (cfg, ("%s twice" % dup[0]) if dup else ("%s never" % miss[0]) if miss
                                                           else ("%s is not a startup instance" % extra[0]) if extra else "mismatch")
        return None

    def signature(self, case, obs):
        r = self.oracle(case, obs) or ""
        for k, pat in (("hang", "did not complete (timeout"), ("crash", "did not complete"), ("early-release", "before the final invocation"),
                       ("twice", "more than once"), ("lost", "was lost"), ("late", "after completion"), ("overlap", "concurrent invocations"),
                       ("count", "invocations are required"), ("startup", "startup tasks created"), ("missing", "never ran"),
                       ("extra", "not in the execution space"), ("noobs", "no observation")):
            if pat in r:
                return k
        return "other"

    def shrink(self, case, impl_line):
        why = self.oracle(case, impl_line) or ""
        m = re.match(r"\[([^\]]+)\]", why)
        if not m or m.group(1) == "all":
            return case, impl_line
        hd, pt = case.split("|", 1)
        w = hd.split()
        small = "%s %s %s |%s" % (w[0], w[1], m.group(1), pt)
        chunk = [c for c in impl_line.split(" || ") if c.startswith("cfg=%s " % m.group(1))]
        return small, (chunk[0] if chunk else impl_line)

    def dist(self, cases):
        d = {"programs": len(cases), "again_max": {}, "startup_iter": {}, "startup_chunk": {}, "schedulers": {}, "threads": {},
             "backends": {"ht": 0, "ia": 0}, "virtual_processes": {}, "instances": 0, "deferring_instances": 0, "again_returns": 0, "startup_instances": 0,
             "max_startup_per_class": 0}
        for c in cases:
            try:
                hd, pt = c.split("|", 1)
                p = jdfgen.parse_case(pt)
                seed, amax = head_again(c)
            except Exception:
                continue
            d["again_max"][str(amax)] = d["again_max"].get(str(amax), 0) + 1
            for cf in hd.split()[2:]:
                m, cfg = split_cfg(cf)
                d["backends"][m] += 1
                d["virtual_processes"][str(cfg["vp"] or 1)] = d["virtual_processes"].get(str(cfg["vp"] or 1), 0) + 1
                d["schedulers"][cfg["sched"]] = d["schedulers"].get(cfg["sched"], 0) + 1
                d["threads"][str(cfg["threads"])] = d["threads"].get(str(cfg["threads"]), 0) + 1
                d["startup_iter"][str(cfg["iter"])] = d["startup_iter"].get(str(cfg["iter"]), 0) + 1
                d["startup_chunk"][str(cfg["chunk"])] = d["startup_chunk"].get(str(cfg["chunk"]), 0) + 1
            sem = pv.Sem(p)
            d["instances"] += len(sem.ids)
            for t in sem.ids:
                k = pv.again_count(seed, amax, p.classes[t[0]].name, sem.env[t])
                d["deferring_instances"] += 1 if k else 0
                d["again_returns"] += k
            for ci in range(len(p.classes)):
                n = sum(1 for t in sem.ids if t[0] == ci and not sem.pred[t])
                d["startup_instances"] += n
                d["max_startup_per_class"] = max(d["max_startup_per_class"], n)
        return d
