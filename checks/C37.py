import os
from vcheck import Check


def _parse(case):
    """'sys n : toks' -> (n, [(rank|None, kind, arg)])"""
    head, toks = case.split(":", 1)
    n = int(head.split()[1])
    ev = []
    for t in toks.split():
        if t == "S":
            ev.append((None, "S", 0))
            continue
        i = 0
        while t[i].isdigit():
            i += 1
        ev.append((int(t[:i]), t[i], int(t[i + 1:])))
    return n, ev


def _in_discipline(n, ev):
    """callers' discipline: a pool gets its identifier once, before it is registered or
    unregistered; identifiers looked up are >= 1 (0 is never handed out)."""
    res = [set() for _ in range(n)]
    for r, k, a in ev:
        if k == "S":
            continue
        if r >= n:
            return False
        if k in "rh":
            if a in res[r]:
                return False
            res[r].add(a)
        elif k in "gu":
            if a not in res[r]:
                return False
        elif k == "l" and a < 1:
            return False
    return True


class C37(Check):
    id = "C37"
    prop_file = "theories/Properties/Properties_C37.v"
    theorems = ("C37_refines_finite_map", "C37_lookup_is_map", "C37_registered_resolves",
                "C37_unregistered_resolves_to_nothing", "C37_never_registered_is_null",
                "C37_growth_preserves_entries", "C37_reserved_ids_distinct", "C37_sync_common_next",
                "C37_sync_never_lowers_a_counter", "C37_stale_write_back_repeats_an_identifier",
                "C37_zero_is_not_an_identifier")
    comp = "tpids"
    extract_file = "theories/Extract/Extract_TpIds.v"
    extracted = ("tpids",)
    harness_src = "harness/h_tpids.c"
    link_parsec = True
    level_text = ("Theorems for every number of processes and every history of reserve/register/unregister/lookup events and "
                  "collective synchronisations that follows the callers' discipline (a pool receives its identifier once, before it "
                  "is registered or unregistered; identifiers looked up are >= 1): the model of taskpool_array (lazy allocation, "
                  "doubling growth with realloc + NOTASKPOOL fill, the lookup guard id <= pos, the while-doubling growth of the "
                  "synchronisation) is a trace refinement of one finite map id -> pool per process; a registered pool is found under "
                  "its identifier until it is unregistered, afterwards (and for identifiers never registered) the lookup is NULL, "
                  "growth changes no lookup; identifiers reserved by a process are strictly increasing (no discipline needed); after "
                  "the synchronisation every process hands out max+1, larger than every identifier handed out before. Full level "
                  "for the table logic. The model is tied to the code by running libparsec's exported functions in forked "
                  "processes (one per simulated rank) against the extracted model on generated histories.")
    level_note = ("Each operation is one critical section of taskpool_array_lock, so concurrent executions are the sequential "
                  "histories the theorems quantify over; the lock itself (parsec_atomic_lock) is assumed to exclude, and is "
                  "exercised by the 'conc' cases and by the helper-thread family (real threads; the synchronisation holds the lock across its collective, so a reservation attempted meanwhile is ordered after it: model prints H:after). uint32 wrap-around of the counters and the (int) casts of "
                  "the synchronisation are outside the model. The MPI collective is replaced in the harness by a pipe-based "
                  "maximum over the forked rank processes (MPI_Initialized/MPI_Allreduce defined by the harness executable). "
                  "Identifier 0 is outside the property (never handed out): the model says its lookup faults on a fresh table "
                  "and reads an uninitialised slot afterwards (C37_zero_is_not_an_identifier), the harness confirms.")
    technique = ("Coq proof (refinement of the array table to finite maps, invariants over all histories and process counts) + "
                 "differential run of libparsec's taskpool id functions against the extracted model")
    rule = ("'sys n : tokens': n in 1..4 forked processes run the global token list (reserve/register/unregister/lookup per "
            "rank, S = collective sync); generators: single-process lifecycles with 3..700 reservations (array growth at every "
            "power of two), lookups aimed at live, unregistered, reserved-only, boundary (2^k, 2^k +- 1) and beyond-the-counter "
            "identifiers; multi-process histories with different prior reservations, one to three synchronisations, "
            "reservations right after them; an out-of-discipline stream (identifier 0, unreserved pools, double reservation) "
            "compared with the model only; a helper-thread family (<r>h<p>: a second thread of process r reserves and "
            "registers pools while the main thread is inside the collective of the next synchronisation, released by the "
            "harness's MPI_Allreduce); 'conc T K': T threads reserve K identifiers concurrently. Non-trivial = at least "
            "three reservations on some process (growth) or a synchronisation between processes with different counters; "
            "distinct = distinct case text")
    trusted = ("harness/h_tpids.c: dummy calloc'd parsec_taskpool_t objects; forked child per simulated process; "
               "MPI_Allreduce(MAX)/MPI_Initialized stand-ins over pipes (the real sync code of parsec.c runs in every child)",)
    assumptions = ("fewer than 2^30 identifiers are reserved per process lifetime (uint32 counter / size wrap, (int) casts and the "
                   "msz <<= 1 loop of the synchronisation are not modelled beyond that)",
                   "parsec_atomic_lock provides mutual exclusion for the five critical sections",
                   "callers follow the discipline of parsec_taskpool_enable / generated destructors: register and unregister "
                   "only pools whose taskpool_id came from parsec_taskpool_reserve_id, never reset by parsec_fini in between")

    def correspond(self, cases, tag="cases"):
        """lib/vcheck.py names the case file <id>-<tag>-<seed>.txt: two runs of this check at the same time (another
        tier, another agent) overwrite each other's file between the harness run and the model run, and every
        observation after the first difference of the two files is misaligned.  The file gets a name of its own
        (tier + pid) and is removed when both sides agree on it."""
        import vcheck
        mytag = "%s-%s-%d" % (tag, self.tier, os.getpid())
        impl, model = super().correspond(cases, mytag)
        if impl == model:
            try:
                os.unlink(os.path.join(vcheck.CASES, "%s-%s-%d.txt" % (self.id, mytag, self.seed)))
            except OSError:
                pass
        return impl, model

    # ------------------------------------------------------------------ generator
    def _lifecycle(self, r, rank, npools, first_pool=1, lookups=2):
        """one process: every pool reserve -> register -> maybe unregister -> maybe register again,
        interleaved at random, lookups in between"""
        state = {}      # pool -> stage
        nxt = first_pool
        live = []
        toks = []
        idguess = [0]   # identifiers handed out so far on this rank are 1..idguess (when no sync)

        def look():
            hi = max(1, idguess[0])
            k = r.below(6)
            if k == 0:
                i = r.range(1, hi)
            elif k == 1:
                i = hi + r.range(0, 3)
            elif k == 2:
                p2 = 1 << r.range(0, max(1, hi.bit_length()))
                i = max(1, p2 + r.range(-1, 1))
            elif k == 3:
                i = hi
            elif k == 4:
                i = r.range(hi + 1, 2 * hi + 40)
            else:
                i = r.range(1, hi + 1)
            toks.append("%dl%d" % (rank, i))

        while nxt < first_pool + npools or live:
            c = r.below(10)
            if (c < 4 or not live) and nxt < first_pool + npools:
                toks.append("%dr%d" % (rank, nxt))
                state[nxt] = 0
                live.append(nxt)
                nxt += 1
                idguess[0] += 1
            elif live:
                p = r.pick(live)
                st = state[p]
                if st == 0:
                    if r.chance(1, 8):
                        live.remove(p)          # reserved, never registered
                    else:
                        toks.append("%dg%d" % (rank, p))
                        state[p] = 1
                elif st == 1:
                    if r.chance(1, 6):
                        live.remove(p)          # stays registered
                    else:
                        toks.append("%du%d" % (rank, p))
                        state[p] = 2
                else:
                    if r.chance(1, 4):
                        toks.append("%dg%d" % (rank, p))
                        state[p] = 1
                    else:
                        live.remove(p)
            for _ in range(r.below(lookups + 1)):
                look()
        return toks

    def _dump(self, rank, hi):
        return ["%dl%d" % (rank, i) for i in range(1, hi + 1)]

    def cases(self):
        r = self.rng
        q = self.tier == "quick"
        out = []
        # directed: growth at every power of two with everything registered, then a full dump
        for np_ in (1, 2, 3, 4, 5, 7, 8, 9, 15, 16, 17, 31, 32, 33, 63, 64, 65, 127, 128, 129, 255, 256, 257, 511, 512, 513):
            toks = []
            for p in range(1, np_ + 1):
                toks += ["0r%d" % p, "0g%d" % p]
            toks += self._dump(0, np_ + 3)
            out.append("sys 1 : " + " ".join(toks))
            # register late: all reservations (growth) after some registrations
            toks = []
            for p in range(1, np_ + 1):
                toks.append("0r%d" % p)
                if p % 2:
                    toks.append("0g%d" % p)
            for p in range(1, np_ + 1):
                if p % 3 == 0:
                    toks.append("0u%d" % p)
            toks += self._dump(0, np_ + 2)
            out.append("sys 1 : " + " ".join(toks))
        # random single-process lifecycles
        for _ in range(250 if q else 4000):
            np_ = r.pick([r.range(1, 6), r.range(3, 20), r.range(10, 70), r.range(30, 140)])
            toks = self._lifecycle(r, 0, np_)
            toks += self._dump(0, min(np_ + 2, 40)) if r.chance(1, 2) else []
            out.append("sys 1 : " + " ".join(toks))
        for _ in range(6 if q else 60):
            np_ = r.range(200, 700)
            toks = self._lifecycle(r, 0, np_, lookups=1)
            out.append("sys 1 : " + " ".join(toks))
        # several processes with different prior histories, synchronisations, reservations after them
        for _ in range(250 if q else 4000):
            n = r.range(2, 4)
            toks = []
            base = [1] * n
            rounds = r.range(1, 3)
            for _round in range(rounds):
                segs = []
                for k in range(n):
                    np_ = r.pick([0, 0, r.range(1, 4), r.range(1, 20), r.range(5, 90)])
                    segs.append(self._lifecycle(r, k, np_, first_pool=base[k], lookups=1))
                    base[k] += np_
                # interleave the processes' segments
                idx = [0] * n
                while any(idx[k] < len(segs[k]) for k in range(n)):
                    k = r.below(n)
                    if idx[k] < len(segs[k]):
                        toks.append(segs[k][idx[k]])
                        idx[k] += 1
                toks.append("S")
                order = r.shuffle(range(n))
                for k in order:
                    if r.chance(5, 6):
                        toks.append("%dr%d" % (k, base[k]))
                        if r.chance(1, 2):
                            toks.append("%dg%d" % (k, base[k]))
                        base[k] += 1
                for k in range(n):
                    for _ in range(r.below(4)):
                        toks.append("%dl%d" % (k, r.range(1, max(2, max(base)) + 3)))
            if r.chance(1, 3):
                for k in range(n):
                    toks += self._dump(k, min(max(base) + 2, 30))
            out.append("sys %d : %s" % (n, " ".join(toks)))
        # directed synchronisation growth: one process far ahead (its size forces the while-doubling elsewhere)
        for ahead in (1, 2, 3, 4, 7, 8, 9, 31, 32, 33, 100, 255, 256, 300):
            for behind in (0, 1, 2, 3, 5):
                toks = ["0r%d" % p for p in range(1, ahead + 1)]
                for p in range(1, behind + 1):
                    toks += ["1r%d" % p, "1g%d" % p]
                toks += ["S", "1l%d" % max(1, ahead), "0r9000", "1r9000", "1g9000", "0g9000"]
                toks += self._dump(1, behind + 2) + ["1l%d" % (ahead + 1), "0l%d" % (ahead + 1), "1l%d" % ahead]
                toks += ["S", "1r9001", "0r9001"]
                out.append("sys 2 : " + " ".join(toks))
        # a second thread of the process reserves and registers pools while the main thread is inside the
        # collective of the synchronisation (the harness's MPI_Allreduce releases it and waits 25 ms)
        for _ in range(24 if q else 200):
            n = r.range(1, 3)
            toks = []
            base = [1] * n
            for _round in range(r.range(1, 2)):
                for k in range(n):
                    np_ = r.pick([0, 1, 2, 3, 5, 9, r.range(1, 20)])
                    toks += self._lifecycle(r, k, np_, first_pool=base[k], lookups=0)
                    base[k] += np_
                hs = [k for k in range(n) if r.chance(2, 3)] or [r.below(n)]
                hbase = 5000 + 100 * _round
                for k in hs:
                    for j in range(r.range(1, 3)):
                        toks.append("%dh%d" % (k, hbase + j))
                toks.append("S")
                for k in r.shuffle(range(n)):
                    for _j in range(r.range(1, 3)):
                        toks += ["%dr%d" % (k, base[k]), "%dg%d" % (k, base[k])]
                        base[k] += 1
                for k in range(n):
                    toks += self._dump(k, min(max(base) + 6, 40))
            out.append("sys %d : %s" % (n, " ".join(toks)))
        # out of the discipline (compared with the model only): identifier 0, unreserved pools, double reservation
        mal = ["sys 1 : 0l0", "sys 1 : 0l1 0l0", "sys 1 : 0r1 0l0 0l1", "sys 1 : 0u1", "sys 1 : 0g1 0l0 0l1",
               "sys 1 : 0g1 0u1 0l0", "sys 1 : 0r1 0g2 0l0 0u2 0l0 0l1", "sys 1 : 0r1 0r1 0g1 0l1 0l2 0u1 0l2",
               "sys 2 : 0r1 S 1l0 0l0", "sys 2 : 1l0 0r1 S 0r2", "sys 2 : 0r1 0r2 0r3 1u5 S 0r4 0l0",
               "sys 1 : S 0l0", "sys 1 : S S 0r1 0g1 0l1 0l0", "sys 3 : S 0r1 1r1 2r1 S 2l0"]
        out += mal
        for _ in range(30 if q else 300):
            toks = self._lifecycle(r, 0, r.range(1, 12))
            for _ in range(r.range(1, 3)):
                pos = r.below(len(toks) + 1)
                toks.insert(pos, r.pick(["0l0", "0g%d" % r.range(50, 60), "0r%d" % r.range(1, 3), "0u%d" % r.range(50, 60)]))
            out.append("sys 1 : " + " ".join(toks))
        # real threads
        for t, k in ((2, 50), (4, 200), (8, 400), (16, 100), (3, 1000)):
            out.append("conc %d %d" % (t, k))
        for _ in range(3 if q else 30):
            out.append("conc %d %d" % (r.range(2, 16), r.range(10, 500)))
        return out

    def nontrivial_key(self, case):
        if case.startswith("conc"):
            return case
        n, ev = _parse(case)
        cnt = [0] * n
        for rk, k, a in ev:
            if k in "rh" and rk < n:
                cnt[rk] += 1
        if max(cnt) >= 3 or (n > 1 and any(k == "S" for _, k, _ in ev) and len(set(cnt)) > 1):
            return case
        return None

    def dist(self, cases):
        sysc = [c for c in cases if c.startswith("sys")]
        d = {"sys": len(sysc), "conc": len(cases) - len(sysc), "by_processes": {}, "out_of_discipline": 0,
             "max_reservations_one_process": 0, "with_sync": 0, "events": 0}
        for c in sysc:
            n, ev = _parse(c)
            d["by_processes"][str(n)] = d["by_processes"].get(str(n), 0) + 1
            d["events"] += len(ev)
            if not _in_discipline(n, ev):
                d["out_of_discipline"] += 1
            if any(k == "S" for _, k, _ in ev):
                d["with_sync"] += 1
            cnt = [0] * n
            for rk, k, a in ev:
                if k == "r" and rk < n:
                    cnt[rk] += 1
            d["max_reservations_one_process"] = max(d["max_reservations_one_process"], max(cnt))
        return d

    # ------------------------------------------------------------------ oracle
    def oracle(self, case, obs):
        """the property on the implementation's observation alone: finite map per process"""
        if case.startswith("conc"):
            w = dict(x.split("=") for x in obs.split()[1:] if "=" in x)
            if "n" not in w:
                return "conc-crash: concurrent reservations did not complete: " + obs[:60]
            if w["n"] != w["distinct"]:
                return "conc-dup: %s concurrent reservations produced only %s distinct identifiers" % (w["n"], w["distinct"])
            return None
        n, ev = _parse(case)
        if not _in_discipline(n, ev):
            return None
        per = {}
        for part in obs.split("|"):
            part = part.strip()
            if ":" not in part or not part.startswith("r"):
                return "crash: unparsable observation: " + obs[:80]
            h, t = part.split(":", 1)
            per[int(h[1:])] = t.split()
        idof = [dict() for _ in range(n)]
        tab = [dict() for _ in range(n)]
        last = [0] * n
        ptr = [0] * n
        pending = [None] * n       # synchronisation epoch whose first reservation is still to come
        first = {}                 # epoch -> identifier handed out first after it
        epoch = 0

        def nexttok(rk):
            toks = per.get(rk, [])
            if ptr[rk] >= len(toks):
                return None
            ptr[rk] += 1
            return toks[ptr[rk] - 1]

        helper = [[] for _ in range(n)]   # pools a second thread reserves + registers during the next collective

        def reserved(rk, a, i, counts_for_sync):
            if i <= last[rk] or i < 1:
                return "reserve-dup: process %d was handed identifier %d after %d" % (rk, i, last[rk])
            last[rk] = i
            idof[rk][a] = i
            if counts_for_sync and pending[rk] is not None:
                e = pending[rk]
                pending[rk] = None
                if e in first and first[e] != i:
                    return "sync-mismatch: after synchronisation %d processes hand out %d and %d" % (e, first[e], i)
                first.setdefault(e, i)
            return None

        def registered(rk, a, t):
            if t != "g%d" % idof[rk][a]:
                return "register-id: pool %d registered under %s, its identifier is %d" % (a, t, idof[rk][a])
            other = tab[rk].get(idof[rk][a])
            if other is not None and other != a:
                return "register-clobber: process %d registers pool %d under identifier %d, where pool %d is registered" % (
                    rk, a, idof[rk][a], other)
            tab[rk][idof[rk][a]] = a
            return None

        for rk, k, a in ev:
            if k == "h":
                helper[rk].append(a)
                continue
            if k == "S":
                epoch += 1
                for q in range(n):
                    t = nexttok(q)
                    if t != "S":
                        return "crash: process %d did not complete synchronisation %d (%s)" % (q, epoch, t)
                    pending[q] = epoch
                for q in range(n):
                    if not helper[q]:
                        continue
                    mark = nexttok(q)
                    if mark not in ("H:in", "H:after"):
                        return "crash: the helper thread of process %d did not report (%s)" % (q, mark)
                    for a2 in helper[q]:
                        t = nexttok(q)
                        if t is None or not t.startswith("i"):
                            return "crash: bad reservation answer of the helper thread: %s" % t
                        # a reservation made inside the collective is concurrent with the sync, not "after" it
                        why = reserved(q, a2, int(t[1:]), mark == "H:after")
                        if why:
                            return why
                        why = registered(q, a2, nexttok(q))
                        if why:
                            return why
                    helper[q] = []
                continue
            t = nexttok(rk)
            if t is None or t == "CRASH" or t.startswith("<"):
                return "crash: process %d died or stopped at %d%s%d (%s)" % (rk, rk, k, a, t)
            if k == "r":
                if not t.startswith("i"):
                    return "crash: bad reservation answer " + t
                why = reserved(rk, a, int(t[1:]), True)
                if why:
                    return why
            elif k == "g":
                why = registered(rk, a, t)
                if why:
                    return why
            elif k == "u":
                if t != "u":
                    return "crash: bad unregister answer " + t
                was = tab[rk].pop(idof[rk][a], None)
            elif k == "l":
                want = tab[rk].get(a)
                wt = "-" if want is None else "p%d" % want
                if t != wt:
                    if want is not None:
                        return "lookup-registered: process %d lookup(%d) = %s, pool %d is registered there" % (rk, a, t, want)
                    if a in idof[rk].values():
                        return "lookup-unregistered: process %d lookup(%d) = %s, nothing is registered there" % (rk, a, t)
                    return "lookup-never: process %d lookup(%d) = %s, the identifier was never handed out" % (rk, a, t)
        return None

    def signature(self, case, obs):
        r = self.oracle(case, obs)
        return (r or "none").split(":")[0]

    def search_cases(self):
        out = []
        for np_ in range(1, 70):
            toks = []
            for p in range(1, np_ + 1):
                toks += ["0r%d" % p, "0g%d" % p] + self._dump(0, p + 1)
            out.append("sys 1 : " + " ".join(toks))
        for a in range(0, 12):
            for b in range(0, 12):
                toks = ["0r%d" % p for p in range(1, a + 1)] + ["0g%d" % p for p in range(1, a + 1)]
                toks += ["1r%d" % p for p in range(1, b + 1)] + ["1g%d" % p for p in range(1, b + 1)]
                toks += ["S", "0r99", "1r99", "0g99", "1g99"] + self._dump(0, a + 2) + self._dump(1, b + 2)
                out.append("sys 2 : " + " ".join(toks))
        return out
