import os
import re

from vcheck import Check


def _esc(s):
    return s.replace("\\", "\\\\").replace("\n", "\\n").replace("\t", "\\t")


def _unesc(s):
    out, i = [], 0
    while i < len(s):
        if s[i] == "\\" and i + 1 < len(s):
            i += 1
            out.append({"n": "\n", "t": "\t"}.get(s[i], s[i]))
        else:
            out.append(s[i])
        i += 1
    return "".join(out)


def _parse_set(txt):
    """hwloc list syntax -> (set of ints, infinite?)"""
    if txt in ("", "null"):
        return set(), False
    cores, inf = set(), False
    for part in txt.split(","):
        if part.endswith("-"):
            inf = True
            cores.add(int(part[:-1]))
        elif "-" in part:
            a, b = part.split("-")
            cores.update(range(int(a), int(b) + 1))
        else:
            cores.add(int(part))
    return cores, inf


def _parse_map(obs):
    """'vps=N total=T | k: [c,h,set] ...' -> (N, T, [[(nbcores, ht, settext)]]) or None"""
    m = re.match(r"vps=(-?\d+) total=(-?\d+)", obs)
    if not m:
        return None
    vps = []
    for part in obs.split("|")[1:]:
        part = part.strip()
        k, _, rest = part.partition(":")
        ths = re.findall(r"\[(-?\d+),(-?\d+),([^\]]*)\]", rest)
        vps.append((int(k), [(int(a), int(b), c) for a, b, c in ths]))
    return int(m.group(1)), int(m.group(2)), vps


def _valid_map(mp, R, want_vps=None, want_threads=None, check_bind=True, nonempty=False):
    """a map as the property promises it; returns None or the reason"""
    if mp is None:
        return "no map"
    n, tot, vps = mp
    if n < 1 or len(vps) != n:
        return "%d virtual processes" % n
    if want_vps is not None and n != want_vps:
        return "%d virtual processes, %d requested" % (n, want_vps)
    cnt = 0
    for v, (k, ths) in enumerate(vps):
        if k < 1 or k != len(ths):
            return "virtual process %d has %d threads" % (v, k)
        if want_threads is not None and k != want_threads[v]:
            return "virtual process %d has %d threads, %d requested" % (v, k, want_threads[v])
        cnt += k
        if check_bind:
            for t, (nc, ht, st) in enumerate(ths):
                cores, inf = _parse_set(st)
                if cores == {4294967295}:
                    continue            # the code's "not bound" marker
                if inf or any(c < 0 or c >= R for c in cores):
                    return "thread %d of virtual process %d may be bound on {%s}, outside the %d available cores" % (t, v, st, R)
                if nonempty and not cores:
                    return "thread %d of virtual process %d is offered no core" % (t, v)
    if tot != cnt:
        return "total thread count %d, the virtual processes have %d" % (tot, cnt)
    return None


_INT = re.compile(r"\s*([+-]?\d+)")


def _rr_fields(spec):
    """the documented rr:n:p:c syntax -> (n, p, c) or None"""
    m = re.match(r"rr:\s*([+-]?\d+):\s*([+-]?\d+):\s*([+-]?\d+)", spec)
    return tuple(int(x) for x in m.groups()) if m else None


def _c_int(txt):
    """strtol(txt, 0): decimal, 0octal, 0xhex"""
    t = txt.strip()
    sg = -1 if t.startswith("-") else 1
    t = t.lstrip("+-")
    try:
        if t[:2].lower() == "0x":
            return sg * int(t[2:], 16)
        if t.startswith("0") and len(t) > 1:
            return sg * int(t, 8)
        return sg * int(t, 10)
    except ValueError:
        return 0


def _strip_display(spec):
    return spec[8:] if spec.startswith("display:") else spec


def _file_vps(content):
    """the documented file syntax: [mpi_rank]:nb_thread:binding, one virtual process per line that
    applies to this process (rank 0 or no rank); returns the requested thread counts"""
    want = []
    for line in content.split("\n"):
        m = re.match(r"\s*([+-]?\d*)\s*:\s*(\d+)\s*(:.*)?$", line)
        if not m:
            continue
        rk = m.group(1)
        if rk != "" and _c_int(rk) != 0:
            continue
        if int(m.group(2)) >= 1:
            want.append(int(m.group(2)))
    return want


class C40(Check):
    id = "C40"
    prop_file = "theories/Properties/Properties_C40.v"
    theorems = ("C40_flat_map", "C40_flat_bindings_in_range", "C40_flat_bindings_disjoint", "C40_flat_bindings_inside_cpuset", "C40_select_core_allowed_or_unbound",
                "C40_flat_bindings_never_escape", "C40_hwloc_map",
                "C40_flat_strings",
                "C40_malformed_falls_back_to_flat", "C40_unreadable_file_falls_back_to_flat",
                "C40_rr_refuted", "C40_rr_never_a_map", "C40_file_refuted", "C40_file_never_a_map",
                "C40_binding_counts", "C40_binding_range_in_range", "C40_binding_list_in_range",
                "C40_binding_mask_refuted", "C40_binding_list_overrun_refuted")
    comp = "vpmap"
    extract_file = "theories/Extract/Extract_VpMap.v"
    extracted = ("vpmap",)
    harness_src = "harness/h_vpmap.c"
    link_parsec = True
    harness_ldflags = ("-ldl",)
    level_text = ("Executable model of parsec_vpmap_init (dispatcher on the runtime_vpmap string), parsec_vpmap_init_from_flat, "
                  "_from_parameters (rr), _from_file and the three binding syntaxes of parse_binding_parameter over an abstract core "
                  "count R. Proved for every input: flat maps (NULL, flat..., and every string that is none of the documented "
                  "syntaxes, unparsable rr, unreadable file) give one VP with the requested threads, bindings pairwise disjoint and "
                  "inside [0,R) when 1 <= threads <= R, and -- through the model of parsec_find_core_by_idx / "
                  "parsec_select_vpmap_thread_core -- bound to cores of the process cpuset for any finite cpuset; counts of the binding syntaxes match the request and range/list bindings are "
                  "in range. Refuted (the code does not implement what is documented; witnesses replayed on the real code in a forked "
                  "child): rr:n:p:c with n >= 1 always crashes (stub, NULL map), every readable file: map either crashes (at least one "
                  "line applies to the process) or yields zero VPs; a mask can bind outside the cores. The hwloc map (one VP per socket) is "
                  "modelled over the list of socket sizes hwloc reports and proved: one VP per socket that receives a thread, no empty "
                  "VP, thread total = min(request, cores), VP v on the first cores of socket v; tied to the code on synthetic "
                  "topologies (HWLOC_SYNTHETIC pack:S core:C pu:1, S 2..4, C 1..4) for every requested count. Partial only in that "
                  "hwloc itself (topology discovery, binding) is assumed.")
    level_note = ("Trusted: harness defines parsec_hwloc_nb_real_cores (R is a case parameter), includes vpmap.c to reach the static "
                  "binding parser, perturbs malloc'd memory and paints the stack so that uninitialised reads fault deterministically; "
                  "hwloc bitmap primitives are modelled as finite sets / 'everything from 0'. parsec_hwloc_get_ht() is 1 in this "
                  "tree. strtol/strtod/sscanf are modelled for int-sized inputs; (int)strtod for integer syntax only.")
    technique = ("Coq proof (characterisation of the parser's outcomes for all strings / files / core counts; refutation "
                 "witnesses) + differential run of vpmap.c against the extracted model in forked children")
    rule = ("init R sing nb spec: generated spec strings (NULL, flat family, display variants, near-miss keywords, random strings "
            "over the syntax alphabet, rr with signs/blanks/missing fields), R in 1..64, requested threads around R, singlify "
            "-1/0/1; file: generated map files (rank-prefixed, colon-initial, malformed and blank lines, octal/hex ranks, with and "
            "without final newline); nofile; bind R nbth binding: the three binding syntaxes called directly (lists with ranges, "
            "start;end;step with missing/invalid parts, masks around bit R); pinit: the user path through parsec_init with "
            "PARSEC_MCA_runtime_vpmap; cinit nb sing cpus: the same path in a child restricted by sched_setaffinity to a cpuset with "
            "holes (single-cpu holes, wide holes, several holes, first cpu not 0), observing es->core_id and the real affinity "
            "of every thread, also oversubscribed (runtime_num_cores 1.5x / 2x the allowed cores, singlify >0 and -1) on "
            "cpusets that are not a prefix of the machine; hw S C nb sing / phw S C nb: the hwloc map on synthetic S-socket x C-core machines, every nb in "
            "1..S*C+2, directly and through parsec_init. Non-trivial = everything except the plain 'flat'/NULL strings; distinct = distinct case text")
    trusted = ("harness/h_vpmap.c (see level_note); glibc prints '(null)' for a NULL %s argument (part of the modelled behaviour)",)
    assumptions = ("one processing unit per core and cpu numbers = core numbers on the test machine (cinit cases are generated only "
                   "when cpus 0..7 are available)",
                   "hwloc supplies the number of binding resources R >= 1 and its bitmap primitives behave as sets; hwloc's socket/core counts are inputs of the hwloc-map model; "
                   "the later consumption of the masks by parsec.c (selection of one allowed core) are outside the model",
                   "the process is MPI rank 0; lines of a map file are shorter than getline's initial buffer (120 bytes)",
                   "numbers in specifications fit an int; thread counts in files use integer syntax")

    def correspond(self, cases, tag="cases"):
        """lib/vcheck.py names the case file <id>-<tag>-<seed>.txt: two runs of this check at the same time (another
        tier, another agent) overwrite each other's file between the harness run and the model run, and every
        observation after the first difference of the two files is misaligned.  The file gets a name of its own
        (tier + pid) and is removed when both sides agree on it."""
        import vcheck
        mytag = "%s-%s-%d" % (tag, self.tier, os.getpid())
        impl, model = super().correspond(cases, mytag)
        if impl == model:
            try:
                os.unlink(os.path.join(vcheck.CASES, "%s-%s-%d.txt" % (self.id, mytag, self.seed)))
            except OSError:
                pass
        return impl, model

    # ------------------------------------------------------------------ generators
    ALPHA = "0123456789:;,-x flatr"

    def _garbage(self, r):
        k = r.below(7)
        if k == 0:
            return r.pick(["", "fla", "Flat", "FLAT", "rr", "rr:", "rr:1", "rr:1:2", "rr:a:b:c", "rr::1:1", "file", "FILE:x", "hwlo",
                           "display", "display:", "displayflat", "display flat", "display:display:flat", "display:fla", "rr:1:2:x",
                           "rr:1;2;3", " flat", "\tflat", "round-robin", "0", "-1", ":", "::", "r:1:1:1", "rr :1:1:1"])
        if k == 1:
            return "".join(r.pick(self.ALPHA) for _ in range(r.range(1, 12)))
        if k == 2:
            return "".join(r.pick("abcdefghijklmnopqrstuvwxyz:") for _ in range(r.range(1, 10)))
        if k == 3:
            return "flat" + "".join(r.pick(self.ALPHA) for _ in range(r.below(6)))
        if k == 4:
            return "display:" + r.pick(["flat", "flat2", "", "x", "fil", "rr:", "rr:1:1"])
        if k == 5:
            return "rr:" + "".join(r.pick("0123456789: -+a") for _ in range(r.range(0, 8)))
        return r.pick(["fl", "f", "rr:1:", "rr:+", "rr:-", "rr: ", "hwlo:c", "fi:le"])

    def _ok_garbage(self, s):
        t = _strip_display(s)
        return not t.startswith("hwloc") and not t.startswith("file:") and "\n" not in s

    def _rr(self, r):
        n, p, c = r.pick([-3, -2, -1, 0, 1, 1, 2, 2, 3, 4, 8]), r.pick([-1, 0, 1, 2, 3, 4]), r.pick([0, 1, 2, 4, 8, 16, 64])
        k = r.below(8)
        if k == 0:
            return "rr:%d:%d:%d" % (n, p, c)
        if k == 1:
            return "rr: %d: %d: %d" % (n, p, c)
        if k == 2:
            return "rr:%d:%d:%dxyz" % (n, p, c)
        if k == 3:
            return "rr:+%d:%d:%d" % (abs(n), p, c)
        if k == 4:
            return "display:rr:%d:%d:%d" % (n, p, c)
        if k == 5:
            return "rr:%d :%d:%d" % (n, p, c)        # blank before ':' breaks the match
        if k == 6:
            return "rr:%d:%d" % (n, p)
        return "rr:%d:%d:%d:%d" % (n, p, c, r.below(9))

    def _list_binding(self, r, R, nbth, allow_short):
        """core list; never makes the code store past core_tab (a range right after the entry that fills the table)"""
        items, cnt = [], 0
        want = nbth if not allow_short else r.range(max(1, nbth - 1), nbth)
        guard = 0
        while cnt < want and guard < 200:
            guard += 1
            k = r.below(10)
            if k < 5:
                a = r.below(R)
                items.append(r.pick(["%d", "%d", " %d", "+%d"]) % a)
                cnt += 1
            elif k < 8:
                a = r.below(R)
                b = a + r.range(0, 4)
                if cnt + 1 >= nbth:          # a fills the last slot: a range here would overrun core_tab
                    items.append("%d" % a)
                    cnt += 1
                else:
                    items.append("%d-%d" % (a, b))
                    cnt += 1 + max(0, min(b, R - 1) - a)
            elif k == 8:
                items.append(str(R + r.below(5)))     # not valid: skipped with a warning
            else:
                items.append(r.pick(["", "a", "-", "1a"]))
                if items[-1] in ("", "a"):
                    cnt += 1                           # strtol gives 0, a valid core
                elif items[-1] == "1a":
                    cnt += 1 if R > 1 else 0
                else:
                    # "-": strtol parses nothing -> 0 valid, then a '-' range with next_arg 0: nothing more
                    if cnt + 1 >= nbth:
                        items[-1] = "0"
                    cnt += 1
        if r.chance(1, 5):
            items += ["%d" % r.below(R) for _ in range(r.below(4))]
        return ",".join(items) + r.pick(["", "", "", ","])

    def _range_binding(self, r, R):
        def val():
            return r.pick([str(r.below(R)), str(r.below(R)), str(R), str(R + 3), "-1", "", "a", "0", str(R - 1), " %d" % r.below(R)])
        k = r.below(8)
        if k == 0:
            return "%s;%s;%s" % (val(), val(), val())
        if k == 1:
            return "%s;%s" % (val(), val())
        if k == 2:
            return "%s;" % val()
        if k == 3:
            return ";"
        if k == 4:
            return ";;%s" % val()
        if k == 5:
            return "%s;;%s" % (val(), val())
        if k == 6:
            a = r.below(R)
            b = r.range(a, R - 1)
            return "%d;%d;%d" % (a, b, r.range(0, max(1, b - a + 1)))
        return "%s;%s;%s;%s" % (val(), val(), val(), val())

    def _mask_binding(self, r, R, fatal_ok=True):
        k = r.below(10)
        if k == 0:
            m = 1 << R                         # the off-by-one of "core > nb_real_cores"
        elif k == 1:
            m = (1 << min(63, R + r.range(1, 5)))
        elif k == 2:
            m = (1 << r.below(R)) | (1 << min(63, R)) | (1 << min(63, R + 2))
        elif k == 3:
            m = (1 << 63) | r.below(1 << min(R, 30))
        elif k == 4 and fatal_ok:
            return r.pick(["0x0", "x", "0x", "0xg", "x0", "0x 0"])
        else:
            m = r.range(1, (1 << min(R, 40)) - 1) if R > 0 else 1
        pre = r.pick(["0x", "0x", "x", "0x0x", "abx", "0x00"])
        return pre + ("%x" % m if r.chance(3, 4) else "%X" % m) + r.pick(["", "", "", "zz", ",1"])

    def _binding(self, r, R, nbth, fatal_ok=True):
        k = r.below(3)
        if k == 0:
            return self._list_binding(r, R, nbth, False)
        if k == 1:
            return self._range_binding(r, R)
        return self._mask_binding(r, R, fatal_ok)

    def _file_content(self, r, R):
        lines = []
        for _ in range(r.pick([0, 1, 1, 1, 2, 2, 3, 4, 6])):
            k = r.below(12)
            nbth = r.range(1, 5)
            if k < 4:
                rank = r.pick(["0", "0", "0", "00", "0x0", "+0", "-0", " 0", "abc", "1", "2", "7", "0x1", "010", "-1"])
                lines.append("%s:%d:%s" % (rank, nbth, self._binding(r, R, nbth, fatal_ok=False)))
            elif k < 7:
                lines.append(":%d:%s" % (nbth, self._binding(r, R, nbth, fatal_ok=False)))
            elif k == 7:
                lines.append("0:%d" % nbth)
            elif k == 8:
                lines.append(r.pick(["", "hello", "no colon here", "#comment", "   "]))
            elif k == 9:
                lines.append(r.pick(["0:", ":", "::", "0::", ":0:", "0:0:0", "0:-2:1", "1:", "0:x:1"]))
            elif k == 10:
                lines.append("0:%d:%s" % (nbth, r.pick(["0x0", "x"])))      # empty mask: parsec_fatal
            else:
                lines.append("%d:%d:%s" % (r.range(1, 3), nbth, self._binding(r, R, nbth, fatal_ok=False)))
        txt = "\n".join(lines)
        if lines and r.chance(4, 5):
            txt += "\n"
        return txt

    def cases(self):
        r = self.rng
        q = self.tier == "quick"
        out = []
        # --- flat family, exhaustive small box: every R, every thread count up to R + 2, the three singlify modes
        for R in range(1, 7 if q else 17):
            for nb in list(range(1, R + 3)) + [-1]:
                for sing in (-1, 0, 1):
                    out.append("init %d %d %d %s" % (R, sing, nb, r.pick(["NULL", "S:flat", "S:", "S:display:flat"])))
        out.append("init 16 0 0 S:flat")           # division by zero (not reachable through parsec_init)
        for _ in range(160 if q else 4000):
            R = r.pick([1, 2, 3, 4, 7, 8, 15, 16, 17, 32, 63, 64, r.range(1, 64)])
            nb = r.pick([1, R, max(1, R - 1), max(1, R // 2), r.range(1, R), r.range(1, R), R + r.range(1, 3), -1])
            sing = r.pick([0, 0, 0, -1, 1, 2])
            k = r.below(10)
            if k < 6:
                s = self._garbage(r)
                if not self._ok_garbage(s):
                    s = "flat"
                out.append("init %d %d %d S:%s" % (R, sing, nb, s))
            else:
                out.append("init %d %d %d S:%s" % (R, sing, nb, self._rr(r)))
        # --- files
        for c in ("", ":2:0,1\n", "0:2:0,1\n", "0:2:0,1\n0:3:2-4\n", "1:2:0,1\n:3:2-4\n", "1:2:0\n", "hello\n", "\n\n",
                  "0:2:0,1", "0:1:0\n0:1:1\n0:1:2\n", ":1:0\n:1:1\n", "1:1:0\n2:1:1\n", "0:2:0x0\n0:2:0x0\n"):
            out.append("file 16 0 4 plain " + _esc(c))
        for _ in range(120 if q else 3000):
            R = r.pick([4, 8, 16, r.range(1, 64)])
            out.append("file %d %d %d %s %s" % (R, r.pick([0, 0, -1, 1]), r.range(1, R), r.pick(["plain", "plain", "display"]),
                                               _esc(self._file_content(r, R))))
        for _ in range(6 if q else 40):
            R = r.range(1, 64)
            out.append("nofile %d %d %d" % (R, r.pick([0, -1, 1]), r.range(1, R)))
        # --- the binding syntaxes, called directly
        for R, nbth, b in ((16, 4, "0,1,2,3"), (16, 4, "0-7"), (16, 3, "1;7;2"), (16, 8, "1;7;2"), (16, 12, "1;7;2"), (16, 4, "0xf0"),
                           (16, 4, "0x30000"), (16, 3, "0x10000"), (4, 3, "0x10"), (16, 2, "x0"), (16, 5, ";"), (16, 5, ";;"),
                           (16, 20, ";;"), (16, 20, "2;5;0"), (16, 6, "4;2;1"), (8, 3, "7,8,9,1"), (8, 3, "a"), (8, 2, "0XFF"),
                           (16, 2, "5"), (16, 3, "1,2")):
            out.append("bind %d %d %s" % (R, nbth, b))
        for _ in range(260 if q else 6000):
            R = r.pick([1, 2, 4, 8, 16, 17, 63, 64, r.range(1, 64), r.range(1, 64)])
            nbth = r.pick([1, 2, r.range(1, R), r.range(1, R), R, R + r.range(1, 5)])
            out.append("bind %d %d %s" % (R, nbth, self._binding(r, R, nbth)))
        # --- the user's path: PARSEC_MCA_runtime_vpmap through parsec_init (counts only)
        if (os.cpu_count() or 1) >= 4:
            pin = ((2, "flat"), (3, "no-such-map"), (2, "rr:2:2:4"), (1, ""), (2, "display:flat"),
                   (2, "file:/nonexistent-dir/verif-vpmap-no-such-file"), (2, "rr:2:2"))
            for nb, spec in (pin[:3] if q else pin):
                out.append("pinit %d %s" % (nb, spec))
        # --- the hwloc map (one VP per socket) on synthetic multi-socket machines: every requested count
        for S in (2, 3, 4):
            for C in (1, 2, 3, 4):
                for nb in range(1, S * C + 3):
                    out.append("hw %d %d %d %d" % (S, C, nb, r.pick([0, 0, 1, -1])))
        phw = [(2, 4, 4), (3, 2, 2), (3, 2, 4), (2, 4, 3), (2, 2, 9), (4, 2, 6), (3, 3, 3), (2, 3, 0)]
        for S, C, nb in (phw[:4] if q else phw):
            out.append("phw %d %d %d" % (S, C, nb))
        # --- the user's path under a restricted process cpuset (taskset / batch scheduler): the default flat map
        # must bind every thread inside the cpuset, whatever its shape (holes, first cpu not 0)
        try:
            avail = os.sched_getaffinity(0)
        except AttributeError:
            avail = set()
        if all(c in avail for c in range(8)):
            sets = [(0, 0, "2,3,5"), (2, 0, "2,3,5"), (0, 0, "0,1,2,3,4,6,7"), (2, 0, "1,2,3,5,6"), (0, 1, "0,1,3"),
                    (3, 0, "1,2,3,4,6,7"), (0, 0, "2,3,7"), (3, -1, "0,2,4,6"), (0, 0, "4,5,6,7"), (2, 0, "3,4,7"),
                    (0, 0, "0,1,2,3,4,5,7"), (7, 0, "0,2,3,4,5,6,7"), (4, 1, "0,3,4,7")]
            for nb, sing, cpus in (sets[:6] if q else sets):
                out.append("cinit %d %d %s" % (nb, sing, cpus))
            for _ in range(6 if q else 60):
                k = r.range(2, 7)
                cpus = sorted(r.shuffle(range(8))[:k])
                if r.chance(1, 2) and k >= 3:          # exactly one single-cpu hole in the span
                    lo = r.range(0, 8 - (k + 1))
                    span = list(range(lo, lo + k + 1))
                    span.pop(r.range(1, k - 1))
                    cpus = span
                out.append("cinit %d %d %s" % (r.pick([0, 0, r.range(1, k), k, k + 2]), r.pick([0, 0, 1, -1]),
                                              ",".join(str(c) for c in cpus)))
        # --- oversubscribed requests (runtime_num_cores above the allowed cores, 1.5x and 2x) on cpusets that are not a
        # prefix of the machine, late (>0) and early (-1) singlification: the fallback of parsec_select_vpmap_thread_core
        # (singlify 0 is left out: the candidate masks are infinite and the selection walks them to the end of int)
        over = [("12,13,14,15", 6, 1), ("12,13,14,15", 8, 2), ("12,13,14,15", 6, -1), ("2,3,5", 6, 1), ("9,11", 3, 1),
                ("4,5,6,7", 8, 1), ("1,3,5,7", 6, 1), ("10,11,13,14", 8, -1), ("6,7", 4, 1), ("3,4,6,9,12", 10, 1)]
        for cpus, nc, sing in (over[:6] if q else over):
            if all(int(c) in avail for c in cpus.split(",")):
                out.append("cinit %d %d %s %d" % (nc, sing, cpus, nc))
        for _ in range(3 if q else 40):
            hi = max(avail) if avail else 0
            if hi < 7:
                break
            k = r.range(2, 5)
            cpus = sorted(r.shuffle(range(2, hi + 1))[:k])
            nc = r.pick([k + (k + 1) // 2, 2 * k])
            if all(c in avail for c in cpus):
                out.append("cinit %d %d %s %d" % (r.pick([nc, 0]), r.pick([1, 1, 2, -1]), ",".join(str(c) for c in cpus), nc))
        return out

    def nontrivial_key(self, case):
        w = case.split(" ", 4)
        if w[0] == "init" and w[4] in ("NULL", "S:flat"):
            return None
        return case

    def dist(self, cases):
        d = {}
        for c in cases:
            k = c.split()[0]
            if k == "init":
                spec = c.split(" ", 4)[4]
                k = "init-rr" if "rr:" in spec else "init-null" if spec == "NULL" else "init-flat" if spec.startswith("S:flat") else "init-other"
            elif k == "bind":
                b = c.split(" ", 3)[3]
                k = "bind-mask" if "x" in b else "bind-range" if ";" in b else "bind-list"
            d[k] = d.get(k, 0) + 1
        return d

    # ------------------------------------------------------------------ oracle
    def oracle(self, case, obs):
        w = case.split(" ")
        kind = w[0]
        crashed = obs.startswith("CRASH") or obs.startswith("FATAL") or obs.startswith("<")
        if kind in ("init", "nofile", "pinit"):
            if kind == "pinit":
                nb, spec, R, check_bind = int(w[1]), case.split(" ", 2)[2], None, False
                obs = re.sub(r" ctx_vps=\d+", "", obs)
                obs = re.sub(r"(\d+)/(\d+)", lambda m: "%s:" % m.group(1) + " [0,0,]" * int(m.group(1)), obs)
            elif kind == "nofile":
                R, nb, spec, check_bind = int(w[1]), int(w[3]), "file:/nonexistent", True
            else:
                R, nb = int(w[1]), int(w[3])
                rest = case.split(" ", 4)[4]
                spec = None if rest == "NULL" else rest[2:]
                check_bind = True
            if nb == -1:
                nb = R
            if nb is None or nb < 1:
                return None                       # parsec_init never passes less than one thread
            if R is not None and nb > R:
                check_bind = False                # explicit oversubscription: no set of distinct available cores exists
            core = _strip_display(spec) if spec is not None else None
            rr = _rr_fields(core) if core is not None else None
            if rr is not None and rr[0] >= 1 and rr[1] >= 1:
                n, p, c = rr
                if crashed:
                    return "rr-unimplemented: %s promises %d virtual processes of %d threads, the process died (%s)" % (core, n, p, obs[:20])
                why = _valid_map(_parse_map(obs), min(R or c, max(c, 1)) if check_bind else 0, n, [p] * n, check_bind)
                return ("rr-unimplemented: %s: %s" % (core, why)) if why else None
            # everything else must end as a usable map without crashing: flat / NULL / malformed / unreadable file
            rrish = rr is not None
            if crashed:
                tag = "rr-unimplemented" if rrish else "spec-crash"
                return "%s: specification %r killed the process (%s)" % (tag, spec, obs[:20])
            flatlike = not rrish
            why = _valid_map(_parse_map(obs), R or 0, 1 if flatlike else None, [nb] if flatlike else None, check_bind,
                             nonempty=check_bind)
            if why:
                tag = "rr-unimplemented" if rrish else "spec-map"
                return "%s: specification %r: %s" % (tag, spec, why)
            return None
        if kind in ("hw", "phw"):
            S, C, nb = int(w[1]), int(w[2]), int(w[3])
            want = S * C if nb <= 0 or nb > S * C else nb
            if crashed:
                return "hwloc-crash: the hwloc map on %d sockets x %d cores for %d threads killed the process (%s)" % (S, C, nb, obs[:20])
            if kind == "hw":
                mp = _parse_map(obs)
                if mp is None:
                    return "hwloc-crash: unparsable observation " + obs[:60]
                nv, counts = mp[0], [k for k, _ in mp[2]]
                binds = [ths for _, ths in mp[2]]
            else:
                m = re.match(r"ctx_vps=(-?\d+)(.*)$", obs)
                if not m:
                    return "hwloc-crash: unparsable observation " + obs[:60]
                nv = int(m.group(1))
                pairs = re.findall(r"(-?\d+)/(-?\d+)", m.group(2))
                if any(a != b for a, b in pairs):
                    return "hwloc-threads: the context and the map disagree on the threads of a virtual process: %s" % obs[:80]
                counts, binds = [int(a) for a, _ in pairs], None
            if len(counts) != nv:
                return "hwloc-vp-count: %d virtual processes announced, %d described" % (nv, len(counts))
            for v, k in enumerate(counts):
                if k < 1:
                    return "hwloc-empty-vp: virtual process %d of %d has %d threads (%d sockets x %d cores, %d threads requested)" % (
                        v, nv, k, S, C, nb)
            touched = (want + C - 1) // C
            if nv != touched:
                return "hwloc-vp-count: %d virtual processes, %d threads on %d sockets x %d cores touch %d sockets" % (nv, want, S, C, touched)
            if sum(counts) != want:
                return "hwloc-threads: the virtual processes have %d threads in total, %d requested" % (sum(counts), want)
            for v, k in enumerate(counts):
                if k > C:
                    return "hwloc-threads: virtual process %d has %d threads, its socket has %d cores" % (v, k, C)
                if binds is not None:
                    for t, (nc, ht, st) in enumerate(binds[v]):
                        cores, inf = _parse_set(st)
                        if inf or not cores or any(c < v * C or c >= (v + 1) * C for c in cores):
                            return "hwloc-binding: thread %d of virtual process %d may be bound on {%s}, socket %d holds cores %d-%d" % (
                                t, v, st, v, v * C, (v + 1) * C - 1)
            return None
        if kind == "cinit":
            nb, cpus = int(w[1]), sorted(set(int(c) for c in w[3].split(",")))
            cap = int(w[4]) if len(w) > 4 and int(w[4]) > 0 else len(cpus)       # runtime_num_cores
            want = cap if nb <= 0 or nb > cap else nb
            if crashed:
                return "cpuset-crash: parsec_init died under the process cpuset {%s} (%s)" % (w[3], obs[:20])
            m = re.match(r"vps=(-?\d+) total=(-?\d+) \|(.*)$", obs)
            if not m:
                return "cpuset-crash: unparsable observation " + obs[:60]
            ths = m.group(3).split()
            if int(m.group(1)) != 1 or int(m.group(2)) != want or len(ths) != want:
                return "cpuset-count: cpuset {%s}, %d cores requested: %s virtual processes, %s threads (%d described), expected 1 / %d" % (
                    w[3], nb, m.group(1), m.group(2), len(ths), want)
            for t, th in enumerate(ths):
                core, _, aff = th.partition(":")
                if int(core) == -1 and want > len(cpus) and aff == "ok":
                    continue                 # more threads than cores: a thread may stay unbound (inside the process cpuset)
                if int(core) not in cpus:
                    return "cpuset-escape: thread %d is assigned core %s, outside the process cpuset {%s}" % (t, core, w[3])
                if aff != "ok":
                    return "cpuset-escape: thread %d runs with affinity %s, outside the process cpuset {%s}" % (t, aff, w[3])
            return None
        if kind == "file":
            R = int(w[1])
            content = _unesc(case.split(" ", 5)[5]) if len(w) > 5 else ""
            want = _file_vps(content)
            counted = [l for l in content.split("\n") if ":" in l]
            if crashed:
                first = next((l for l in content.split("\n") if l.startswith(":") or (":" in l)), "")
                tag = "file-colon-line" if first.startswith(":") else "file-map-garbled"
                return "%s: a map file with %d line(s) for this process killed the process (%s)" % (tag, len(want), obs[:20])
            mp = _parse_map(obs)
            if want:
                why = _valid_map(mp, R, len(want), want, True)
                return ("file-map-garbled: %s" % why) if why else None
            why = _valid_map(mp, R, None, None, True)
            return ("file-empty-map: a map file without a usable line gives %s" % why) if why else None
        if kind == "bind":
            R, nbth = int(w[1]), int(w[2])
            b = case.split(" ", 3)[3] if len(w) > 3 else ""
            if obs.startswith("FATAL") or crashed:
                if obs.startswith("FATAL"):
                    return None                   # an empty mask is rejected (fatal error), not a crash of the parser
                return "bind-crash: binding %r killed the process" % b
            ths = re.findall(r"\[(-?\d+),(-?\d+),([^\]]*)\]", obs)
            if len(ths) != nbth:
                return "bind-count: %d threads described, %d requested" % (len(ths), nbth)
            for t, (nc, ht, st) in enumerate(ths):
                cores, inf = _parse_set(st)
                if cores == {4294967295}:
                    continue
                if inf or any(c < 0 or c >= R for c in cores):
                    tag = "mask-core-out-of-range" if "x" in b else "bind-out-of-range"
                    return "%s: binding %r puts thread %d on {%s}, outside the %d available cores" % (tag, b, t, st, R)
            # the documented distributions, for specifications in their plain form
            want = None
            if re.match(r"^\d+(,\d+)*$", b):                       # core list: binding in order
                want = [int(x) for x in b.split(",")]
                if any(c >= R for c in want):
                    want = None
            elif re.match(r"^\d+;\d+;\d+$", b):                    # start;end;step: one thread per core from start to end by step
                a, e, stp = (int(x) for x in b.split(";"))
                if a <= e < R and 1 <= stp < R:
                    want = list(range(a, e + 1, stp))
            elif re.match(r"^0x[0-9a-f]{1,16}$", b):                 # mask: one core of the mask per thread, in order
                m = int(b[2:], 16)
                want = [i for i in range(min(R, 64)) if m >> i & 1]
                if m >> min(R, 64):
                    want = None
            if want is not None:
                for t in range(min(nbth, len(want))):
                    nc, ht, st = int(ths[t][0]), int(ths[t][1]), ths[t][2]
                    if _parse_set(st)[0] != {want[t]} or nc != 1:
                        return "bind-order: binding %r gives thread %d {%s} (%d cores), the specification says core %d" % (b, t, st, nc, want[t])
            return None
        return None

    def signature(self, case, obs):
        r = self.oracle(case, obs)
        return (r or "none").split(":")[0]

    def search_cases(self):
        out = []
        for R in (1, 2, 3, 4, 8, 16):
            for nb in range(1, R + 1):
                for sing in (-1, 0, 1):
                    for s in ("NULL", "S:flat", "S:bogus", "S:rr:1", "S:display:flat"):
                        out.append("init %d %d %d %s" % (R, sing, nb, s))
            for nbth in range(1, R + 2):
                for b in (("0-%d" % (R - 1)) if nbth > 1 else "0", ";", ";;2", "0;%d;1" % (R - 1), "1;;", "0x%x" % ((1 << R) - 1), ",".join(str(i % R) for i in range(nbth))):
                    out.append("bind %d %d %s" % (R, nbth, b))
        return out
