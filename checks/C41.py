import re

from vcheck import Check

VALS = [0x1122334455667788, 0xffeeddccbbaa9988, 0x0102030405060708, 0xdeadbeefcafef00d,
        0x8000000000000001, 0x1, 0xff, 0x100, 0x1122334455000000, 0x7fffffffffffffff, 0x5a5a5a5a5a5a5a5a]
POISON = 0xa5a5a5a5a5a5a5a5


def ctorval(c, tag):
    """what the harness' constructor callback returns (h_info.c: ctor_cb)"""
    return 0 if c == 1 else (0xC000000000000000 + c * 65536 + tag) & ((1 << 64) - 1)


class Spec:
    """The property as a dictionary keyed by names: what a client of info.h may rely on.
    No identifiers are computed here; those returned by the implementation are recorded
    and must be pairwise distinct among the live names."""

    def __init__(self):
        self.names = {}      # name -> dict(id, cb, ctor, dtor)
        self.arrs = []       # per array: None (destructed) or dict name -> value
        self.unregs = 0      # unregistrations so far (a hole may exist)
        self.stale = []      # per array: values left behind by names unregistered without destructor

    def live_ids(self):
        return {d["id"] for d in self.names.values()}

    def destroyed(self, n):
        return sorted(a[n] for a in self.arrs if a is not None and a.get(n, 0) != 0)


def clobber_candidates(exp):
    """what a slot holding exp may hold after the byte-counting memset of a resize: exp with
    low-order bytes zeroed; for a slot created by the resize (exp = 0), 0xA5 filling so zeroed"""
    out = set()
    for k in range(1, 9):
        out.add((exp >> (8 * k)) << (8 * k))
    if exp == 0:
        for k in range(0, 9):
            out.add((POISON >> (8 * k)) << (8 * k))
    out.discard(exp)
    return out


class Fail(Exception):
    def __init__(self, sig, why):
        Exception.__init__(self, why)
        self.sig, self.why = sig, why


SEG_VAL = re.compile(r"^v=([0-9a-f]+) c([01]) ~\[([0-9a-f,]*)\]$")
SEG_UNR = re.compile(r"^u=(-?\d+) ~\[([0-9a-f,]*)\]$")


def hexlist(s):
    return [int(x, 16) for x in s.split(",") if x]


def parse_state(txt):
    """' reg[0=0,2=2]max=2 A0(3:0,0,0) A1(dead)' -> (list of (id, name), max_id, arrays)"""
    m = re.match(r"^reg\[([^\]]*)\]max=(-?\d+)((?: A\d+\([^)]*\))*)$", txt.strip())
    if not m:
        raise Fail("unparsable", "unparsable state: " + txt[:80])
    reg = [tuple(int(x) for x in p.split("=")) for p in m.group(1).split(",") if p]
    arrs = []
    for am in re.finditer(r" A(\d+)\(([^)]*)\)", m.group(3)):
        if am.group(2) == "dead":
            arrs.append(None)
        else:
            k, sl = am.group(2).split(":")
            arrs.append((int(k), hexlist(sl)))
    return reg, int(m.group(2)), arrs


def replay(case, obs):
    """replays the observed results against Spec; raises Fail(signature, reason) at the first
    result a client could not get from a correct implementation"""
    ops = case.split()
    segs = obs.split(" | ")
    sp = Spec()
    grown = {}           # array -> True once its known_infos grew from a positive size
    last_known = {}
    if len(segs) < 1:
        raise Fail("unparsable", "empty observation")

    prev = {}            # array -> (known_infos, slots) printed after the previous op

    def slot_candidates(a, n, cur):
        """Contents the slot of (a, n) may really have had when the op ran, with the class of history
        that explains a difference from the dictionary value cur: the slot printed before the op when
        it existed; 0xA5 filling when the op itself made the array grow by realloc."""
        iid = sp.names[n]["id"]
        kb, slots = prev.get(a, (0, []))
        out = []
        if iid < kb:
            c = slots[iid]
            if c != cur:
                stale = set(sp.stale[a])
                if grown.get(a):
                    stale |= {x for v in sp.stale[a] for x in clobber_candidates(v)}
                if cur == 0 and c in sp.stale[a]:
                    out.append((c, "stale-slot-after-unregister"))
                elif grown.get(a) and c in clobber_candidates(cur):
                    out.append((c, "resize-clobbers-slot"))
                elif cur == 0 and c in stale:
                    out.append((c, "stale-slot-after-unregister"))
        elif kb > 0 and cur == 0:
            out += [(c, "resize-clobbers-slot") for c in clobber_candidates(0)]
        return out

    def valcheck(a, n, cur, got, called, what, ret, calls):
        """cur: what the dictionary holds for (a, n); ret(c) / calls(c): what the operation returns, and
        whether it runs the constructor, when the slot holds c.  A wrong result is attributed to a known
        class only when it is the right result for a slot clobbered by an earlier resize / left behind
        by an unregistered info (as the printed arrays show)."""
        if ret(cur) == got and calls(cur) == called:
            return
        for c, sig in slot_candidates(a, n, cur):
            if ret(c) == got and calls(c) == called:
                raise Fail(sig, "%s: returned %x%s as for a slot holding %x; the value stored for that name is %x"
                           % (what, got, " (constructor called)" if called else "", c, cur))
        if ret(cur) != got:
            raise Fail("value-mismatch", "%s: got %x, expected %x" % (what, got, ret(cur)))
        raise Fail("constructor-mismatch", "%s: constructor %s" % (what, "called" if called else "not called"))

    def evcheck(names, got, what):
        """destructor calls: got must be the non-NULL values stored under these names (with destructor)"""
        exp = sorted(v for n in names if sp.names[n]["dtor"] for v in sp.destroyed(n))
        if exp == sorted(got):
            return
        extra, missing = list(got), list(exp)
        for v in exp:
            if v in extra:
                extra.remove(v)
        for v in got:
            if v in missing:
                missing.remove(v)
        anygrown = any(grown.get(a) for a in range(len(sp.arrs)))
        stale_all = [v for st in sp.stale for v in st]
        if extra and all(g in stale_all for g in extra) and not missing:
            raise Fail("stale-slot-after-unregister", "%s: destructor called on %s, left behind by an unregistered "
                       "info that had the same id" % (what, [hex(x) for x in extra]))
        if anygrown and all(g in clobber_candidates(0) or any(g in clobber_candidates(e) for e in missing)
                            for g in extra) and \
                (len(extra) >= len(missing) or all(0 in clobber_candidates(e) for e in missing)):
            raise Fail("resize-clobbers-slot", "%s: destructor called on %s, the stored values are %s (an array grew)"
                       % (what, [hex(x) for x in got], [hex(x) for x in exp]))
        raise Fail("destructor-mismatch", "%s: destructed %s, the stored values are %s"
                   % (what, [hex(x) for x in got], [hex(x) for x in exp]))

    for k, tok in enumerate(ops):
        if k >= len(segs):
            raise Fail("noreturn", "no observation for op %d (%s)" % (k, tok))
        seg = segs[k]
        if seg.startswith("<"):
            raise Fail("noreturn", "the code under test did not return from %s: %s" % (tok, seg))
        f = tok.split(":")
        o = f[0]
        sp_i = seg.find(" reg[")
        if sp_i < 0:
            raise Fail("unparsable", "unparsable segment: " + seg[:80])
        res, state = seg[:sp_i], seg[sp_i:]
        if res == "oob":
            raise Fail("held-id-above-max", "%s: the id held for the name is above max_id" % tok)
        if res == "bad":
            raise Fail("unparsable", "harness refused op " + tok)
        if o == "R":
            n, cb, ct, dt = int(f[1]), int(f[2]), int(f[3]), int(f[4])
            m = re.match(r"^r=(-?\d+)$", res)
            if not m:
                raise Fail("unparsable", "register printed " + res)
            rid = int(m.group(1))
            if n in sp.names:
                if rid != -1:
                    raise Fail("register-duplicate-name", "register of the live name %d returned %d" % (n, rid))
            else:
                if rid < 0:
                    raise Fail("register-failed", "register of the new name %d returned %d" % (n, rid))
                if rid in sp.live_ids():
                    other = [m2 for m2, d in sp.names.items() if d["id"] == rid][0]
                    raise Fail("id-reuse-after-hole" if sp.unregs else "id-reuse",
                               "register(name %d) returned id %d which name %d still holds" % (n, rid, other))
                sp.names[n] = dict(id=rid, cb=cb, ctor=ct, dtor=dt)
        elif o == "U":
            n = int(f[1])
            if n not in sp.names:
                if res != "skip":
                    raise Fail("unparsable", "harness ran U for a name it does not hold: " + res)
            else:
                m = SEG_UNR.match(res)
                if not m:
                    raise Fail("unparsable", "unregister printed " + res)
                d = sp.names[n]
                if int(m.group(1)) != d["id"]:
                    raise Fail("unregister-mismatch", "unregister(id %d of name %d) returned %s" % (d["id"], n, m.group(1)))
                evcheck([n], hexlist(m.group(2)), "unregister(name %d)" % n)
                for a, arr in enumerate(sp.arrs):
                    if arr is not None and arr.get(n, 0) != 0:
                        if not d["dtor"]:
                            sp.stale[a].append(arr[n])
                        del arr[n]
                del sp.names[n]
                sp.unregs += 1
        elif o == "V":
            i = int(f[1])
            if i in sp.live_ids():
                if res != "skip":
                    raise Fail("unparsable", "harness ran V on a held id: " + res)
            elif res != "skip":          # skip: the harness still holds that id for some name -> caught elsewhere
                if res != "u=-1 ~[]":
                    raise Fail("unregister-mismatch", "unregister(unknown id %d) printed %s" % (i, res))
        elif o == "L":
            n = int(f[1])
            exp = "l=-1" if n not in sp.names else "l=%d:%x" % (sp.names[n]["id"], sp.names[n]["cb"])
            if res != exp:
                raise Fail("lookup-mismatch", "lookup(name %d) printed %s, expected %s" % (n, res, exp))
        elif o == "A":
            if res != "a=%d" % len(sp.arrs):
                raise Fail("unparsable", "new array printed " + res)
            sp.arrs.append({})
            sp.stale.append([])
        elif o == "X":
            a = int(f[1])
            ok = a < len(sp.arrs) and sp.arrs[a] is not None
            if res != ("x" if ok else "skip"):
                raise Fail("unparsable", "destruct array printed " + res)
            if ok:
                sp.arrs[a] = None
        elif o in ("S", "G", "T"):
            a, n = int(f[1]), int(f[2])
            ok = a < len(sp.arrs) and sp.arrs[a] is not None and n in sp.names
            if not ok:
                if res != "skip":
                    raise Fail("unparsable", "harness ran %s which does not apply: %s" % (tok, res))
            else:
                m = SEG_VAL.match(res)
                if not m:
                    raise Fail("unparsable", "%s printed %s" % (tok, res))
                got, called, evs = int(m.group(1), 16), int(m.group(2)), hexlist(m.group(3))
                arr = sp.arrs[a]
                cur = arr.get(n, 0)
                ct = sp.names[n]["ctor"]
                empty = ctorval(ct, a + 1) if ct else 0       # what get returns on a NULL slot
                calls = lambda c: 0
                if o == "S":
                    ret = lambda c: c
                    new = int(f[3], 16)
                elif o == "T":
                    v, old = int(f[3], 16), int(f[4], 16)
                    ret = lambda c: v if c == old else c
                    new = v if cur == old else cur
                else:
                    ret = lambda c: c if c != 0 else empty
                    calls = lambda c: 1 if (c == 0 and ct != 0) else 0
                    new = cur if cur != 0 else empty
                valcheck(a, n, cur, got, called, tok, ret, calls)
                if new != 0:
                    arr[n] = new
                elif n in arr:
                    del arr[n]
                if evs:
                    raise Fail("destructor-mismatch", "%s: destructor called on %s" % (tok, [hex(x) for x in evs]))
        else:
            raise Fail("unparsable", "unknown op " + tok)
        # the state printed after the op: ids and names of the registry, array sizes
        reg, max_id, arrs_now = parse_state(state)
        for a, x in enumerate(arrs_now):
            if x is not None:
                if a in last_known and 0 < last_known[a] < x[0]:
                    grown[a] = True
                last_known[a] = x[0]
                prev[a] = x
            else:
                prev.pop(a, None)
        ids = [i for i, _ in reg]
        if len(set(ids)) != len(ids):
            raise Fail("id-reuse-after-hole" if sp.unregs else "id-reuse", "the registry lists an id twice: %s" % reg)
        want = sorted((d["id"], n) for n, d in sp.names.items())
        if sorted(reg) != want:
            raise Fail("registry-mismatch", "registry lists %s, the live names are %s" % (sorted(reg), want))
        if ids and max_id < max(ids):
            raise Fail("max-id-mismatch", "max_id %d below a live id in %s" % (max_id, reg))
    if len(segs) != len(ops) + 1:
        raise Fail("noreturn", "%d observations for %d ops" % (len(segs), len(ops)))
    end = segs[-1]
    m = re.match(r"^end ~\[([0-9a-f,]*)\]$", end)
    if not m:
        raise Fail("noreturn", "end of case printed " + end[:60])
    evcheck(list(sp.names), hexlist(m.group(1)), "registry destructor")


# ---------------------------------------------------------------------------------------
# T-sched / race-exploration cases: several threads on the same (array, id)
def parse_sched_case(case):
    hd, progs, sched = case.split("|")
    w = hd.split()
    infos = [tuple(int(x) for x in t.split(":")) for t in w[2:]]
    threads = []
    for th in progs.split("/"):
        ops = []
        for tok in th.split():
            f = tok.split(":")
            if f[0] == "T":
                ops.append(("T", int(f[1]), int(f[2], 16), int(f[3], 16)))
            elif f[0] == "S":
                ops.append(("S", int(f[1]), int(f[2], 16), None))
            else:
                ops.append(("G", int(f[1]), None, None))
        threads.append(ops)
    return infos, threads


def replay_sched(case, obs):
    """What the repaired code guarantees to concurrent callers when every value written is
    distinct and non-NULL (the generator's discipline): a value is installed at most once, so for
    every expected value at most one test_and_set (or constructed default) succeeds; every value
    returned was installed by somebody; all callers see the same default object; a constructed
    object that lost is destructed (when the info has a destructor) and never handed out."""
    infos, threads = parse_sched_case(case)
    if obs.startswith("<") or "<deadlock>" in obs or "<crash>" in obs or "<timeout>" in obs or "<exit" in obs:
        raise Fail("sched-noreturn", "the threads did not all return: " + obs[-60:])
    parts = [p.strip() for p in obs.split(" | ")]
    if len(parts) != len(threads) + 3:
        raise Fail("unparsable", "unparsable observation: " + obs[:80])
    final = hexlist(parts[len(threads)].split(":", 1)[1].strip())
    res = []                                   # (thread, op, ret, made, dead)
    for t, ops in enumerate(threads):
        toks = parts[t].split(":", 1)[1].split()
        if len(toks) != len(ops):
            raise Fail("unparsable", "thread %d printed %d results for %d ops" % (t, len(toks), len(ops)))
        for op, tok in zip(ops, toks):
            k, val = tok.split("=", 1)
            if k != op[0]:
                raise Fail("unparsable", "result %s for op %s" % (tok, op))
            if k == "G":
                m = re.match(r"^([0-9a-f]+),([0-9a-f]+|-),\[([0-9a-f,]*)\]$", val)
                if not m:
                    raise Fail("unparsable", "get printed " + tok)
                res.append((t, op, int(m.group(1), 16), 0 if m.group(2) == "-" else int(m.group(2), 16), hexlist(m.group(3))))
            else:
                res.append((t, op, int(val, 16), 0, []))
    for i in range(len(infos)):
        mine = [x for x in res if x[1][1] == i]
        ct, dt = infos[i]
        installed = {0: "the initial NULL"}
        winners = {}                           # expected value -> who installed over it
        has_set = any(x[1][0] == "S" for x in mine)
        for t, op, ret, made, dead in mine:
            if op[0] == "T" and ret == op[2]:
                installed[op[2]] = "test_and_set of thread %d" % t
                winners.setdefault(op[3], []).append("test_and_set(%x) of thread %d" % (op[2], t))
            elif op[0] == "S":
                installed[op[2]] = "set of thread %d" % t
            elif op[0] == "G" and made != 0 and ret == made:
                installed[made] = "default constructed by thread %d" % t
                winners.setdefault(0, []).append("default %x of thread %d" % (made, t))
        for x, who in winners.items():
            if len(who) > 1:
                raise Fail("sched-two-winners", "id %d: %s all replaced the value %x" % (i, " and ".join(who), x))
            if x not in installed:
                raise Fail("sched-value-from-nowhere", "id %d: %s replaced %x which nobody stored" % (i, who[0], x))
        handed = set()
        for t, op, ret, made, dead in mine:
            if ret not in installed:
                raise Fail("sched-value-from-nowhere", "id %d: thread %d got %x from %s, a value nobody stored (stored: %s)"
                           % (i, t, ret, op[0], sorted("%x" % v for v in installed)))
            handed.add(ret)
            if op[0] == "G":
                usable = ct not in (0, 1)
                if ret == 0 and usable:
                    raise Fail("sched-get-null", "id %d: get of thread %d returned NULL although the info has a constructor" % (i, t))
                if made != 0 and ret != made:
                    if dead != ([made] if dt else []):
                        raise Fail("sched-lost-object", "id %d: thread %d constructed %x, lost, and destructed %s"
                                   % (i, t, made, [hex(d) for d in dead]))
                elif dead:
                    raise Fail("sched-lost-object", "id %d: thread %d destructed %s" % (i, t, [hex(d) for d in dead]))
        fin = final[i] if i < len(final) else 0
        handed.add(fin)
        for t, op, ret, made, dead in mine:
            for d in dead:
                if d in handed:
                    raise Fail("sched-destructed-live-object", "id %d: %x was destructed by thread %d but is stored or was "
                               "returned to a caller" % (i, d, t))
        if fin not in installed:
            raise Fail("sched-value-from-nowhere", "id %d: the slot ends with %x which nobody stored" % (i, fin))
        if not has_set:
            left = [v for v in installed if v not in winners]
            if left != [fin]:
                raise Fail("sched-final-value", "id %d: the slot ends with %x; stored and never replaced: %s"
                           % (i, fin, sorted("%x" % v for v in left)))
        defaults = {ret for t, op, ret, made, dead in mine if op[0] == "G" and ret != 0}
        if len(defaults) > 1 and not has_set and all(op[0] == "G" or (op[0] == "T" and op[3] == 0) for _, op, _, _, _ in mine):
            raise Fail("sched-two-winners", "id %d: gets returned different objects %s" % (i, sorted("%x" % v for v in defaults)))


# ---------------------------------------------------------------------------------------
# "regs" cases: register / unregister / lookup of the same names by several threads
def parse_regs_case(case):
    hd, progs, sched = case.split("|")
    pre = [tuple(int(x) for x in w.split("@")) for w in hd.split()[1:]]
    threads = [[(tok[0], int(tok.split(":")[1])) for tok in th.split()] for th in progs.split("/")]
    return pre, threads


def pairs(txt):
    return [tuple(int(x) for x in p.split("=")) for p in txt.split(",") if p]


def replay_regs(case, obs):
    """The property for concurrent clients of one registry (each thread unregisters only ids it
    holds): whenever a thread looks at the registry, every name is listed once and every id once;
    a successful registration is listed with the id returned and stays until its holder
    unregisters it, so of several registrations of one name at most one holds at any time; a
    registration only fails when somebody registered that name; lookup returns the id a
    registrant of that name got; in the end the registry holds exactly what the threads hold."""
    pre, threads = parse_regs_case(case)
    if obs.startswith("<") or "<deadlock>" in obs or "<crash>" in obs or "<timeout>" in obs or "<exit" in obs:
        raise Fail("regs-noreturn", "the threads did not all return: " + obs[-60:])
    parts = [p.strip() for p in obs.split(" | ")]
    if len(parts) != len(threads) + 4 or not parts[0].startswith("init{"):
        raise Fail("unparsable", "unparsable observation: " + obs[:80])
    init = pairs(parts[0][5:-1])
    parts = parts[1:]
    m = re.match(r"^reg\[([^\]]*)\]max=(-?\d+)$", parts[len(threads)])
    if not m:
        raise Fail("unparsable", "unparsable registry: " + parts[len(threads)][:60])
    final, max_id = pairs(m.group(1)), int(m.group(2))

    def wellformed(listing, when):
        ids, names = [i for i, _ in listing], [n for _, n in listing]
        for n in set(names):
            if names.count(n) > 1:
                raise Fail("regs-name-twice", "%s: name %d is registered %d times (ids %s)"
                           % (when, n, names.count(n), sorted(i for i, x in listing if x == n)))
        if len(set(ids)) != len(ids):
            raise Fail("regs-id-twice", "%s: an id is listed twice: %s" % (when, listing))

    wellformed(init, "before the threads start")
    held = [dict() for _ in threads]            # per thread: name -> id it holds
    ever = {}                                   # name -> ids given to registrants of that name
    seen = set()
    for n, t in pre:                            # the first registration of a name wins, later ones fail
        if n in seen:
            continue
        seen.add(n)
        ids = [i for i, x in init if x == n]
        if len(ids) != 1 or t >= len(threads):
            raise Fail("unparsable", "name %d registered before the start is not listed in %s" % (n, init))
        held[t][n] = ids[0]
        ever.setdefault(n, set()).add(ids[0])
    results = []
    for t, ops in enumerate(threads):
        toks = parts[t].split(":", 1)[1].split()
        if len(toks) != len(ops):
            raise Fail("unparsable", "thread %d printed %d results for %d ops" % (t, len(toks), len(ops)))
        for (k, n), tok in zip(ops, toks):
            mm = re.match(r"^([RUL])=(-?\d+|skip)\{([^}]*)\}$", tok)
            if not mm or mm.group(1) != k:
                raise Fail("unparsable", "result %s for op %s:%d" % (tok, k, n))
            results.append((t, k, n, mm.group(2), None if mm.group(3) == "?" else pairs(mm.group(3))))
            if k == "R" and mm.group(2) not in ("-1", "skip"):
                ever.setdefault(n, set()).add(int(mm.group(2)))
    for t, k, n, ret, snap in results:
        what = "%s:%d of thread %d" % (k, n, t)
        if snap is not None:
            wellformed(snap, "after " + what)
        if k == "R":
            if ret == "-1":
                if n not in ever:
                    raise Fail("regs-spurious-failure", "%s failed although nobody ever registered that name" % what)
            else:
                rid = int(ret)
                if n in held[t]:
                    raise Fail("regs-name-twice", "%s succeeded (id %d) while the thread holds id %d for that name" % (what, rid, held[t][n]))
                held[t][n] = rid
        elif k == "U":
            if ret == "skip":
                if n in held[t]:
                    raise Fail("unparsable", "%s was skipped although the thread holds id %d" % (what, held[t][n]))
            elif n not in held[t]:
                raise Fail("unparsable", "%s was run although the thread holds no id for that name" % what)
            else:
                if ret != str(held[t][n]):
                    raise Fail("regs-unregister-failed", "%s: unregister(id %d) returned %s" % (what, held[t][n], ret))
                del held[t][n]
        else:
            if ret == "-1":
                if n in held[t]:
                    raise Fail("regs-lookup-mismatch", "%s returned -1 while the thread holds id %d for that name" % (what, held[t][n]))
            else:
                lid = int(ret)
                if n in held[t] and held[t][n] != lid:
                    raise Fail("regs-lookup-mismatch", "%s returned %d, the thread holds id %d for that name" % (what, lid, held[t][n]))
                if lid not in ever.get(n, ()):
                    raise Fail("regs-lookup-mismatch", "%s returned %d, no registrant of that name got this id" % (what, lid))
        for hn, hid in held[t].items():
            if snap is not None and (hid, hn) not in snap:
                raise Fail("regs-registration-lost", "after %s the thread holds id %d for name %d but the registry lists %s"
                           % (what, hid, hn, snap))
    wellformed(final, "at the end")
    want = sorted((i, n) for h in held for n, i in h.items())
    if sorted(final) != want:
        raise Fail("regs-final-mismatch", "the registry ends with %s, the threads hold %s" % (sorted(final), want))
    if final and max_id < max(i for i, _ in final):
        raise Fail("max-id-mismatch", "max_id %d below a live id in %s" % (max_id, final))


REGS_DIRECTED = [
    # two / three threads register the same name at the same moment: exactly one id is given out
    "regs | R:0 / R:0 | ",
    "regs | R:0 / R:0 | 0 1 0 1 0 1 0 1 0 1",
    "regs | R:0 / R:0 / R:0 | 0 1 2 0 1 2 0 1 2",
    "regs | R:0 L:0 / R:0 L:0 | 0 0 1 1 0 1 0 1",
    "regs 1@0 | R:0 L:0 / R:0 L:1 / L:0 R:0 | 0 1 2 2 1 0",
    # registration concurrent with the unregistration of that name, different names, holes
    "regs 0@0 | U:0 R:0 / R:0 L:0 | 0 1 0 1 0 1 1 0",
    "regs 0@0 1@1 | U:0 R:2 L:1 / U:1 R:0 L:0 / L:0 R:2 U:2 | 0 1 2 2 1 0 0 0 1 1 2 2",
    "regs 0@0 1@0 2@1 | U:0 R:3 / U:2 R:4 / R:3 R:4 | 2 2 0 1 0 1 2 2",
]


SCHED_DIRECTED = [
    # two callers present NULL: whatever the interleaving exactly one wins and both return the winner
    "sched 1 0:0 | T:0:a1:0 / T:0:b2:0 | ",
    "sched 1 0:0 | T:0:a1:0 / T:0:b2:0 | 0 0 1 1 1 0 0",
    "sched 1 0:0 | T:0:a1:0 / T:0:b2:0 / T:0:c3:0 | 0 1 2 0 1 2 2 1 0",
    # three first gets of a slot with constructor and destructor: one default object for everybody
    "sched 1 5:1 | G:0 / G:0 / G:0 | 0 0 0 1 1 1 2 2 2 2 0 0 1 1",
    "sched 1 5:0 | G:0 / G:0 | ",
    "sched 2 3:1 0:0 | T:1:a1:0 G:0 / G:0 T:1:b2:0 / G:0 G:1 | 0 1 2 0 1 2 0 1 2",
    # a chain: a1 replaces NULL, then b2 and c3 both expect a1
    "sched 1 0:0 | T:0:a1:0 / T:0:b2:a1 / T:0:c3:a1 | 0 0 0 0 1 1 2 2 2 1",
]


class C41(Check):
    id = "C41"
    prop_file = "theories/Properties/Properties_C41.v"
    theorems = ("C41_ids_distinct", "C41_register_fresh_id", "C41_lookup_returns_registered_id",
                "C41_unregister_frees_id", "C41_unregister_unknown_id", "C41_operations_return",
                "C41_results_refine_dictionary", "C41_get_returns_last_set", "C41_test_and_set_returns_stored",
                "C41_test_and_set_only_on_match",
                "C41_ids_distinct_refuted", "C41_lookup_returns_registered_id_refuted",
                "C41_operations_return_refuted", "C41_get_returns_last_set_refuted",
                "C41_fresh_info_reads_null_refuted",
                "C41_conc_all_callers_agree", "C41_conc_single_winner", "C41_conc_constructed_objects",
                "C41_conc_destructed_not_stored",
                "C41_conc_registry_injective", "C41_conc_one_registrant_per_name", "C41_conc_registry_views")
    comp = "info"
    extract_file = "theories/Extract/Extract_Info.v"
    extracted = ("info",)
    harness_src = "harness/h_info.c"
    link_parsec = False
    harness_cflags = ("-DBUILDING_PARSEC",)   # interpose.h: the atomics of the included sources yield
    race = True                               # + race-exploration build (plain accesses yield too)
    level_text = (
        "Coq theorems, for EVERY sequence of register / unregister / lookup / new array / destruct array / set / get / "
        "test_and_set operations, about an executable model that mirrors the loops of info.c (id-allocation scan with "
        "next_item, unregister scan with break / max_id recomputation, byte-counting memset after realloc, destructor "
        "loop over the ioa_list): live ids pairwise distinct and <= max_id, register returns a fresh id, lookup returns "
        "the id the client was given until it unregisters, unregister frees exactly that id, no NULL dereference; and a "
        "refinement theorem: the results of any operation sequence, ids erased, are those of a dictionary keyed by "
        "(array, name) - get returns the last value set / test-and-set / constructed, untouched by registrations, registry "
        "and array growth and other names' operations; test_and_set stores only on a match and returns what is stored; "
        "destructors run once per stored value at unregistration.  These theorems hold for the REPAIRED rules; for each of "
        "the three rules of the unchanged code (fixes flags of InfoDefs.v) a _refuted theorem gives the operation sequence "
        "on which the property fails, and the check replays it on the real code.  The model that is run against /repo is "
        "selected by InfoCode.code_fixes (all false = unchanged code).  Concurrent half (InfoConcDefs.v): an atomic-step "
        "model of test_and_set / set / get run by any number of threads on one object array, one step per scheduling "
        "point of the T-sched harness (atomic operations of the rw-lock and of the registry list lock, the CAS); theorems "
        "for any thread programs and ANY schedule: on a slot used publish-once (test_and_set from NULL, gets with or "
        "without constructor) every non-NULL value returned is the value the slot holds, so all callers agree and at most "
        "one of them installed its own value; an object constructed during a get is either the value returned or "
        "destructed exactly when the info has a destructor, and a destructed object is never the stored one.  The model is "
        "compared step for step with the real code under controlled schedules (T-sched); in addition a race-exploration "
        "build makes every plain access to the slots, the array fields, the rw-lock and the registry a scheduling point and "
        "feeds the oracle (search only).  Registry (InfoConcRegDefs.v): any number of threads call register / "
        "unregister of an id they hold / lookup, each call atomic at the step that takes the list lock; theorems for ANY "
        "schedule: names and ids stay in one-to-one relation, a name has at most one holder and lookup returns the id that "
        "holder got, every view a thread takes of the registry lists each id and each name once; tied by a second T-sched "
        "stream ('regs' cases: same-name registrations at the same moment, registration racing with the unregistration of "
        "that name, hole reuse) and its race-exploration variant.  Not modelled concurrently: registration / unregistration "
        "racing with the array operations and the resize under the write lock (the arrays of the T-sched cases are created "
        "large enough).")
    level_note = ("Trusted: Coq kernel, extraction, harness, the Python dictionary oracle.  The harness #includes info.c with its "
                  "allocator calls redirected so that realloc-grown memory is filled with 0xA5 and calloc'ed memory is zero: "
                  "indeterminate bytes become a visible value, the model uses the same constant.  Little-endian 64-bit pointers.  "
                  "Clients use the id returned by register and only ids <= max_id (the harness refuses others as the assert "
                  "in the code would); parsec_info_get with a negative id (returns NULL) is not modelled.")
    technique = ("Coq proof (invariant over all schedules of the atomic-step model, fold_left_inv) + T-sched differential run "
                 "(cosched coroutines, interpose.h) + race exploration (clang -fsanitize=thread + tsanrt.c); "
                 "Coq proof (sortedness invariant of the registry under the repaired insertion rule; forward simulation of a "
                 "dictionary specification by the slot arrays) + vm_compute witnesses for the unchanged rules + differential "
                 "run of info.c (included in the harness, poisoning allocator) against the extracted model, results and full "
                 "registry / array contents compared after every operation")
    rule = ("op sequences over a pool of 6 names (16 for directed growth) and up to 5 arrays: (a) holes: k=2..6 names, "
            "unregister at the beginning / middle / end (one or two holes), 1..3 more registrations, lookups, sets, gets; "
            "(b) growth: 0..4 names, an array with a value in every slot, 1..11 more names (crossing the 8-byte boundary of "
            "the byte-counting memset), first use of a new id on the old array by get / set / test_and_set, all values read "
            "back; (c) random mixes of all nine operations, mostly valid (test_and_set with old = current / NULL / other), "
            "with constructors (incl. one returning NULL) and destructors.  Non-trivial = at least one registration and one "
            "set/get/test_and_set/unregister; distinct = distinct case text.  (d) T-sched: 1..3 infos, 2..5 threads of 1..4 "
            "operations (families: everybody test_and_set(NULL -> own value) + gets; everybody asks for the constructed "
            "default; chains whose expected value is a value another thread writes; mixes with set), every value written is "
            "distinct and non-NULL; schedules: none (round-robin), one thread after the other, everybody up to the CAS then "
            "in reverse, random up to 60 steps (200 for the race exploration).  Non-trivial = two threads share an id.  "
            "(e) registry T-sched: 2..4 threads of 1..4 register / unregister-own / lookup calls over 1..5 names, 0..3 names "
            "registered beforehand for given threads (families: everybody registers the same name; register/unregister "
            "cycles on one name; mixes), schedules: round-robin, one after the other, lock step, random up to 60 (300 for "
            "the race exploration).  Non-trivial = two threads use a common name")
    trusted = ("harness/h_info.c: info.c, parsec_list.c, parsec_object.c, parsec_rwlock.c are #included; malloc/calloc/realloc/"
               "free/strdup inside info.c go to wrappers (0xA5 fill, zero fill, 0x5A on free); cases run in a forked child so "
               "that a crash of the code under test is an observation",
               "the constructor / destructor callbacks are the harness' own (constructor value = f(cons_data, cons_obj))")
    assumptions = ("sequential theorems: one thread; concurrent theorems: sequentially consistent atomic steps at the "
                   "granularity of the parsec_atomic_* calls, no registration or resize concurrent with the array operations",
                   "malloc/realloc never fail; int ids far from overflow",
                   "64-bit little-endian pointers (the memset of the unchanged code clears low-order bytes)",
                   "clients pass ids returned by parsec_info_register, not above max_id")

    # ------------------------------------------------------------------ generator
    def reg_tok(self, r, n):
        ct = r.pick([0, 0, 0, 0, 1, 2, 3, 5])
        return "R:%d:%d:%d:%d" % (n, r.range(1, 200), ct, r.pick([0, 0, 1]))

    def val(self, r):
        return r.pick(VALS) if r.chance(3, 4) else (r.u64() | 1)

    def random_case(self, r, nops, npool=6):
        """mostly valid operations chosen against a shadow of the specification"""
        names, arrs, vals = set(), [], {}
        out = []
        for _ in range(nops):
            k = r.below(100)
            free = [n for n in range(npool) if n not in names]
            live = sorted(names)
            alive = [a for a, x in enumerate(arrs) if x]
            if k < 22:
                n = r.pick(free) if free and not r.chance(1, 10) else r.below(npool)
                out.append(self.reg_tok(r, n))
                names.add(n)
            elif k < 34:
                n = r.pick(live) if live and not r.chance(1, 10) else r.below(npool)
                out.append("U:%d" % n)
                names.discard(n)
                for a in range(len(arrs)):
                    vals.pop((a, n), None)
            elif k < 37:
                out.append("V:%d" % r.below(npool + 2))
            elif k < 45:
                out.append("L:%d" % r.below(npool))
            elif k < 53 and len(arrs) < 5:
                out.append("A")
                arrs.append(True)
            elif k < 55 and alive:
                a = r.pick(alive)
                out.append("X:%d" % a)
                arrs[a] = False
            else:
                if not alive or not live or r.chance(1, 25):
                    a, n = r.below(max(1, len(arrs) + 1)), r.below(npool)
                else:
                    a, n = r.pick(alive), r.pick(live)
                kk = r.below(10)
                if kk < 4:
                    v = self.val(r)
                    out.append("S:%d:%d:%x" % (a, n, v))
                    vals[(a, n)] = v
                elif kk < 8:
                    out.append("G:%d:%d" % (a, n))
                else:
                    v = self.val(r)
                    old = r.pick([0, vals.get((a, n), 0), vals.get((a, n), 0), self.val(r)])
                    out.append("T:%d:%d:%x:%x" % (a, n, v, old))
                    if vals.get((a, n), 0) == old:
                        vals[(a, n)] = v
        return " ".join(out)

    def hole_case(self, r, k, hole, extra, npool):
        """register k names, unregister the hole-th one(s), register `extra` more, look everything up,
        then use the ids on arrays"""
        out = [self.reg_tok(r, n) for n in range(k)]
        if r.chance(1, 2):
            out.insert(r.range(0, k), "A")
        for h in hole:
            out.append("U:%d" % h)
        new = list(range(k, min(npool, k + extra))) + [h for h in hole][:max(0, k + extra - npool)]
        for n in new:
            out.append(self.reg_tok(r, n))
        out.append("A")
        names = [n for n in range(k) if n not in hole or n in new] + [n for n in new if n >= k]
        for n in names:
            out.append("L:%d" % n)
        na = out.count("A")
        for n in names:
            out.append("S:%d:%d:%x" % (r.below(na), n, self.val(r)))
        for n in r.shuffle(names):
            out.append("G:%d:%d" % (r.below(na), n))
        for n in r.shuffle(names)[:2]:
            out.append("U:%d" % n)
        return " ".join(out)

    def growth_case(self, r, k0, grow, npool):
        """k0 names, an array, values in every slot, `grow` more names, then the new ids are used on the
        old array (which makes it grow) and the old values are read back"""
        out = [self.reg_tok(r, n) for n in range(k0)]
        out.append("A")
        for n in range(k0):
            out.append("S:0:%d:%x" % (n, self.val(r)))
        if r.chance(1, 3):
            out.append("A")
        for n in range(k0, min(npool, k0 + grow)):
            out.append(self.reg_tok(r, n))
        top = min(npool, k0 + grow) - 1
        first = r.pick([top, top, r.range(k0, top)]) if top >= k0 else 0
        out.append(r.pick(["G:0:%d", "S:0:%d:" + "%x" % self.val(r), "T:0:%d:" + "%x:0" % self.val(r)]) % first)
        for n in r.shuffle(range(0, top + 1)):
            out.append("G:0:%d" % n)
        out.append("U:%d" % r.below(top + 1))
        return " ".join(out)

    # --- several threads on one array (T-sched; the same cases feed the race exploration)
    def sched_case(self, r, long_sched=False):
        n = r.pick([1, 1, 2, 3])
        infos = [(r.pick([0, 0, 1, 2, 3, 5]), r.pick([0, 1, 1])) for _ in range(n)]
        fam = r.below(5)
        nt = r.range(2, 5)
        hot = r.below(n)
        if fam == 1:
            infos[hot] = (r.pick([2, 3, 5]), r.pick([0, 1, 1]))
        val = [0x10]
        made = []                                    # values written so far on the hot slot

        def fresh():
            val[0] += 1
            return val[0] * 0x101 + 0xa0000
        threads = []
        for t in range(nt):
            ops = []
            for _ in range(r.range(1, 4 if fam < 4 else 3)):
                i = hot if r.chance(4, 5) else r.below(n)
                if fam == 0:                         # publish once: everybody tries NULL -> own value, some read
                    k = r.pick(["T0", "T0", "T0", "G"])
                elif fam == 1:                       # everybody asks for the default object
                    k = r.pick(["G", "G", "G", "T0"])
                elif fam == 2:                       # chains: expected value = a value somebody writes
                    k = r.pick(["T0", "Tc", "Tc", "G"])
                else:
                    k = r.pick(["T0", "Tc", "G", "S", "G"])
                if k == "G":
                    ops.append("G:%d" % i)
                elif k == "S":
                    v = fresh()
                    made.append(v)
                    ops.append("S:%d:%x" % (i, v))
                else:
                    v = fresh()
                    old = 0 if (k == "T0" or not made) else r.pick(made)
                    made.append(v)
                    ops.append("T:%d:%x:%x" % (i, v, old))
            threads.append(" ".join(ops))
        kind = r.below(6)
        if kind == 0:
            sched = []
        elif kind == 1:                              # one thread after the other
            sched = [t for t in r.shuffle(range(nt)) for _ in range(40)]
        elif kind == 2:                              # everybody up to the CAS, then in reverse order
            sched = [t for _ in range(r.range(1, 3)) for t in range(nt)] + [t for t in reversed(range(nt)) for _ in range(3)]
        else:
            sched = [r.below(nt) for _ in range(r.range(1, 200 if long_sched else 60))]
        return "sched %d %s | %s | %s" % (n, " ".join("%d:%d" % x for x in infos), " / ".join(threads),
                                          " ".join(str(x) for x in sched))

    def regs_case(self, r, long_sched=False):
        nt = r.range(2, 4)
        npool = r.pick([1, 2, 2, 3, 4])
        pre, used = [], set()
        for n in r.shuffle(range(npool + 1))[:r.pick([0, 0, 1, 2, 3])]:
            pre.append((n, r.below(nt)))
            used.add(n)
        fam = r.below(4)
        hot = r.below(npool)
        threads = []
        for t in range(nt):
            ops, mine = [], set(n for n, tt in pre if tt == t)
            for _ in range(r.range(1, 4)):
                n = hot if r.chance(2, 3) else r.below(npool + 1)
                if fam == 0:                                   # everybody registers the same name
                    k = r.pick(["R", "R", "R", "L"])
                elif fam == 1:                                 # register / unregister cycles on one name
                    k = "U" if (n in mine and r.chance(2, 3)) else r.pick(["R", "R", "L"])
                else:
                    k = r.pick(["R", "R", "U", "L", "L"])
                    if k == "U" and mine and r.chance(2, 3):
                        n = r.pick(sorted(mine))
                ops.append("%s:%d" % (k, n))
                if k == "R":
                    mine.add(n)
                elif k == "U":
                    mine.discard(n)
            threads.append(" ".join(ops))
        kind = r.below(6)
        if kind == 0:
            sched = []
        elif kind == 1:
            sched = [t for t in r.shuffle(range(nt)) for _ in range(30)]
        elif kind == 2:                                        # lock step: everybody arrives, then everybody goes on
            sched = [t for _ in range(r.range(2, 8)) for t in range(nt)]
        else:
            sched = [r.below(nt) for _ in range(r.range(1, 300 if long_sched else 60))]
        return "regs%s | %s | %s" % ("".join(" %d@%d" % x for x in pre), " / ".join(threads), " ".join(str(x) for x in sched))

    def cases(self):
        # Rng(seed) and Rng(seed+1) are the same SplitMix64 stream shifted by one draw and fall into
        # step after the first case; a fork (seeded by a mixed output) gives unrelated streams per seed
        r = self.rng.fork()
        quick = self.tier == "quick"
        out = []
        # holes at the beginning / middle / end, one or two of them, followed by 1..3 registrations
        for k in range(2, 7):
            for h in range(k):
                for extra in (1, 2, 3):
                    out.append(self.hole_case(r, k, [h], extra, 8))
        for _ in range(60 if quick else 600):
            k = r.range(3, 6)
            hs = r.shuffle(range(k))[:r.range(1, 2)]
            out.append(self.hole_case(r, k, sorted(hs), r.range(1, 3), 8))
        # growth of the registry between a set and a get: every (initial size, growth) pair, the growth
        # crossing the 8-byte boundary of the byte-counting memset
        for k0 in range(0, 5):
            for grow in list(range(1, 6)) + [8, 9, 10, 11]:
                out.append(self.growth_case(r, k0, grow, 16))
        for _ in range(80 if quick else 800):
            out.append(self.growth_case(r, r.range(0, 4), r.range(1, 5), 6))
        # random mixes over a pool of 6 names
        for _ in range(1500 if quick else 30000):
            out.append(self.random_case(r, r.pick([8, 14, 20, 30, 40])))
        for _ in range(100 if quick else 2000):
            out.append(self.random_case(r, r.pick([20, 40, 60]), npool=r.pick([3, 10, 16])))
        # concurrent callers on one array, interleaved at the atomic operations
        r2 = self.rng.fork()
        out += SCHED_DIRECTED
        for _ in range(1200 if quick else 20000):
            out.append(self.sched_case(r2))
        # concurrent clients of one registry, interleaved at the lock operations
        r3 = self.rng.fork()
        out += REGS_DIRECTED
        for _ in range(1000 if quick else 15000):
            out.append(self.regs_case(r3))
        return out

    def race_cases(self, cases):
        """the same thread programs at the granularity of plain accesses: longer schedules"""
        r = self.rng.fork()
        out = [c for c in cases if c.startswith("sched ")][:600 if self.tier == "quick" else 4000]
        for _ in range(600 if self.tier == "quick" else 6000):
            out.append(self.sched_case(r, long_sched=True))
        out += [c for c in cases if c.startswith("regs")][:500 if self.tier == "quick" else 4000]
        for _ in range(500 if self.tier == "quick" else 6000):
            out.append(self.regs_case(r, long_sched=True))
        return out

    def nontrivial_key(self, case):
        if case.startswith("regs"):
            pre, threads = parse_regs_case(case)
            names = [set(n for _, n in th) | set(n for n, t in pre if t == k) for k, th in enumerate(threads)]
            shared = any(names[a] & names[b] for a in range(len(names)) for b in range(a + 1, len(names)))
            return case if shared else None
        if case.startswith("sched "):
            infos, threads = parse_sched_case(case)
            ids = [set(op[1] for op in th) for th in threads]
            shared = any(ids[a] & ids[b] for a in range(len(ids)) for b in range(a + 1, len(ids)))
            return case if shared else None
        return case if ("R:" in case and ("S:" in case or "G:" in case or "T:" in case or "U:" in case)) else None

    def dist(self, cases):
        d = {}
        seq = [c for c in cases if not c.startswith("sched ") and not c.startswith("regs")]
        d["regs_cases"] = sum(1 for c in cases if c.startswith("regs"))
        for c in seq:
            for t in c.split():
                d[t[0]] = d.get(t[0], 0) + 1
        d["cases"] = len(cases)
        d["sequential_cases"] = len(seq)
        d["sched_cases"] = sum(1 for c in cases if c.startswith("sched "))
        d["sched_threads"] = {}
        for c in cases:
            if c.startswith("sched "):
                k = str(c.split("|")[1].count("/") + 1)
                d["sched_threads"][k] = d["sched_threads"].get(k, 0) + 1
        d["max_ops"] = max(len(c.split()) for c in seq)
        return d

    # ------------------------------------------------------------------ oracle
    def oracle(self, case, obs):
        try:
            (replay_regs if case.startswith("regs") else replay_sched if case.startswith("sched ") else replay)(case, obs)
        except Fail as e:
            return e.why
        except Exception as e:                       # the implementation printed garbage
            return "unparsable observation (%s): %s" % (type(e).__name__, obs[:100])
        return None

    def signature(self, case, obs):
        try:
            (replay_regs if case.startswith("regs") else replay_sched if case.startswith("sched ") else replay)(case, obs)
        except Fail as e:
            return e.sig
        except Exception:
            return "unparsable"
        return "ok"

    def search_cases(self):
        r = self.rng.fork()
        out = []
        for k in range(1, 9):
            for h in range(k):
                for extra in (1, 2, 3, 4):
                    out.append(self.hole_case(r, k, [h], extra, 14))
        for k0 in range(0, 7):
            for grow in range(1, 10):
                out.append(self.growth_case(r, k0, grow, 16))
        for _ in range(1500):
            out.append(self.random_case(r, r.pick([10, 20, 40])))
        return out
